"""Fact base: lazily parsed translation units, kernel/spec association, class tables."""
import os
from . import cxx, spec as specmod
from .core import AnalysisError, REPO


class Facts:
    def __init__(self):
        self._kern = None
        self._lib = None
        self._spec = None
        self._kfun = None
        self._bind = None
        self.units = []

    # ---------------- kernels
    def kernel_tus(self):
        if self._kern is None:
            files = cxx.kernel_files()
            if len(files) < 150:
                raise AnalysisError("only %d files under src/cpu-kernels (anchor vanished?)" % len(files))
            self._kern = cxx.parse_many([(p, "kernel") for p in files])
            for p, tu in self._kern.items():
                if tu["errors"]:
                    raise AnalysisError("clang reports errors in %s: %s" % (tu["path"], tu["errors"][:2]))
                if tu["unknown"]:
                    raise AnalysisError("front end met unknown AST node kinds %s in %s" % (tu["unknown"], tu["path"]))
            self.units.append("src/cpu-kernels/*.cpp: %d translation units, %d function bodies" % (len(self._kern), sum(len(t["funcs"]) for t in self._kern.values())))
        return self._kern

    def kernel_functions(self):
        """name -> list of function dicts (pattern first, then instantiations) over all kernel TUs"""
        if self._kfun is None:
            d = {}
            for p, tu in self.kernel_tus().items():
                for f in tu["funcs"]:
                    d.setdefault(f["name"], []).append(f)
            self._kfun = d
        return self._kfun

    def kernel_pattern(self, name):
        for f in self.kernel_functions().get(name, []):
            if not f["inst"]:
                return f
        return None

    # ---------------- spec
    def spec(self):
        if self._spec is None:
            self._spec = specmod.load_spec()
            if len(self._spec) < 150:
                raise AnalysisError("kernel-specification.yml lists only %d kernels" % len(self._spec))
            self.units.append("kernel-specification.yml: %d kernels, %d specialisations" % (len(self._spec), sum(len(k["specializations"]) for k in self._spec)))
        return self._spec

    # ---------------- libawkward
    def lib_tus(self):
        if self._lib is None:
            files = cxx.lib_files()
            if len(files) < 60:
                raise AnalysisError("only %d files under src/libawkward" % len(files))
            self._lib = cxx.parse_many([(p, "lib") for p in files])
            for p, tu in self._lib.items():
                if tu["errors"]:
                    raise AnalysisError("clang reports errors in %s: %s" % (tu["path"], tu["errors"][:2]))
                if tu["unknown"]:
                    raise AnalysisError("front end met unknown AST node kinds %s in %s" % (tu["unknown"], tu["path"]))
            self.units.append("src/libawkward/**/*.cpp: %d translation units, %d function bodies (patterns + instantiations)" % (len(self._lib), sum(len(t["funcs"]) for t in self._lib.values())))
        return self._lib

    # ---------------- pybind11 layer (parsed against the declaration-only stub in /verif/stubs/pybind11)
    def binding_tus(self):
        if self._bind is None:
            files = cxx.binding_files()
            if len(files) < 10:
                raise AnalysisError("only %d files under src/python" % len(files))
            self._bind = cxx.parse_many([(p, "binding") for p in files])
            for p, tu in self._bind.items():
                if tu["errors"]:
                    raise AnalysisError("clang reports errors in %s (pybind11 stub out of date?): %s" % (tu["path"], tu["errors"][:2]))
                if tu["unknown"]:
                    raise AnalysisError("front end met unknown AST node kinds %s in %s" % (tu["unknown"], tu["path"]))
            self.units.append("src/python/*.cpp: %d translation units, %d function bodies (parsed with a declaration-only pybind11 stub)" % (len(self._bind), sum(len(t["funcs"]) for t in self._bind.values())))
        return self._bind

    def binding_funcs(self, inst=False):
        seen, out = set(), []
        for p, tu in sorted(self.binding_tus().items()):
            for f in tu["funcs"]:
                if bool(f["inst"]) != bool(inst):
                    continue
                k = (f["qual"], f["file"], f["line"], f["targs"], f["ftargs"])
                if k in seen:
                    continue
                seen.add(k)
                out.append(f)
        return out

    with_inst = False   # thorough tier: structural rules also see every template instantiation

    def lib_funcs(self, inst=None, files=None):
        """function bodies defined in src/libawkward (main files) and include/awkward.
        inst=False: template patterns and non-template code; inst=True: instantiations only;
        inst=None (default): patterns, plus instantiations when with_inst is set (thorough tier)"""
        seen = set()
        out = []
        for p, tu in sorted(self.lib_tus().items()):
            for f in tu["funcs"]:
                if inst is None:
                    if f["inst"] and not self.with_inst:
                        continue
                elif bool(f["inst"]) != bool(inst):
                    continue
                k = (f["qual"], f["file"], f["line"], f["targs"], f["ftargs"])
                if k in seen:
                    continue
                seen.add(k)
                if files is not None and f["file"] not in files:
                    continue
                out.append(f)
        return out

    def classes(self):
        out = {}
        for p, tu in sorted(self.lib_tus().items()):
            for k, c in tu["classes"].items():
                if k not in out or (len(c["methods"]) > len(out[k]["methods"])):
                    out[k] = c
        return out


def walk(x, fn):
    """pre-order visit of every tuple node in IR"""
    if isinstance(x, tuple):
        if x and isinstance(x[0], str):
            fn(x)
        for y in x:
            if isinstance(y, tuple):
                walk(y, fn)


def find_all(x, pred):
    out = []

    def v(n):
        if pred(n):
            out.append(n)
    walk(x, v)
    return out


def src_path(rel):
    return os.path.join(REPO, rel)
