"""Python front end: ast only (the package cannot be imported: awkward._ext does not exist here)."""
import ast
import os
from .core import AnalysisError, REPO

PKG = os.path.join(REPO, "src", "awkward")
_cache = {}


class Module:
    def __init__(self, rel):
        self.rel = rel
        self.path = os.path.join(PKG, rel)
        if not os.path.exists(self.path):
            raise AnalysisError("anchored Python module src/awkward/%s is missing" % rel)
        self.src = open(self.path, encoding="utf-8").read()
        try:
            self.tree = ast.parse(self.src)
        except SyntaxError as e:
            raise AnalysisError("src/awkward/%s does not parse: %s" % (rel, e))
        self.funcs = {}     # qualname -> FunctionDef  (Class.method, outer.inner)
        self.classes = {}
        self._index(self.tree, "")
        for n in ast.walk(self.tree):
            for c in ast.iter_child_nodes(n):
                c._parent = n

    def _index(self, node, prefix):
        for c in ast.iter_child_nodes(node):
            if isinstance(c, (ast.FunctionDef, ast.AsyncFunctionDef)):
                q = prefix + c.name
                self.funcs.setdefault(q, c)
                self._index(c, q + ".")
            elif isinstance(c, ast.ClassDef):
                q = prefix + c.name
                self.classes[q] = c
                self._index(c, q + ".")
            else:
                self._index(c, prefix)

    def func(self, qual):
        f = self.funcs.get(qual)
        if f is None:
            raise AnalysisError("anchored function %s not found in src/awkward/%s" % (qual, self.rel))
        return f

    def where(self, node):
        return "src/awkward/%s:%d" % (self.rel, getattr(node, "lineno", 0))


def module(rel):
    if rel not in _cache:
        _cache[rel] = Module(rel)
    return _cache[rel]


def all_modules(exclude=("_v2",)):
    out = []
    for d, _, fs in os.walk(PKG):
        if any(("/" + e) in d for e in exclude):
            continue
        for f in sorted(fs):
            if f.endswith(".py"):
                out.append(os.path.relpath(os.path.join(d, f), PKG))
    return sorted(out)


def dotted(n):
    if isinstance(n, ast.Attribute):
        b = dotted(n.value)
        return (b + "." if b else "?.") + n.attr
    if isinstance(n, ast.Name):
        return n.id
    return None


def params_of(f, drop_self=True):
    a = f.args
    names = [x.arg for x in a.posonlyargs + a.args]
    if drop_self and names and names[0] in ("self", "cls"):
        names = names[1:]
    return names, [x.arg for x in a.kwonlyargs], (a.vararg.arg if a.vararg else None), (a.kwarg.arg if a.kwarg else None)


def parent_chain(n):
    while hasattr(n, "_parent"):
        n = n._parent
        yield n


def enclosing_tests(n):
    """list of (test_expr, in_body: True/False) for every enclosing `if`"""
    out = []
    child = n
    for p in parent_chain(n):
        if isinstance(p, ast.If):
            if any(child is x for x in p.body):
                out.append((p.test, True))
            elif any(child is x for x in p.orelse):
                out.append((p.test, False))
        elif isinstance(p, ast.IfExp):
            if child is p.body:
                out.append((p.test, True))
            elif child is p.orelse:
                out.append((p.test, False))
        child = p
    return out
