"""Python-side rules written from the third review round (2026-10-05)."""
import ast
import re
from .. import pyfront as pf
from ..core import AnalysisError, load_table
from .pyrules3 import _mods, _owner_func, _funcs


# NumPy functions whose second positional parameter is `axis`
_NUMPY_AXIS_SECOND = ("sum", "prod", "any", "all", "min", "max", "amin", "amax", "ptp", "argmin", "argmax", "mean", "var", "std", "median", "count_nonzero", "sort", "argsort", "size",
                      "concatenate", "cumsum", "cumprod", "nansum", "nanmean", "nanstd", "nanvar", "nanmin", "nanmax", "average", "flip", "squeeze", "expand_dims", "stack")


def rule_py_numpy_positional(rep, floor=15):
    r = rep.rule("TABLE.py-numpy-positional", "a function registered with @ak._connect._numpy.implements(\"<name>\") is called by NumPy's dispatch with the user's arguments as they were written for np.<name>; for the NumPy "
                 "functions whose second positional parameter is the axis (sum, mean, var, std, sort, concatenate, ...) the registered function takes `axis` second as well - otherwise `np.mean(array, 1)` binds the axis "
                 "to something else (a weight) and silently computes another quantity", floor=floor)
    n = 0
    for rel in _mods():
        m = pf.module(rel)
        for fn in _funcs(m.tree):
            for d in fn.decorator_list:
                if not (isinstance(d, ast.Call) and (pf.dotted(d.func) or "").endswith("_numpy.implements") and d.args and isinstance(d.args[0], ast.Constant)):
                    continue
                name = d.args[0].value
                if name not in _NUMPY_AXIS_SECOND:
                    continue
                n += 1
                pos = pf.params_of(fn, drop_self=False)[0]
                r.check(len(pos) >= 2 and pos[1] == "axis", "%s:%s@np.%s" % (rel, fn.name, name), m.where(fn),
                        "%s: %s is registered as np.%s but its second positional parameter is `%s`, not `axis`" % (rel, fn.name, name, pos[1] if len(pos) > 1 else "-"), detail="axis second")
    if n < 10:
        raise AnalysisError("only %d registrations of axis-second NumPy functions found" % n)
    return r.done()


def rule_py_pack_reenters(rep, floor=4):
    r = rep.rule("REC.py-normaliser-reenters", "in a node-by-node normaliser that the caller applies once per node and then descends into the children (`_pack_layout`), an arm that converts the node into another node "
                 "(`layout.simplify()`, `.project()`, `.toIndexedOptionArray64()`, `.array`, `.toListOffsetArray64()`) hands the result back through the normaliser unless the arm builds the final form itself: "
                 "the converted node is of a class that has an arm of its own, which the caller will not visit again", floor=floor)
    m = pf.module("operations/structure.py")
    fn = m.func("_pack_layout")
    conv = ("simplify", "project", "toIndexedOptionArray64", "toByteMaskedArray", "toRegularArray")
    n = 0
    for s in ast.walk(fn):
        if not isinstance(s, ast.Return) or s.value is None:
            continue
        v = s.value
        kind = None
        if isinstance(v, ast.Call) and isinstance(v.func, ast.Attribute) and v.func.attr in conv and isinstance(v.func.value, ast.Name):
            kind = v.func.attr + "()"
        elif isinstance(v, ast.Attribute) and v.attr == "array" and isinstance(v.value, ast.Name):
            kind = ".array"
        elif isinstance(v, ast.Call) and isinstance(v.func, ast.Name) and v.func.id == fn.name:
            n += 1
            r.ok("structure.py:_pack_layout@%d" % s.lineno, "re-enters")
            continue
        if kind is None:
            continue
        n += 1
        r.fail("structure.py:_pack_layout#%s@%d" % (kind, n), m.where(s), "structure.py: _pack_layout returns `%s` without packing the node it converted to" % ast.unparse(v)[:50])
    if n < 4:
        raise AnalysisError("_pack_layout: only %d converting returns found" % n)
    return r.done()


def rule_py_recursion_all_options(rep, floor=3):
    r = rep.rule("FORWARD.py-recursion-options", "a function that calls itself with three or more of its own keyword-defaulted parameters handed on under their own names (`axis=axis, nested=nested, parameters=parameters`) "
                 "hands on every keyword-defaulted parameter it has, or sets it explicitly: the one left out (`behavior`) silently falls back to its default in the recursive call - "
                 "(function, parameter) pairs in tables/py_recursion_option_exceptions.json are accepted with a reason", floor=floor)
    table = load_table("py_recursion_option_exceptions.json")
    for rel in _mods():
        m = pf.module(rel)
        for fn in _funcs(m.tree):
            a = fn.args
            names = [x.arg for x in a.posonlyargs + a.args]
            defaults = names[len(names) - len(a.defaults):] + [x.arg for x, d in zip(a.kwonlyargs, a.kw_defaults) if d is not None]
            if len(defaults) < 4:
                continue
            calls = [c for c in ast.walk(fn) if isinstance(c, ast.Call) and isinstance(c.func, ast.Name) and c.func.id == fn.name and _owner_func(c) is not None
                     and (_owner_func(c) is fn or any(p is fn for p in pf.parent_chain(_owner_func(c))))]
            for c in calls:
                if any(kw.arg is None for kw in c.keywords) or any(isinstance(x, ast.Starred) for x in c.args):
                    continue
                given = {kw.arg for kw in c.keywords}
                same = {kw.arg for kw in c.keywords if isinstance(kw.value, ast.Name) and kw.value.id == kw.arg}
                if len(same & set(defaults)) < 3:
                    continue
                npos = len(c.args)
                covered = set(names[:npos]) | given
                missing = [p for p in defaults if p not in covered]
                key = "%s:%s@%d" % (rel, fn.name, c.lineno)
                miss2 = []
                for p in missing:
                    tk = "%s:%s(%s)" % (rel, fn.name, p)
                    if tk in table:
                        r.excepted(tk, table[tk])
                    else:
                        miss2.append(p)
                r.check(not miss2, key if miss2 else "%s:%s#call%d" % (rel, fn.name, calls.index(c) + 1), m.where(c), "%s: %s calls itself handing on %s but not %s: the recursive call runs with the default" % (
                    rel, fn.name, sorted(same), miss2), detail="every option handed on")
    return r.done()


def rule_py_numba_view_start_compose(rep, floor=2):
    r = rep.rule("VIEW.py-numba-slice-composes", "in _connect/_numba/arrayview.py and layout.py, a lowering function that builds a new view from a view-relative range (`proxyout.start = ...regular_start...`) "
                 "adds the source view's start: slices of slices compose (`x[2:5][1:2]` is `x[3:4]`); the ContentType.lower_getitem_range in layout.py and the partitioned twin must agree", floor=floor)
    n = 0
    for rel in ("_connect/_numba/arrayview.py", "_connect/_numba/layout.py"):
        m = pf.module(rel)
        for fn in _funcs(m.tree):
            for s in ast.walk(fn):
                if not (isinstance(s, ast.Assign) and len(s.targets) == 1 and isinstance(s.targets[0], ast.Attribute) and s.targets[0].attr in ("start", "stop") and isinstance(s.targets[0].value, ast.Name)):
                    continue
                txt = ast.unparse(s.value)
                if "regular_start" not in txt and "regular_stop" not in txt:
                    continue
                n += 1
                adds = bool(re.search(r"builder\.add\(\s*\w+\.start\s*,", txt)) or bool(re.search(r"builder\.add\(.*,\s*\w+\.start\s*\)", txt))
                r.check(adds, "%s:%s#%s" % (rel.split("/")[-1], fn.name, s.targets[0].attr), m.where(s), "%s: %s sets the new view's %s to a view-relative position without adding the source view's start" % (
                    rel.split("/")[-1], fn.name, s.targets[0].attr), detail="source start added")
    if n < 4:
        raise AnalysisError("only %d view range constructions found" % n)
    return r.done()


def rule_py_depth_relative_wrap(rep, floor=4):
    r = rep.rule("AXIS.py-wrap-at-depth", "inside a per-node callback that receives the node's nesting `depth` (recursively_apply(pass_depth=True), transform(layout, depth, posaxis)), a negative axis carried down as "
                 "`posaxis` is wrapped with ak._util.axis_wrap_if_negative_at(layout, posaxis, depth), not with layout.axis_wrap_if_negative(posaxis) alone: the latter counts from the node itself, so below the top of "
                 "the array the result is off by depth - 1 when it is compared with the absolute depth", floor=floor)
    n = 0
    for rel in _mods():
        m = pf.module(rel)
        for fn in _funcs(m.tree):
            pos = pf.params_of(fn)[0]
            if "depth" not in pos or "posaxis" not in pos:
                continue
            for c in ast.walk(fn):
                if not (isinstance(c, ast.Call) and _owner_func(c) is fn):
                    continue
                d = pf.dotted(c.func) or ""
                if d.endswith(".axis_wrap_if_negative") and any(isinstance(x, ast.Name) and x.id == "posaxis" for x in c.args):
                    n += 1
                    r.fail("%s:%s@%d" % (rel, fn.name, c.lineno), m.where(c), "%s: %s wraps `posaxis` relative to the node although the node's depth is at hand: below the top of the array the wrapped axis is off by depth - 1" % (rel, fn.name))
                elif d.endswith("axis_wrap_if_negative_at"):
                    n += 1
                    ok = len(c.args) == 3 and isinstance(c.args[1], ast.Name) and c.args[1].id == "posaxis" and isinstance(c.args[2], ast.Name) and c.args[2].id == "depth"
                    r.check(ok, "%s:%s#wrap%d" % (rel, fn.name, n), m.where(c), "%s: %s calls axis_wrap_if_negative_at with other arguments than (layout, posaxis, depth)" % (rel, fn.name), detail="wrapped at depth")
    if n < 4:
        raise AnalysisError("only %d depth-aware axis wraps found" % n)
    return r.done()


def rule_py_dunder_other(rep, floor=20):
    r = rep.rule("DEAD.py-binary-other-unused", "a binary special method (__eq__, __ne__, __lt__, __le__, __gt__, __ge__, __add__, __radd__, __sub__, __mul__, __contains__, __matmul__ ...) reads its second parameter: "
                 "a comparison that builds both sides from `self` is always true", floor=floor)
    names = {"__eq__", "__ne__", "__lt__", "__le__", "__gt__", "__ge__", "__add__", "__radd__", "__sub__", "__rsub__", "__mul__", "__rmul__", "__truediv__", "__rtruediv__", "__contains__", "__matmul__", "__rmatmul__",
             "__and__", "__or__", "__xor__", "__getitem__", "__setitem__", "__getattr__", "__iadd__"}
    for rel in _mods():
        m = pf.module(rel)
        for fn in _funcs(m.tree):
            if fn.name not in names or not any(isinstance(p, ast.ClassDef) for p in pf.parent_chain(fn)):
                continue
            pos = pf.params_of(fn)[0]
            if not pos:
                continue
            other = pos[0]
            used = any(isinstance(x, ast.Name) and x.id == other and isinstance(x.ctx, ast.Load) for s in fn.body for x in ast.walk(s))
            # methods that refuse outright (raise only) need not read it
            refuses = all(isinstance(s, (ast.Raise, ast.Expr)) for s in fn.body)
            cls = next(p for p in pf.parent_chain(fn) if isinstance(p, ast.ClassDef))
            r.check(used or refuses, "%s:%s.%s" % (rel, cls.name, fn.name), m.where(fn), "%s: %s.%s never reads its operand `%s`" % (rel, cls.name, fn.name, other), detail="operand read")
    return r.done()
