"""Rule family H (CANON): an option node built around a content whose node kind is not known statically is simplified."""
import re
from ..facts import find_all
from .kspec import cexpr, unparse
from . import callsites as cs

OPT = re.compile(r"^(IndexedOptionArray(32|64)|IndexedArrayOf<.*true>|ByteMaskedArray|BitMaskedArray|UnmaskedArray|IndexedArrayOf<T, ISOPTION>|IndexedArray(32|U32|64))$")
UNI = re.compile(r"^(UnionArray8_(32|U32|64)|UnionArrayOf<.*>)$")
# methods of the content whose result can be a node of any kind (field projection exposes whatever the record holds;
# getitem_next descends through the slice): an option node wrapped around such a result may become option-in-option / indexed-in-option
KIND_CHANGING = ("getitem_field", "getitem_fields", "getitem_next", "getitem_next_jagged")
# carry(index, allow_lazy) with allow_lazy not literally false may return IndexedArray64(index, content) instead of a carried copy
# (RecordArray::carry does): it changes the node kind too


def _content_arg(n):
    t, a = str(n[1]).replace("const ", ""), n[2]
    if t.startswith("Unmasked"):
        return a[2] if len(a) > 2 else None
    return a[3] if len(a) > 3 else None


def rule_canon(rep, fb, floor=15):
    r = rep.rule("CANON.simplify-after-projection", "an option/indexed node constructed around the result of content->getitem_field(s) / getitem_next / getitem_next_jagged / carry(.., allow_lazy != false) (whose node kind is arbitrary) "
                 "is passed through simplify_optiontype() before it is returned (no option-in-option or indexed-in-option results, which the validity check rejects)", floor=floor)
    for f in fb.lib_funcs():
        if "ContentPtr" not in f["ret"] or not (f["file"].startswith("src/libawkward/array") or f["file"].endswith("Content.cpp")):
            continue
        cnt = {}

        def onblock(stmts, cont, f=f):
            for i, s in enumerate(stmts):
                for e in cs.head_exprs(s):
                    for n in find_all((e,), lambda n: n[0] in ("make", "ctor") and len(n) >= 3 and len(n[2]) >= 3 and OPT.match(str(n[1]).replace("const ", ""))):
                        ca = _content_arg(n)
                        if ca is None:
                            continue
                        src = ca
                        if ca[0] == "var":
                            ds = cs.scoped_defs(cs._PseudoSite(f, stmts, i, cont)).get(ca[1]) or []
                            src = ds[0][3] if len(ds) == 1 and ds[0][3] is not None else ca
                        while src and src[0] == "deref":
                            src = src[1]
                        lazy_carry = bool(src and src[0] == "mcall" and src[1] == "carry" and len(src[4]) >= 2 and cexpr(src[4][1]) != ("const", 0))
                        if not (src and src[0] == "mcall" and (src[1] in KIND_CHANGING or lazy_carry)):
                            continue
                        cnt[src[1]] = cnt.get(src[1], 0) + 1
                        simp = bool(find_all((s,), lambda m: m[0] == "mcall" and m[1] == "simplify_optiontype" and find_all((m[3],), lambda k: k is n)))
                        if not simp and s[0] == "decl" and s[3] is n:
                            v = s[1]
                            simp = bool(find_all(tuple(stmts[i + 1:]), lambda m: m[0] == "mcall" and m[1] == "simplify_optiontype" and find_all((m[3],), lambda k: k == ("var", v))))
                        key = "%s/%d:%s(%s)#%d" % (f["qual"], len(f["params"]), str(n[1])[:28], src[1], cnt[src[1]])
                        r.check(simp, key, "%s:%d" % (f["file"], n[-1] if isinstance(n[-1], int) else f["line"]),
                                "%s wraps the result of content->%s(...) in a %s without simplify_optiontype(): if that result is itself an option or indexed node the returned array is not in canonical form" % (f["qual"], src[1], n[1]),
                                detail="...simplify_optiontype()")
        cs.each_block_cont(f["body"], onblock)
    return r.done()
