"""Invariants of individual libawkward methods that the first rounds of seeded changes showed to be unguarded.
Each is a structural necessary condition stated on named constructs (never a frozen source fragment)."""
import re
from ..facts import find_all
from ..core import AnalysisError
from .kspec import cexpr, unparse
from . import callsites as cs

# ------------------------------------------------------------------------------------------------
# R-a  index <-> content pairing in indexed / union nodes


def _compacted(e, defs, depth=0):
    """'COMPACT' if the expression's value derives from content carried/projected into a new numbering
    (carry(..), project(..)), 'FULL' if it is content_/contents_ or a per-element operation on it, else None"""
    if e is None or depth > 7:
        return None
    h = e[0]
    if h in ("deref",):
        return _compacted(e[1], defs, depth)
    if h == "cast":
        return _compacted(e[3], defs, depth)
    if h == "member" and e[1] == ("this",) and e[2] in ("content_", "contents_"):
        return "FULL"
    if h == "idx":
        return _compacted(e[1], defs, depth + 1)
    if h == "member" and e[2] in ("first", "second"):
        return _compacted(e[1], defs, depth + 1)
    if h == "mcall":
        name, recv = e[1], e[3]
        if name in ("carry", "project"):
            return "COMPACT"
        if name in ("content", "contents") and recv == ("this",):
            return "FULL"
        base = _compacted(recv, defs, depth + 1)
        return base
    if h == "var":
        ks = set()
        for d in defs.get(e[1]) or []:
            ks.add(_compacted(d[3], defs, depth + 1) if d[3] is not None else None)
        ks.discard(None)
        if len(ks) == 1:
            return ks.pop()
        if len(ks) > 1:
            return "MIXED"
        return None
    return None


def _pushed_kind(func, var, defs):
    """kind of the elements pushed into a local vector `var` anywhere in the function"""
    ks = set()
    fdefs = cs.local_decls(func)   # function-wide: the pushed values are usually declared inside the loop body
    for m in find_all(func["body"], lambda n: n[0] == "mcall" and n[1] in ("push_back", "emplace_back") and n[3] == ("var", var) and n[4]):
        k = _compacted(m[4][0], fdefs)
        if k:
            ks.add(k)
    if len(ks) == 1:
        return ks.pop()
    return "MIXED" if ks else None


def rule_index_content(rep, fb, floor=8):
    r = rep.rule("ORIGIN.index-content", "in IndexedArray / IndexedOptionArray / UnionArray methods, a node of the same family built with the node's own index_ (unchanged numbering) is built around content that is "
                 "still numbered like content_ — never around content that was carried or projected into a new numbering (that content needs the renumbered index computed alongside it); "
                 "and a variable that holds carried content on one path holds it on every path", floor=floor)
    for f in fb.lib_funcs():
        if f["cls"] not in ("IndexedArrayOf", "UnionArrayOf"):
            continue
        cnt = {}

        def onblock(stmts, cont, f=f):
            for i, s in enumerate(stmts):
                for e in cs.head_exprs(s):
                    for n in find_all((e,), lambda n: n[0] in ("make", "ctor") and len(n) >= 3 and len(n[2]) >= 4 and re.search(r"Indexed(Option)?Array|UnionArray", str(n[1]))):
                        has_raw_index = any(a == ("member", ("this",), "index_") for a in n[2])
                        if not has_raw_index:
                            continue
                        defs = cs.scoped_defs(cs._PseudoSite(f, stmts, i, cont))
                        kinds = []
                        for a in n[2]:
                            if a == ("member", ("this",), "index_") or a == ("member", ("this",), "tags_"):
                                continue
                            k = _compacted(a, defs)
                            if k is None and a[0] == "var":
                                k = _pushed_kind(f, a[1], defs)
                            if k:
                                kinds.append((k, a))
                        if not kinds:
                            continue
                        cnt[f["name"]] = cnt.get(f["name"], 0) + 1
                        key = "%s::%s/%d#%d" % (f["cls"], f["name"], len(f["params"]), cnt[f["name"]])
                        bad = [k for k in kinds if k[0] in ("COMPACT", "MIXED")]
                        r.check(not bad, key, "%s:%d" % (f["file"], n[-1] if isinstance(n[-1], int) else f["line"]),
                                "%s::%s pairs its own index_ (old numbering) with content that was carried/projected into a new numbering (%s)" % (f["cls"], f["name"], unparse(cexpr(bad[0][1]))[:50] if bad else ""),
                                detail="index_ with content still numbered like content_")
        cs.each_block_cont(f["body"], onblock)
    # the converse pairing: an index that numbers only the valid items (the outindex of nextcarry_outindex, the running count written by
    # IndexedOptionArray_rpad_and_clip_mask_axis1) goes with content carried/projected down to those items, never with content_ itself
    for f in fb.lib_funcs():
        if f["cls"] not in ("IndexedArrayOf", "ByteMaskedArray", "BitMaskedArray", "UnmaskedArray"):
            continue
        dense = set()
        for c in find_all(f["body"], lambda n: n[0] == "call" and "rpad_and_clip_mask_axis1" in repr(n[1])):
            for a in c[2][:2]:
                for m in find_all((a,), lambda n: n[0] == "mcall" and n[1] == "data" and n[3][0] == "var"):
                    dense.add(m[3][1])
        pairs = {d[1] for d in find_all(f["body"], lambda n: n[0] == "decl" and n[3] is not None and find_all((n[3],), lambda q: q[0] == "mcall" and q[1] == "nextcarry_outindex"))}
        for d in find_all(f["body"], lambda n: n[0] == "decl" and n[3] is not None and n[3][0] == "member" and n[3][2] == "second" and n[3][1][0] == "var" and n[3][1][1] in pairs):
            dense.add(d[1])
        if not dense:
            continue
        cnt2 = {}

        def onblock3(stmts, cont, f=f, dense=dense, cnt2=cnt2):
            for i, s in enumerate(stmts):
                for e in cs.head_exprs(s):
                    for n in find_all((e,), lambda n: n[0] in ("make", "ctor") and len(n) >= 3 and len(n[2]) >= 4 and re.search(r"Indexed(Option)?Array", str(n[1]))):
                        ix = [a for a in n[2] if a[0] == "var" and a[1] in dense]
                        if not ix:
                            continue
                        defs = cs.scoped_defs(cs._PseudoSite(f, stmts, i, cont))
                        kinds = [(_compacted(a, defs), a) for a in n[2] if a not in ix]
                        kinds = [k for k in kinds if k[0]]
                        if not kinds:
                            continue
                        cnt2[f["name"]] = cnt2.get(f["name"], 0) + 1
                        key = "%s::%s/%d#dense%d" % (f["cls"], f["name"], len(f["params"]), cnt2[f["name"]])
                        bad = [k for k in kinds if k[0] in ("FULL", "MIXED")]
                        r.check(not bad, key, "%s:%d" % (f["file"], n[-1] if isinstance(n[-1], int) else f["line"]),
                                "%s::%s pairs the index `%s`, which numbers only the valid items, with content that is still numbered like content_ (%s): rows come from other positions unless the node happens to be dense and in order" % (
                                    f["cls"], f["name"], ix[0][1], unparse(cexpr(bad[0][1]))[:50] if bad else ""), detail="dense index with carried/projected content")
        cs.each_block_cont(f["body"], onblock3)
    # receivers of the recursive *_next calls: carried on one path => carried on all
    for f in fb.lib_funcs():
        if f["cls"] not in ("IndexedArrayOf", "ByteMaskedArray", "BitMaskedArray", "UnmaskedArray") or f["name"] not in ("reduce_next", "sort_next", "argsort_next"):
            continue

        def onblock2(stmts, cont, f=f):
            for i, s in enumerate(stmts):
                for e in cs.head_exprs(s):
                    for m in find_all((e,), lambda n: n[0] == "mcall" and n[1] == f["name"]):
                        recv = m[3]
                        while recv[0] == "deref":
                            recv = recv[1]
                        if recv[0] != "var":
                            continue
                        defs = cs.scoped_defs(cs._PseudoSite(f, stmts, i, cont))
                        ks = set()
                        for d in defs.get(recv[1]) or []:
                            init = d[3]
                            if init is None:
                                continue
                            if init[0] == "cond":
                                ks.add(_compacted(init[2], defs))
                                ks.add(_compacted(init[3], defs))
                            else:
                                ks.add(_compacted(init, defs))
                        if "COMPACT" not in ks:
                            continue
                        key = "%s::%s->%s" % (f["cls"], f["name"], recv[1])
                        r.check(ks == {"COMPACT"}, key, "%s:%d" % (f["file"], m[-1]),
                                "%s::%s recurses into '%s', which is the carried content on one path but %s on another; the parents/outindex computed with it are sized for the carried content" % (f["cls"], f["name"], recv[1], sorted(str(k) for k in ks if k != "COMPACT")),
                                detail="receiver is the carried content on every path")
        cs.each_block_cont(f["body"], onblock2)
    return r.done()


# ------------------------------------------------------------------------------------------------
# R-b  option-source indexed builders

def rule_indexed_builder(rep, fb, floor=2):
    r = rep.rule("BUILDER.indexed-option", "the snapshot of an indexed builder whose source array is an option type (its append copies possibly-negative indexes without touching hasnull_) is an "
                 "option node on every path", floor=floor)
    classes = fb.classes()
    for f in fb.lib_funcs():
        if f["name"] != "snapshot" or not (f["cls"] or "").startswith("Indexed") or not (f["cls"] or "").endswith("Builder"):
            continue
        cls = classes.get(f["cls"])
        bases = " ".join(cls["bases"]) if cls else ""
        if "IndexedOptionArray" not in bases:
            continue
        makes = find_all(f["body"], lambda n: n[0] == "make" and "Indexed" in str(n[1]))
        ok = bool(makes) and all("IndexedOptionArray" in str(m[1]) for m in makes)
        r.check(ok, "%s::snapshot" % f["cls"], "%s:%d" % (f["file"], f["line"]), "%s::snapshot (source: %s) can return %s: a missing element appended from the source (index -1) would sit in a non-option node" % (
            f["cls"], bases, sorted({str(m[1]) for m in makes})), detail="always IndexedOptionArray64")
    return r.done()


# ------------------------------------------------------------------------------------------------
# R-c  Forth output buffer: no pointer into ptr_ is taken before maybe_resize

def rule_forth_output_alias(rep, fb, floor=10):
    r = rep.rule("GUARD.forth-output-alias", "in every ForthOutputBufferOf write method, no pointer into the buffer (a pointer-typed local initialised from ptr_) is taken before maybe_resize(): growth replaces ptr_, "
                 "so an earlier pointer would write into the released buffer", floor=floor)
    fs = [f for f in fb.lib_funcs() if f["cls"] and f["cls"].startswith("ForthOutputBufferOf")]
    for f in fs:
        flat = []

        def walk(ss):
            for s in ss:
                flat.append(s)
                for b in cs.sub_blocks(s):
                    walk(b)
        walk(f["body"])
        rs = [i for i, s in enumerate(flat) if s[0] not in ("if", "for", "while") and find_all((s,), lambda n: n[0] == "mcall" and n[1] == "maybe_resize")]
        if not rs or f["name"] == "maybe_resize":
            continue
        first = rs[0]
        key = "%s::%s(%s)" % (f["cls"], f["name"], ",".join(t for _, t in f["params"]))
        bad = [s for s in flat[:first] if s[0] == "decl" and "*" in (s[2] or "") and s[3] is not None and find_all((s[3],), lambda n: n == ("member", ("this",), "ptr_"))]
        r.check(not bad, key, "%s:%d" % (f["file"], f["line"]), "%s takes a pointer into ptr_ ('%s') before calling maybe_resize" % (f["qual"], bad[0][1] if bad else ""), detail="no alias of ptr_ before maybe_resize")
    return r.done()


# ------------------------------------------------------------------------------------------------
# R-d  index domains: a loop variable bounded by X.size() subscripts X (or a vector tabled/proved parallel), not its namesake

def rule_index_domain(rep, fb, floor=3):
    r = rep.rule("ORIGIN.index-domain", "a loop variable bounded by the size of the local vector X (being accumulated in the method) does not subscript the data member X_ of the same stem, and vice versa "
                 "(e.g. contents vs contents_ in UnionArray::simplify_uniontype: the accumulated list is shorter and shifted)", floor=floor)
    n = 0
    for f in fb.lib_funcs():
        if not f["cls"]:
            continue
        for lp in find_all(f["body"], lambda k: k[0] == "for" and isinstance(k[-1], int)):
            c = cexpr(lp[1])
            if not (c[0] == "bin" and c[1] == "<" and c[2][0] == "var" and c[3][0] == "mcall" and c[3][1] == "size"):
                continue
            v = c[2][1]
            dom = c[3][2]
            if dom[0] == "var":
                dname, other = dom[1], ("member", ("this",), dom[1] + "_")
            elif dom[0] == "member" and dom[1] == ("this",) and dom[2].endswith("_"):
                dname, other = dom[2], ("var", dom[2][:-1])
            else:
                continue
            # only when both the local and the member of the same stem exist in this method
            lname = dname.rstrip("_")
            has_local = bool(find_all(f["body"], lambda k: k[0] == "decl" and len(k) == 5 and k[1] == lname))
            accumulated = bool(find_all(f["body"], lambda k: k[0] == "mcall" and k[1] in ("push_back", "emplace_back") and k[3] == ("var", lname)))
            if not (has_local and accumulated):
                continue
            # the two are explicitly checked to have the same size: parallel vectors
            if find_all(f["body"], lambda k: k[0] == "bin" and k[1] in ("==", "!=") and "'size'" in repr(k) and repr(("var", lname)) in repr(k) and repr(("member", ("this",), lname + "_")) in repr(k)):
                continue
            n += 1
            uses = find_all(lp[2], lambda k: k[0] == "idx" and cexpr(k[1]) == cexpr(other) and cexpr(k[2]) == ("var", v))
            key = "%s::%s:for(%s<%s.size())" % (f["cls"], f["name"], v, unparse(dom)[:20])
            r.check(not uses, key, "%s:%d" % (f["file"], lp[-1]), "%s::%s: loop variable '%s' ranges over %s but subscripts %s" % (f["cls"], f["name"], v, unparse(dom), unparse(cexpr(other))),
                    detail="'%s' subscripts only %s" % (v, unparse(dom)))
    r.count("loops", n)
    return r.done()


# ------------------------------------------------------------------------------------------------
# R-e  named records are matched by name

def rule_record_by_name(rep, fb, floor=1):
    r = rep.rule("RECORD.by-name", "in RecordArray methods, on the branch for records with named fields (not tuples), the fields of ANOTHER record array are looked up by key (field(key(i)) / field(name)), "
                 "never by position: records with the same set of names in a different order are the same type", floor=floor)
    n = 0
    for f in fb.lib_funcs():
        if f["cls"] != "RecordArray":
            continue

        def visit(stmts, named, othervars, f=f):
            nonlocal n
            for s in stmts:
                if s[0] == "if":
                    c = s[1]
                    ov = set(othervars)
                    if c[0] == "declcond" and "RecordArray" in (c[2] or ""):
                        ov.add(c[1])
                        visit(s[2], named, ov)
                        visit(s[3], named, othervars)
                        continue
                    cc = cexpr(c) if c[0] != "declcond" else None
                    ist = cc is not None and cc[0] == "mcall" and cc[1] == "istuple" and cc[2] == ("this",)
                    nist = cc is not None and cc[0] == "un" and cc[1] == "!" and cc[2][0] == "mcall" and cc[2][1] == "istuple" and cc[2][2] == ("this",)
                    visit(s[2], named or nist, othervars)
                    visit(s[3], named or ist, othervars)
                    continue
                if named and othervars:
                    for m in find_all((s,) if s[0] not in cs.NEST else tuple(cs.head_exprs(s)), lambda k: k[0] == "mcall" and k[1] in ("field", "content", "contents") and cexpr(k[3]) in [("var", o) for o in othervars]):
                        n += 1
                        byname = m[1] == "field" and m[4] and (find_all((m[4][0],), lambda q: q[0] == "mcall" and q[1] == "key") or (m[4][0][0] == "var" and "key" in m[4][0][1].lower()) or m[4][0][0] == "const" and isinstance(m[4][0][1], str))
                        r.check(bool(byname), "RecordArray::%s#%d" % (f["name"], n), "%s:%d" % (f["file"], m[-1]),
                                "RecordArray::%s reads a field of another named record by position (%s) instead of by key" % (f["name"], unparse(cexpr(m))[:60]), detail="field(key(i))")
                for b in cs.sub_blocks(s):
                    visit(b, named, othervars)
        visit(f["body"], False, set())
    return r.done()


# ------------------------------------------------------------------------------------------------
# R-f  caller-supplied offsets are paired with unshuffled content only after the validating kernel

def rule_broadcast_validated(rep, fb, floor=1):
    r = rep.rule("ORIGIN.broadcast-validated", "RegularArray::broadcast_tooffsets64 pairs the caller's offsets with its own unshuffled content_ only after RegularArray_broadcast_tooffsets_64 has verified that every "
                 "target list has exactly size_ items (otherwise the content must be carried)", floor=floor)
    fs = [f for f in fb.lib_funcs() if f["qual"] == "RegularArray::broadcast_tooffsets64"]
    if not fs:
        raise AnalysisError("RegularArray::broadcast_tooffsets64 not found")
    f = fs[0]
    n = 0

    def onblock(stmts, cont):
        nonlocal n
        for i, s in enumerate(stmts):
            for node in find_all(tuple(cs.head_exprs(s)), lambda k: k[0] in ("make", "ctor") and len(k) >= 3 and "ListOffsetArray" in str(k[1]) and len(k[2]) >= 4):
                if not any(a == ("member", ("this",), "content_") for a in node[2]):
                    continue
                if not any(a == ("var", "offsets") for a in node[2]):
                    continue
                n += 1
                validated = False
                for blk, idx in [(stmts, i)] + [(pb, pi) for pb, pi, pk in cont]:
                    if find_all(tuple(blk[:idx]), lambda k: k[0] == "call" and k[1][0] == "fn" and (k[1][1] or "").endswith("RegularArray_broadcast_tooffsets_64")):
                        validated = True
                r.check(validated, "RegularArray::broadcast_tooffsets64#%d" % n, "%s:%d" % (f["file"], node[-1] if isinstance(node[-1], int) else f["line"]),
                        "RegularArray::broadcast_tooffsets64 returns the caller's offsets around content_ itself on a path that has not run the validating kernel RegularArray_broadcast_tooffsets_64", detail="validated before reuse of content_")
    cs.each_block_cont(f["body"], onblock)
    return r.done()


# ------------------------------------------------------------------------------------------------
# R-g  option encodings agree on when shifts are produced

def _conjuncts(e, canon=False):
    if not canon:
        e = cexpr(e)
    if e[0] == "bin" and e[1] == "&&":
        return _conjuncts(e[2], True) | _conjuncts(e[3], True)
    return {unparse(e)}


def rule_option_shifts(rep, fb, floor=2):
    r = rep.rule("CLONE.option-shifts", "the option encodings agree on when reduce_next/argsort_next produce shifts: IndexedArray's `make_shifts` is ByteMaskedArray's condition "
                 "(returns_positions, not branching, negaxis at this depth) plus isoption() and nothing else (e.g. not 'numnull > 0': shifts handed down from the enclosing list must be kept even when nothing is missing here)", floor=floor)
    by = {}
    for f in fb.lib_funcs():
        if f["name"] in ("reduce_next", "argsort_next") and f["cls"] in ("IndexedArrayOf", "ByteMaskedArray"):
            for d in find_all(f["body"], lambda k: k[0] == "decl" and len(k) == 5 and k[1] == "make_shifts" and k[3] is not None):
                by[(f["cls"], f["name"])] = (_conjuncts(d[3]), f)
    ref = by.get(("ByteMaskedArray", "reduce_next"))
    if ref is None:
        raise AnalysisError("ByteMaskedArray::reduce_next make_shifts not found")
    for (cls, name), (cj, f) in sorted(by.items()):
        if cls != "IndexedArrayOf":
            continue
        want = set(ref[0])
        if name == "argsort_next":
            want = {c for c in want if "returns_positions" not in c}   # argsort always returns positions
        got = {c for c in cj if "isoption" not in c}
        r.check(got == want and any("isoption" in c for c in cj), "%s::%s:make_shifts" % (cls, name), "%s:%d" % (f["file"], f["line"]),
                "%s::%s computes make_shifts from %s; the byte-masked encoding uses %s (+ isoption())" % (cls, name, sorted(cj), sorted(want)), detail="same conjuncts + isoption()")
    return r.done()
