"""Reusable kernel-level rules (A KSPEC, B.1 wrappers) with a kernel selector, used by C13 (all kernels) and by the
properties whose behaviour is computed by a family of kernels."""
import re
from . import kspec
from ..facts import find_all

CANON = {"long": "int64_t", "int": "int32_t", "unsigned int": "uint32_t", "signed char": "int8_t", "unsigned char": "uint8_t",
         "short": "int16_t", "unsigned short": "uint16_t", "unsigned long": "uint64_t", "long long": "int64_t",
         "unsigned long long": "uint64_t", "_Bool": "bool"}


def canon_type(t):
    t = t.replace("struct ", "").strip()
    const = "const" in t.split()
    t2 = " ".join(w for w in t.replace("*", " * ").split() if w != "const")
    base = t2.replace("*", "").strip()
    stars = t2.count("*")
    base = CANON.get(base, base)
    return ("const " if const else "") + base + (" " + "*" * stars if stars else "")


def helpers_of(fb, f):
    tu = [t for t in fb.kernel_tus().values() if t["path"] == f["file"]][0]
    return {g["name"]: (tuple(p[0] for p in g["params"]), g["body"]) for g in tu["funcs"] if not g["inst"] and g["name"] != f["name"]}


def spec_nf(k):
    ir = k["ir"]
    pp, pb = ir["functions"][ir["main"]]
    ph = {n: v for n, v in ir["functions"].items() if n != ir["main"]}
    return pp, kspec.normal_form(pp, pb, ph)


def forwarding_target(w):
    b = w["body"]
    if len(b) == 1 and b[0][0] == "return" and b[0][1] and b[0][1][0] == "call" and b[0][1][1][0] == "fn":
        fn = b[0][1][1]
        return fn[1], (fn[2] if len(fn) > 2 else ()), b[0][1][2]
    return None


def implementation_of(fb, k):
    f = fb.kernel_pattern(k["name"])
    if f is not None:
        return f
    for sp in k["specializations"]:
        w = fb.kernel_pattern(sp["name"])
        if w is None:
            continue
        tgt = forwarding_target(w)
        if tgt is not None:
            g = fb.kernel_pattern(tgt[0])
            if g is not None:
                return g
        return w
    return None


def rule_kspec(rep, fb, tier, select=None, floor=1, name="KSPEC.equal"):
    """select: predicate on spec kernel name (None = all)"""
    spec = fb.spec()
    kf = fb.kernel_functions()
    r = rep.rule(name, "C++ kernel body and its Python definition in kernel-specification.yml lower to the same normal form", floor=floor)
    undefined = []
    programs = 0
    for k in spec:
        if select is not None and not select(k["name"]):
            continue
        if k["placeholder"]:
            undefined.append(k["name"])
            continue
        ir = k["ir"]
        key = k["name"]
        if ir is None or "error" in ir:
            r.fail(key, "kernel-specification.yml:" + key, "the Python definition cannot be parsed: %s" % (ir or {}).get("error"))
            continue
        if ir["unknown"]:
            r.fail(key, "kernel-specification.yml:" + key, "definition uses constructs outside the kernel subset: %s" % ir["unknown"])
            continue
        f = implementation_of(fb, k)
        if f is None:
            r.fail(key, "src/cpu-kernels", "no C++ function implements specified kernel %s" % key)
            continue
        programs += 1
        cp = tuple(p[0] for p in f["params"])
        a = kspec.normal_form(cp, f["body"], helpers_of(fb, f))
        pp, b = spec_nf(k)
        where = "%s:%d" % (f["file"], f["line"])
        if len(cp) != len(pp):
            r.fail(key, where, "parameter count differs: C++ %d %s vs definition %d %s" % (len(cp), cp, len(pp), pp))
            continue
        r.check(a == b, key, where, "kernel differs from its definition at %s" % kspec.first_diff(a, b),
                detail="normal forms identical (%d top-level statements)" % len(a),
                extra={"cxx": kspec.unparse(a)[:2000], "spec": kspec.unparse(b)[:2000]})
        if tier == "thorough":
            for g in kf.get(f["name"], []):
                if not g["inst"] or g["file"] != f["file"]:
                    continue
                programs += 1
                ai = kspec.normal_form(tuple(p[0] for p in g["params"]), g["body"], helpers_of(fb, f))
                r.check(ai == b, key + "<" + ",".join(g["ftargs"] or ()) + ">", where,
                        "instantiation %s differs from the definition at %s" % (g["ftargs"], kspec.first_diff(ai, b)))
    r.count("kernels_compared", programs)
    r.count("kernels_without_definition", len(undefined))
    r.done()
    return r, programs, undefined


def rule_wrappers(rep, fb, select=None, floor=1):
    from ..spec import spec_ctype
    spec = fb.spec()
    rB = rep.rule("KSIB.wrapper", "each specialisation forwards its own parameters, in order, to the kernel's one template (all index widths / dtypes share one algorithm)", floor=floor)
    rS = rep.rule("KSIG.definition", "parameter names and C types of each specialisation's definition equal the args in kernel-specification.yml (so the extern \"C\" symbol the library calls is this function)", floor=floor)
    specnames = set()
    for k in spec:
        for sp in k["specializations"]:
            specnames.add(sp["name"])
        if select is not None and not select(k["name"]):
            continue
        impl = implementation_of(fb, k)
        targets = set()
        for sp in k["specializations"]:
            key = sp["name"]
            w = fb.kernel_pattern(sp["name"])
            if w is None:
                rB.fail(key, "src/cpu-kernels", "specialisation %s has no C++ definition" % key)
                continue
            where = "%s:%d" % (w["file"], w["line"])
            want = [(a["name"], canon_type(spec_ctype(a["type"]))) for a in sp["args"]]
            got = [(n, canon_type(t)) for n, t in w["params"]]
            rS.check(want == got, key, where, "definition parameters %s differ from specification args %s" % (got, want),
                     detail="%d parameters agree in name and type" % len(got))
            if impl is not None and impl["name"] == w["name"]:
                rB.ok(key, "is itself the implementation (no template)")
                continue
            ft = forwarding_target(w)
            if ft is None:
                if not k["placeholder"] and k["ir"] and "error" not in k["ir"]:
                    a = kspec.normal_form(tuple(p[0] for p in w["params"]), w["body"], helpers_of(fb, w))
                    pp, b = spec_nf(k)
                    rB.check(a == b, key, where, "specialisation has its own body, which differs from the definition at %s" % kspec.first_diff(a, b))
                else:
                    rB.excepted(key, "own body, kernel has no definition: not comparable")
                continue
            tgt, targs, args = ft
            targets.add(tgt)
            pnames = tuple(("var", p[0]) for p in w["params"])
            rB.check(tuple(args) == pnames, key, where, "wrapper does not forward its parameters positionally: passes %s for parameters %s" % (
                [kspec.unparse(kspec.cexpr(a)) for a in args], [p[0] for p in w["params"]]),
                detail="forwards %d parameters in order to %s<%s>" % (len(args), tgt, ",".join(targs)))
        if len(targets) > 1:
            rB.fail(k["name"] + ":one-template", "src/cpu-kernels", "specialisations of %s forward to different templates %s" % (k["name"], sorted(targets)))
        elif targets and impl is not None and impl["name"] not in targets:
            rB.fail(k["name"] + ":impl", "src/cpu-kernels", "specialisations forward to %s but the kernel is implemented by %s" % (sorted(targets), impl["name"]))
    rB.done()
    rS.done()
    return specnames


def rule_kernel_siblings(rep, fb, floor=1):
    """B.4: kernels without a Python definition are compared with a declared sibling after abstracting the declared locals"""
    import json, os
    from ..core import VERIF
    r = rep.rule("KSIB.undefined-siblings", "a kernel that has no Python definition agrees with its declared sibling kernel statement by statement once the declared differing locals are abstracted "
                 "(e.g. ListArray_combinations vs RegularArray_combinations: only where list i starts and stops may differ)", floor=floor)
    pairs = json.load(open(os.path.join(VERIF, "tables", "kernel_siblings.json")))
    for pr in pairs:
        fa, fbk = fb.kernel_pattern(pr["a"]), fb.kernel_pattern(pr["b"])
        key = "%s~%s" % (pr["a"], pr["b"])
        if fa is None or fbk is None:
            r.fail(key, "src/cpu-kernels", "sibling kernel %s or %s not found" % (pr["a"], pr["b"]))
            continue
        absl = set(pr["abstract_locals"])

        def nf(f):
            body = kspec.cstmts(f["body"])
            body = kspec._strip_trailing_return(body)

            def drop(stmts):
                out = []
                for s in stmts:
                    if s[0] == "assign" and s[1][0] == "var" and s[1][1] in absl:
                        continue
                    if s[0] == "if":
                        s = ("if", s[1], drop(s[2]), drop(s[3]))
                    elif s[0] in ("while", "dowhile"):
                        s = (s[0], s[1], drop(s[2]))
                    out.append(s)
                return tuple(out)
            return drop(body)
        a, b = nf(fa), nf(fbk)
        r.check(a == b, key, "%s:%d" % (fa["file"], fa["line"]), "%s and its sibling %s differ beyond %s: %s" % (pr["a"], pr["b"], sorted(absl), kspec.first_diff(a, b)), detail=pr["reason"][:80])
    return r.done()
