"""Rules over the pybind11 layer (src/python/*.cpp), parsed against the declaration-only stub in /verif/stubs/pybind11.

The binding layer is where Python values become C++ values: it is compiled code that the pinned test-suite never executes
(/venv holds another awkward) and that this sandbox cannot even build (no pybind11 headers).  The stub makes clang's front
end accept it, so the same IR the libawkward rules read is available for it; most of its code sits in lambdas handed to
`.def(...)`, which are lifted here into pseudo-functions."""
import re
from ..facts import find_all
from ..core import AnalysisError

_EXC = re.compile(r"(invalid_argument|runtime_error|out_of_range|logic_error|domain_error|length_error|range_error|overflow_error|bad_alloc|exception|cast_error|type_error|value_error|index_error|key_error|stop_iteration)$")


def lifted(fb, with_lib=False):
    """binding functions plus every lambda inside them as a pseudo-function (same file/line bookkeeping)"""
    out = []
    base = list(fb.binding_funcs())
    if with_lib:
        base += list(fb.lib_funcs(inst=False))
    for f in base:
        out.append(f)
        for i, lam in enumerate(find_all(f["body"], lambda n: n[0] == "lambda")):
            g = dict(f)
            g["name"] = "%s::<lambda#%d>" % (f["name"], i + 1)
            g["qual"] = "%s::<lambda#%d>" % (f["qual"], i + 1)
            g["body"] = lam[2]
            g["lambda_params"] = lam[1]
            g["is_lambda"] = True
            out.append(g)
    return out


def _stmts(block):
    """every statement tuple reachable in a block, nested blocks included"""
    for s in block:
        if not (isinstance(s, tuple) and s and isinstance(s[0], str)):
            continue
        yield s
        k = s[0]
        subs = []
        if k == "if":
            subs = [s[2], s[3]] if len(s) > 3 else [s[2]]
        elif k in ("for", "while", "dowhile", "foreach"):
            subs = [x for x in s[1:] if isinstance(x, tuple) and x and isinstance(x[0], tuple)]
        elif k == "try":
            subs = [x for x in s[1:] if isinstance(x, tuple)]
        elif k == "switch":
            subs = [c[1] for c in s[2] if isinstance(c, tuple) and len(c) > 1]
        for b in subs:
            if isinstance(b, tuple):
                for t in _stmts(b):
                    yield t


def rule_exception_unthrown(rep, fb, floor=300, name="DEAD.exception-unthrown"):
    r = rep.rule(name, "in libawkward and in the pybind11 layer an exception object is never constructed as a statement of its own (`std::invalid_argument(...);` without `throw`): "
                 "the temporary is destroyed at once, the error path falls through, and whatever the message was guarding against happens (an uninitialised dtype in the CUDA array interface import)", floor=floor)
    nthrow = 0
    seen = set()
    for f in lifted(fb, with_lib=True):
        if f.get("is_lambda"):
            continue    # the enclosing function's walk already reaches lambda bodies through find_all below
        for t in find_all(f["body"], lambda n: n[0] == "throw"):
            nthrow += 1
        k = 0
        for e in find_all(f["body"], lambda n: n[0] == "expr" and len(n) > 1 and isinstance(n[1], tuple) and n[1] and n[1][0] in ("ctor", "make") and _EXC.search(str(n[1][1]))):
            key = (f["file"], e[-1] if isinstance(e[-1], int) else f["line"])
            if key in seen:
                continue
            seen.add(key)
            k += 1
            r.fail("%s#unthrown%d" % (f["qual"], k), "%s:%d" % key, "%s constructs a %s and discards it: `throw` is missing, so the error case continues as if nothing had happened" % (f["qual"], e[1][1]))
    r.count("throw_statements", nthrow)
    for i in range(0, nthrow, 25):
        r.ok("throws#%d" % i, "25 throw statements carry their exception")
    return r.done()


def rule_pointer_export(rep, fb, floor=6, name="NUMPY.ptr-byteoffset:binding"):
    r = rep.rule(name, "a binding that hands the raw buffer pointer of an Index, Identities or NumpyArray to Python (`self.ptr().get()` in a buffer_info, a CuPy MemoryPointer or a DLPack tensor) accounts for the view's offset in the same lambda "
                 "(offset() for Index/Identities, byteoffset() for NumpyArray) or uses data(): a sliced array does not start at the beginning of its buffer", floor=floor)
    for f in lifted(fb):
        if not f.get("is_lambda") or not f["file"].startswith("src/python/"):
            continue
        # the front end renders `x.ptr().get()` as ('deref', ('mcall', 'ptr', ..., x, ...))
        raws = find_all(f["body"], lambda n: n[0] == "deref" and isinstance(n[1], tuple) and n[1][:2] == ("mcall", "ptr"))
        if not raws:
            continue
        owner = raws[0][1][3]
        offs = find_all(f["body"], lambda n: n[0] == "mcall" and n[1] in ("offset", "byteoffset", "data") and n[3] == owner)
        # device_context_dispatch(ptr_lib, ptr) only asks which device the memory is on: exempt when that is the only use
        only_ctx = all(find_all(f["body"], lambda n, x=x: n[0] == "call" and "device_context_dispatch" in str(n[1]) and find_all((n,), lambda k: k is x)) for x in raws)
        key = "%s@%d" % (f["qual"], f["line"])
        if only_ctx:
            r.ok(key, "pointer only used to identify the device")
            continue
        is_prop = bool(find_all(f["body"], lambda n: n[0] == "return" and len(n) > 1 and find_all((n[1],), lambda k: k[0] in ("cast",) and find_all((k,), lambda q: q is raws[0]))) and len(f["body"]) == 1)
        if is_prop and not offs:
            r.ok(key, "property that reports the base pointer itself")
            continue
        r.check(bool(offs), key, "%s:%d" % (f["file"], raws[0][-1] if isinstance(raws[0][-1], int) else f["line"]),
                "%s exports %s.ptr().get() without %s.offset()/byteoffset(): a sliced array is exported from the start of its buffer" % (f["qual"], str(owner)[:20], str(owner)[:20]), detail="offset accounted for")
    return r.done()


def _norm(s):
    return re.sub(r"[^a-z0-9]", "", str(s).lower())


def rule_pickle_state(rep, fb, floor=60, name="PAIR.pickle-state"):
    r = rep.rule(name, "for every py::pickle(getstate, setstate) of the binding layer: element i of the tuple that getstate returns is an accessor of the object (self.has_identities(), self.parameters(), ...), and setstate passes state[i] "
                 "to the constructor parameter of the same name; every element of the state is consumed - swapped positions or a dropped element survive type checking whenever the neighbours have the same type "
                 "(two bools, two int64s, two strings) and change the object on a pickle round trip", floor=floor)
    classes = fb.classes()
    npick = 0
    for f in fb.binding_funcs():
        for pc in find_all(f["body"], lambda n: n[0] == "call" and n[1][0] == "fn" and str(n[1][1]).split("::")[-1] == "pickle" and len(n[2]) == 2 and all(a[0] == "lambda" for a in n[2])):
            get, st = pc[2]
            rets = find_all(get[2], lambda n: n[0] == "call" and n[1][0] == "fn" and str(n[1][1]).split("::")[-1] == "make_tuple")
            ctors = find_all(st[2], lambda n: n[0] in ("ctor", "make") and len(n) > 2 and isinstance(n[2], tuple) and len(n[2]) >= 2 and n[1] not in ("string", "py::tuple"))
            if not rets or not ctors:
                continue
            npick += 1
            elems = rets[0][2]
            sname = st[1][0] if st[1] else "state"
            accessor = []
            for e in elems:
                ms = find_all((e,), lambda n: n[0] == "mcall" and isinstance(n[3], tuple) and (n[3] == ("var", get[1][0] if get[1] else "self") or (n[3][0] == "deref" and n[3][1] == ("var", get[1][0] if get[1] else "self")) or (n[3][0] == "mcall" and n[3][1] == "get")))
                accessor.append(ms[-1][1] if ms else None)
            # locals of setstate bound to state[i]
            loc = {}
            for d in find_all(st[2], lambda n: n[0] == "decl" and n[3] is not None):
                ix = find_all((d[3],), lambda n: n[0] == "idx" and n[1] == ("var", sname) and n[2][0] == "const")
                if ix:
                    loc[d[1]] = ix[0][2][1]
            ctor = max(ctors, key=lambda c: len(c[2]))
            cname = str(ctor[1]).split("::")[-1].split("<")[0]
            cands = [m for m in (classes.get(cname) or {}).get("methods", ()) if m[0] == cname and len(m[4]) == len(ctor[2])]
            pnames = cands[0][4] if cands else None
            used = set()
            where = "%s:%d" % (f["file"], pc[-1] if isinstance(pc[-1], int) else f["line"])
            for j, a in enumerate(ctor[2]):
                ix = [n[2][1] for n in find_all((a,), lambda n: n[0] == "idx" and n[1] == ("var", sname) and n[2][0] == "const")]
                ix += [loc[v[1]] for v in find_all((a,), lambda n: n[0] == "var" and n[1] in loc)]
                used.update(ix)
                if not ix or pnames is None or len(set(ix)) > 1:
                    continue      # a parameter computed from several elements (format_to_dtype(format, itemsize)) has no single source
                i = ix[0]
                acc = accessor[i] if i < len(accessor) else None
                if acc is None:
                    continue
                p = pnames[j]
                ok = _norm(acc) == _norm(p) or _norm(acc) in _norm(p) or _norm(p) in _norm(acc) or (_norm(acc), _norm(p)) in (("recordlookup", "keys"), ("istuple", "recordlookup"), ("types", "contents"), ("type", "content"), ("typestr", "typestr"))
                r.check(ok, "%s:%s#state[%d]->%s" % (f["qual"], cname, i, p), where, "%s: getstate stores %s() at position %d, but setstate passes state[%d] as the constructor parameter `%s` of %s" % (f["qual"], acc, i, i, p, cname), detail="%s() -> %s" % (acc, p))
            for d in find_all(st[2], lambda n: n[0] == "idx" and n[1] == ("var", sname) and n[2][0] == "const"):
                used.add(d[2][1])
            missing = [i for i in range(len(elems)) if i not in used]
            r.check(not missing, "%s:%s#state-consumed" % (f["qual"], cname), where, "%s: setstate of %s never reads state%s, which getstate stores (%s)" % (f["qual"], cname, missing, [accessor[i] for i in missing]), detail="all %d elements consumed" % len(elems))
    if npick < 15:
        raise AnalysisError("only %d py::pickle pairs recognised in src/python (anchor moved?)" % npick)
    return r.done()


_NARROW_TABLE = {
    "NumpyArray_from_cuda_array_interface": "stoi of the one- or two-digit item size in a typestr such as '<i8'",
    "Index_from_cuda_array_interface": "stoi of the one- or two-digit item size in a typestr such as '<i8'",
    "make_NumpyArray": "ndim of an array for DLPack's 32-bit field (an array with 2^31 dimensions cannot exist)",
}


def rule_binding_narrowing(rep, fb, floor=3, name="WIDTH.implicit-narrowing:binding"):
    r = rep.rule(name, "no value that arrives from Python is implicitly narrowed in the binding layer (an int64_t parameter passed on as int8_t, a ssize_t as int): pybind11 range-checks a parameter only against the type the lambda declares, "
                 "so a silent narrowing afterwards wraps instead of raising; tabled: conversions of values that are small by construction", floor=floor)
    n = 0
    for f in fb.binding_funcs():
        for w in find_all(f["body"], lambda k: k[0] == "narrow"):
            n += 1
            key = "%s#narrow%d" % (f["qual"], n)
            if f["name"] in _NARROW_TABLE:
                r.excepted(key, _NARROW_TABLE[f["name"]])
                r.ok(key)
                continue
            r.fail(key, "%s:%d" % (f["file"], f["line"]), "%s narrows `%s` implicitly (%s bits) to %s" % (f["qual"], str(cs_root(w[3]))[:30], w[1], w[2]))
    r.count("binding_functions", len(fb.binding_funcs()))
    r.ok("scan", "%d binding functions scanned" % len(fb.binding_funcs()))
    return r.done()


def cs_root(e):
    from . import callsites as cs
    return cs.root_ident(e) or e


_NP_TOWER = {
    "generic": {"number", "integer", "signedinteger", "unsignedinteger", "inexact", "floating", "complexfloating", "bool_", "datetime64", "timedelta64", "str_", "bytes_", "flexible", "character", "void", "object_"},
    "number": {"integer", "signedinteger", "unsignedinteger", "inexact", "floating", "complexfloating", "timedelta64"},
    "integer": {"signedinteger", "unsignedinteger", "timedelta64", "int8", "int16", "int32", "int64", "uint8", "uint16", "uint32", "uint64", "intc", "longlong"},
    "signedinteger": {"timedelta64", "int8", "int16", "int32", "int64"},
    "unsignedinteger": {"uint8", "uint16", "uint32", "uint64"},
    "inexact": {"floating", "complexfloating", "float16", "float32", "float64", "complex64", "complex128"},
    "floating": {"float16", "float32", "float64", "longdouble", "float128"},
    "complexfloating": {"complex64", "complex128", "complex256", "clongdouble"},
    "flexible": {"str_", "bytes_", "void", "character"},
}


def _if_chain(s):
    out = []
    while s is not None and s[0] == "if":
        out.append(s)
        els = s[3] if len(s) > 3 and isinstance(s[3], tuple) else ()
        s = els[0] if len(els) == 1 and isinstance(els[0], tuple) and els[0] and els[0][0] == "if" else None
    return out


def rule_binding_isinstance_order(rep, fb, floor=10, name="DEAD.isinstance-shadow:binding"):
    r = rep.rule(name, "in an if / else-if chain of the binding layer that dispatches on the NumPy scalar class of a Python object (py::isinstance(obj, numpy.attr(\"X\"))), no class tested in a later arm is a subclass of a class "
                 "tested alone in an earlier arm (NumPy's scalar hierarchy: timedelta64 < signedinteger < integer < number < generic, float64 < floating, ...): the later arm would be dead and the value handled as the coarser kind", floor=floor)
    n = 0
    for f in lifted(fb):
        heads = [s for s in find_all(f["body"], lambda k: k[0] == "if") if True]
        seen = set()
        for h in heads:
            if id(h) in seen:
                continue
            chain = _if_chain(h)
            for c in chain:
                seen.add(id(c))
            if len(chain) < 3:
                continue
            earlier = []
            for c in chain:
                names = []
                for call in find_all((c[1],), lambda k: k[0] == "call" and k[1][0] == "fn" and str(k[1][1]).split("::")[-1] == "isinstance"):
                    for a in find_all(tuple(call[2]), lambda k: k[0] == "mcall" and k[1] == "attr" and k[4] and k[4][0][0] == "const" and isinstance(k[4][0][1], str)):
                        if find_all((a[3],), lambda k: k[0] == "const" and k[1] == "numpy"):
                            names.append(a[4][0][1])
                if not names:
                    continue
                n += 1
                dead = [(x, e) for x in names for e in earlier if x == e or x in _NP_TOWER.get(e, ())]
                r.check(not dead, "%s#arm%d:%s" % (f["qual"], n, ",".join(names)), "%s:%d" % (f["file"], c[-1] if isinstance(c[-1], int) else f["line"]),
                        "%s tests numpy.%s after an earlier arm already took numpy.%s, its base class: the arm is dead and such values are handled as %s" % (f["qual"], dead[0][0] if dead else "", dead[0][1] if dead else "", dead[0][1] if dead else ""), detail="not shadowed")
                only = len(find_all((c[1],), lambda k: k[0] == "bin" and k[1] in ("&&",))) == 0
                if only and len(names) == 1:
                    earlier.append(names[0])
    return r.done()


def rule_pointer_units(rep, fb, floor=3, name="UNIT.ptr-offset-bytes:binding"):
    r = rep.rule(name, "when a binding turns a buffer pointer into an integer (reinterpret_cast<ssize_t/size_t/int64_t>(x.ptr().get())) and adds the view's offset to it, the offset is scaled to bytes in that sum "
                 "(offset() * sizeof(T) / itemsize; byteoffset() is already in bytes): integer arithmetic on an address counts bytes, not elements", floor=floor)
    n = 0
    for f in lifted(fb):
        if not f.get("is_lambda") and f["name"].startswith("make_"):
            continue
        for b in find_all(f["body"], lambda k: k[0] == "bin" and k[1] == "+"):
            sides = [b[2], b[3]]
            addr = [s for s in sides if s[0] == "cast" and s[1] == "reinterpret" and re.search(r"(ssize_t|size_t|int64_t|intptr_t|long)$", str(s[2])) and find_all((s,), lambda k: k[0] == "mcall" and k[1] == "ptr")]
            if len(addr) != 1:
                continue
            other = sides[1] if sides[0] is addr[0] else sides[0]
            offs = find_all((other,), lambda k: k[0] == "mcall" and k[1] == "offset")
            if not offs:
                continue
            n += 1
            scaled = other[0] == "bin" and other[1] == "*" and bool(find_all((other,), lambda k: k[0] == "sizeof" or (k[0] == "mcall" and k[1] == "itemsize")))
            r.check(scaled, "%s#addr+offset%d" % (f["qual"], n), "%s:%d" % (f["file"], f["line"]), "%s adds offset() to an address held as an integer without scaling it by the item size: the exported buffer starts offset bytes, not offset items, into the allocation" % f["qual"], detail="offset * sizeof")
    return r.done()


def rule_buffer_info_pair(rep, fb, floor=3, name="PAIR.buffer-info"):
    r = rep.rule(name, "in a binding function that holds several py::buffer_info objects (the caller's array and a converted copy of it), strides are read from the buffer_info whose ptr is used: "
                 "the copy made by numpy.asarray(..., int64) is contiguous in its own way, the original's strides and itemsize do not describe it", floor=floor)
    for f in lifted(fb):
        if f.get("is_lambda"):
            continue
        ptr_of, strides_of = set(), {}
        for mem in find_all(f["body"], lambda k: k[0] == "member" and k[2] in ("ptr", "strides") and isinstance(k[1], tuple) and k[1][0] == "var"):
            if mem[2] == "ptr":
                ptr_of.add(mem[1][1])
            else:
                strides_of.setdefault(mem[1][1], mem)
        if not strides_of:
            continue
        for v in sorted(strides_of):
            r.check(v in ptr_of, "%s:%s.strides" % (f["qual"], v), "%s:%d" % (f["file"], f["line"]), "%s reads %s.strides but never %s.ptr, while the buffer it wraps comes from %s.ptr: shape/strides and data belong to different arrays" % (f["qual"], v, v, sorted(ptr_of)), detail="strides and ptr of one buffer_info")
    return r.done()


def rule_def_arg_order(rep, fb, floor=10, name="TABLE.binding-arg-order"):
    r = rep.rule(name, "where a binding registers a C++ member function by pointer (`.def(\"name\", &T::name, py::arg(\"a\") = ..., py::arg(\"b\") = ...)`) the py::arg names are the C++ parameter names, in the C++ order: "
                 "pybind11 assigns py::args to parameters by position, so two swapped names with compatible types cross the meaning of every keyword call and of the defaults", floor=floor)
    classes = fb.classes()
    n = 0
    for f in fb.binding_funcs():
        for d in find_all(f["body"], lambda k: k[0] == "mcall" and k[1] in ("def", "def_static") and len(k[4]) >= 3 and k[4][0][0] == "const" and k[4][1][0] == "addr"):
            target = d[4][1][1]
            tname = str(target[1] if target[0] in ("trait", "fn", "var") else target).split("::")
            if len(tname) < 2:
                continue
            meth = tname[-1]
            clsname = tname[-2].replace("ak::", "")
            args = []
            for a in d[4][2:]:
                c = a[2] if a[0] == "assign" else a
                c = c[1] if a[0] == "assign" else c
                cc = a[1] if a[0] == "assign" else a
                if cc[0] == "ctor" and str(cc[1]).endswith("arg") and cc[2] and cc[2][0][0] == "const":
                    args.append(cc[2][0][1])
            if len(args) < 2:
                continue
            # candidate C++ signatures: a method of that name with as many parameters, in the named class or (for template T) any class
            cands = []
            for cn, c in classes.items():
                if clsname not in ("T",) and cn != clsname:
                    continue
                for mth in c.get("methods", ()):
                    if mth[0] == meth and len(mth[4]) == len(args):
                        cands.append((cn, mth[4]))
            if not cands:
                continue
            n += 1
            ok = any(tuple(_norm(p) for p in ps) == tuple(_norm(a) for a in args) for _, ps in cands)
            perm = any(sorted(_norm(p) for p in ps) == sorted(_norm(a) for a in args) for _, ps in cands)
            key = "%s:%s::%s#%d" % (f["qual"], clsname, meth, n)
            if not ok and not perm:
                r.ok(key, "python names differ from the C++ names (no permutation)")
                continue
            r.check(ok, key, "%s:%d" % (f["file"], d[-1] if isinstance(d[-1], int) else f["line"]), "%s registers %s::%s with py::args %s, but the C++ parameters are %s in that order" % (f["qual"], clsname, meth, args, list(cands[0][1])), detail="py::arg order = parameter order")
    return r.done()


def rule_stride_division(rep, fb, floor=3, name="UNIT.stride-division"):
    r = rep.rule(name, "byte strides (strides_[i], buffer_info.strides[i], self.strides()[i]) are divided by an item size only where the strides are known to be multiples of it: "
                 "in a function that first tests iscontiguous(), takes the buffer from numpy.ascontiguousarray / numpy.nonzero (fresh C-order arrays), or tests `stride % itemsize` and throws; "
                 "a truncated quotient addresses other bytes than the array's items", floor=floor)
    n = 0
    seen = set()
    for f in lifted(fb, with_lib=True):
        if f.get("is_lambda") is None and find_all(f["body"], lambda k: k[0] == "lambda"):
            # divisions inside lambdas are judged in the lifted lambda
            inner = set(id(d) for lam in find_all(f["body"], lambda k: k[0] == "lambda") for d in find_all(lam[2], lambda k: k[0] == "bin" and k[1] in ("/", "f/")))
        else:
            inner = set()
        for d in find_all(f["body"], lambda k: k[0] == "bin" and k[1] in ("/", "f/") and "strides" in repr(k[2]) and find_all((k[2],), lambda m: m[0] == "idx")):
            if id(d) in inner or id(d) in seen:
                continue
            seen.add(id(d))
            n += 1
            body = f["body"]
            contig = bool(find_all(body, lambda k: k[0] == "if" and find_all((k[1],), lambda m: m[0] == "mcall" and m[1] == "iscontiguous")))
            modguard = bool(find_all(body, lambda k: k[0] == "if" and find_all((k[1],), lambda m: m[0] == "bin" and m[1] == "%" and "stride" in repr(m[2])) and find_all(k[2], lambda m: m[0] == "throw")))
            # the buffer divided: info variable -> array variable -> producing numpy call
            src = None
            infos = [m[1][1] for m in find_all((d[2],), lambda m: m[0] == "member" and m[2] == "strides" and m[1][0] == "var")]
            fresh = False
            for iv in infos:
                for dd in find_all(body, lambda k: k[0] == "decl" and k[1] == iv and k[3] is not None):
                    arrs = [m[3][1] for m in find_all((dd[3],), lambda m: m[0] == "mcall" and m[1] == "request" and m[3][0] == "var")]
                    for av in arrs:
                        txt = repr([k[3] for k in find_all(body, lambda k: k[0] == "decl" and k[1] == av)])
                        objs = re.findall(r"\('var', '(\w+)'\)", txt)
                        alltxt = txt + repr([k[3] for k in find_all(body, lambda k: k[0] == "decl" and k[1] in objs)])
                        if "ascontiguousarray" in alltxt:
                            fresh = True
                        elif "'asarray'" in alltxt and "nonzero_tuple" in repr(body):
                            # numpy.asarray(x, int64) of an item of numpy.nonzero(...): nonzero returns fresh C-order int64 arrays
                            loops = find_all(body, lambda k: k[0] == "foreach" and "nonzero" in repr(k[3]) and find_all(k[4], lambda m: m is d))
                            fresh = fresh or bool(loops)
            ok = contig or modguard or fresh
            r.check(ok, "%s#%d" % (f["qual"], n), "%s:%d" % (f["file"], f["line"]),
                    "%s divides byte strides by an item size without knowing that they are multiples of it (no iscontiguous() test, no `%% itemsize` guard, buffer not from ascontiguousarray/nonzero)" % f["qual"],
                    detail="contiguous" if contig else ("stride % itemsize guarded" if modguard else "fresh C-order buffer"))
    return r.done()
