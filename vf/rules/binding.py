"""Rules over the pybind11 layer (src/python/*.cpp), parsed against the declaration-only stub in /verif/stubs/pybind11.

The binding layer is where Python values become C++ values: it is compiled code that the pinned test-suite never executes
(/venv holds another awkward) and that this sandbox cannot even build (no pybind11 headers).  The stub makes clang's front
end accept it, so the same IR the libawkward rules read is available for it; most of its code sits in lambdas handed to
`.def(...)`, which are lifted here into pseudo-functions."""
import re
from ..facts import find_all
from ..core import AnalysisError

_EXC = re.compile(r"(invalid_argument|runtime_error|out_of_range|logic_error|domain_error|length_error|range_error|overflow_error|bad_alloc|exception|cast_error|type_error|value_error|index_error|key_error|stop_iteration)$")


def lifted(fb, with_lib=False):
    """binding functions plus every lambda inside them as a pseudo-function (same file/line bookkeeping)"""
    out = []
    base = list(fb.binding_funcs())
    if with_lib:
        base += list(fb.lib_funcs(inst=False))
    for f in base:
        out.append(f)
        for i, lam in enumerate(find_all(f["body"], lambda n: n[0] == "lambda")):
            g = dict(f)
            g["name"] = "%s::<lambda#%d>" % (f["name"], i + 1)
            g["qual"] = "%s::<lambda#%d>" % (f["qual"], i + 1)
            g["body"] = lam[2]
            g["lambda_params"] = lam[1]
            g["is_lambda"] = True
            out.append(g)
    return out


def _stmts(block):
    """every statement tuple reachable in a block, nested blocks included"""
    for s in block:
        if not (isinstance(s, tuple) and s and isinstance(s[0], str)):
            continue
        yield s
        k = s[0]
        subs = []
        if k == "if":
            subs = [s[2], s[3]] if len(s) > 3 else [s[2]]
        elif k in ("for", "while", "dowhile", "foreach"):
            subs = [x for x in s[1:] if isinstance(x, tuple) and x and isinstance(x[0], tuple)]
        elif k == "try":
            subs = [x for x in s[1:] if isinstance(x, tuple)]
        elif k == "switch":
            subs = [c[1] for c in s[2] if isinstance(c, tuple) and len(c) > 1]
        for b in subs:
            if isinstance(b, tuple):
                for t in _stmts(b):
                    yield t


def rule_exception_unthrown(rep, fb, floor=300, name="DEAD.exception-unthrown"):
    r = rep.rule(name, "in libawkward and in the pybind11 layer an exception object is never constructed as a statement of its own (`std::invalid_argument(...);` without `throw`): "
                 "the temporary is destroyed at once, the error path falls through, and whatever the message was guarding against happens (an uninitialised dtype in the CUDA array interface import)", floor=floor)
    nthrow = 0
    seen = set()
    for f in lifted(fb, with_lib=True):
        if f.get("is_lambda"):
            continue    # the enclosing function's walk already reaches lambda bodies through find_all below
        for t in find_all(f["body"], lambda n: n[0] == "throw"):
            nthrow += 1
        k = 0
        for e in find_all(f["body"], lambda n: n[0] == "expr" and len(n) > 1 and isinstance(n[1], tuple) and n[1] and n[1][0] in ("ctor", "make") and _EXC.search(str(n[1][1]))):
            key = (f["file"], e[-1] if isinstance(e[-1], int) else f["line"])
            if key in seen:
                continue
            seen.add(key)
            k += 1
            r.fail("%s#unthrown%d" % (f["qual"], k), "%s:%d" % key, "%s constructs a %s and discards it: `throw` is missing, so the error case continues as if nothing had happened" % (f["qual"], e[1][1]))
    r.count("throw_statements", nthrow)
    for i in range(0, nthrow, 25):
        r.ok("throws#%d" % i, "25 throw statements carry their exception")
    return r.done()


def rule_pointer_export(rep, fb, floor=6, name="NUMPY.ptr-byteoffset:binding"):
    r = rep.rule(name, "a binding that hands the raw buffer pointer of an Index, Identities or NumpyArray to Python (`self.ptr().get()` in a buffer_info, a CuPy MemoryPointer or a DLPack tensor) accounts for the view's offset in the same lambda "
                 "(offset() for Index/Identities, byteoffset() for NumpyArray) or uses data(): a sliced array does not start at the beginning of its buffer", floor=floor)
    for f in lifted(fb):
        if not f.get("is_lambda") or not f["file"].startswith("src/python/"):
            continue
        # the front end renders `x.ptr().get()` as ('deref', ('mcall', 'ptr', ..., x, ...))
        raws = find_all(f["body"], lambda n: n[0] == "deref" and isinstance(n[1], tuple) and n[1][:2] == ("mcall", "ptr"))
        if not raws:
            continue
        owner = raws[0][1][3]
        offs = find_all(f["body"], lambda n: n[0] == "mcall" and n[1] in ("offset", "byteoffset", "data") and n[3] == owner)
        # device_context_dispatch(ptr_lib, ptr) only asks which device the memory is on: exempt when that is the only use
        only_ctx = all(find_all(f["body"], lambda n, x=x: n[0] == "call" and "device_context_dispatch" in str(n[1]) and find_all((n,), lambda k: k is x)) for x in raws)
        key = "%s@%d" % (f["qual"], f["line"])
        if only_ctx:
            r.ok(key, "pointer only used to identify the device")
            continue
        is_prop = bool(find_all(f["body"], lambda n: n[0] == "return" and len(n) > 1 and find_all((n[1],), lambda k: k[0] in ("cast",) and find_all((k,), lambda q: q is raws[0]))) and len(f["body"]) == 1)
        if is_prop and not offs:
            r.ok(key, "property that reports the base pointer itself")
            continue
        r.check(bool(offs), key, "%s:%d" % (f["file"], raws[0][-1] if isinstance(raws[0][-1], int) else f["line"]),
                "%s exports %s.ptr().get() without %s.offset()/byteoffset(): a sliced array is exported from the start of its buffer" % (f["qual"], str(owner)[:20], str(owner)[:20]), detail="offset accounted for")
    return r.done()
