"""C17 rules: Form <-> JSON writer/reader agreement, Array vs Form sibling queries, type() through form."""
from ..facts import find_all
from ..core import AnalysisError
from .kspec import cexpr, unparse

COMMON_KEYS = {"class", "has_identities", "parameters", "form_key"}


def _str_consts(x):
    return [n[1] for n in find_all((x,), lambda n: n[0] == "const" and isinstance(n[1], str))]


def writer_tables(fb):
    """Form class -> {'keys': set, 'classnames': set}"""
    out = {}
    for f in fb.lib_funcs():
        if f["name"] != "tojson_part" or not (f["cls"] or "").endswith("Form"):
            continue
        keys, names = set(), set()
        stmts = []

        def flat(ss):
            for s in ss:
                stmts.append(s)
                from .callsites import sub_blocks
                for b in sub_blocks(s):
                    flat(b)
        flat(f["body"])
        after_class = False
        for s in stmts:
            for c in find_all((s,), lambda n: n[0] == "mcall" and n[1] in ("field", "string") and n[3] == ("var", "builder")):
                if c[1] == "field":
                    ks = _str_consts(c[4])
                    if ks:
                        keys.add(ks[0])
                        after_class = ks[0] == "class"
                elif c[1] == "string" and after_class:
                    for k in _str_consts(c[4]):
                        names.add(k)
        out[f["cls"]] = {"keys": keys, "classnames": names, "func": f}
    return out


def reader_tables(fb):
    """class-name string -> {'keys': set, 'forms': set}"""
    fs = [f for f in fb.lib_funcs() if f["name"] == "fromjson_part" and f["file"].endswith("Content.cpp") and not f["cls"]]
    if not fs:
        fs = [f for f in fb.lib_funcs() if f["name"] == "fromjson_part" and f["file"].endswith("Content.cpp")]
    if not fs:
        raise AnalysisError("fromjson_part not found in Content.cpp")
    f = max(fs, key=lambda g: g["endline"] - g["line"])
    out = {}

    def visit(stmts):
        for s in stmts:
            if s[0] == "if" and s[1][0] != "declcond":
                names = []
                for c in find_all((s[1],), lambda n: n[0] == "bin" and n[1] == "==" and (n[2] == ("var", "cls") or n[3] == ("var", "cls"))):
                    names += _str_consts(c)
                if names:
                    keys = set()
                    for k in find_all(s[2], lambda n: (n[0] == "idx" and n[1] == ("var", "json")) or (n[0] == "mcall" and n[1] == "HasMember" and n[3] == ("var", "json"))):
                        for c in _str_consts(k):
                            keys.add(c)
                    forms = set()
                    for m in find_all(s[2], lambda n: n[0] == "make" and str(n[1]).endswith("Form")):
                        forms.add(str(m[1]).split("::")[-1])
                    for n_ in names:
                        e = out.setdefault(n_, {"keys": set(), "forms": set()})
                        e["keys"] |= keys
                        e["forms"] |= forms
                    continue
                visit(s[2])
                visit(s[3])
            else:
                from .callsites import sub_blocks
                for b in sub_blocks(s):
                    visit(b)
    visit(f["body"])
    return out, f


def rule_form_json(rep, fb, floor=30):
    r = rep.rule("TABLE.form-json", "for every Form class, each class name its tojson_part writes is accepted by a Form::fromjson branch that builds the same Form class, "
                 "and every key that branch reads is a key the writer emits (Form -> JSON -> Form keeps every constructor argument)", floor=floor)
    w = writer_tables(fb)
    rd, rf = reader_tables(fb)
    if len(w) < 12 or len(rd) < 20:
        raise AnalysisError("form JSON tables too small: %d writers, %d reader class names" % (len(w), len(rd)))
    for F, t in sorted(w.items()):
        where = "%s:%d" % (t["func"]["file"], t["func"]["line"])
        names = [n for n in t["classnames"] if not n.startswith("Unrecognized")]
        if F == "VirtualForm" and not names:
            names = ["VirtualArray"]
        if not r.check(bool(names), "writer-names:" + F, where, "%s::tojson_part writes no class name" % F):
            continue
        for n in sorted(names):
            e = rd.get(n)
            if not r.check(e is not None, "reader-accepts:%s:%s" % (F, n), "%s:%d" % (rf["file"], rf["line"]), "Form::fromjson has no branch for class name %r written by %s" % (n, F)):
                continue
            r.check(F in e["forms"], "reader-builds:%s:%s" % (F, n), "%s:%d" % (rf["file"], rf["line"]), "class name %r (written by %s) is read back as %s" % (n, F, sorted(e["forms"])), detail="%r -> %s" % (n, F))
            extra = sorted(k for k in e["keys"] if k not in t["keys"] and k not in COMMON_KEYS)
            r.check(not extra, "reader-keys:%s:%s" % (F, n), "%s:%d" % (rf["file"], rf["line"]), "the reader branch for %r reads keys %s that %s::tojson_part never writes (writes %s)" % (n, extra, F, sorted(t["keys"])),
                    detail="reads %s" % sorted(e["keys"]))
            missing = sorted(k for k in t["keys"] if k not in e["keys"] and k not in COMMON_KEYS)
            r.check(not missing, "writer-keys:%s:%s" % (F, n), where, "%s::tojson_part writes keys %s that the reader branch for %r ignores" % (F, missing, n), detail="all written keys are read")
    return r.done()


SIBLING_QUERIES = ("purelist_depth", "minmax_depth", "branch_depth", "numfields", "fieldindex", "key", "haskey", "keys", "purelist_isregular", "dimension_optiontype", "purelist_parameter")
ARRAY_OF_FORM = {"BitMaskedForm": "BitMaskedArray", "ByteMaskedForm": "ByteMaskedArray", "EmptyForm": "EmptyArray", "IndexedForm": "IndexedArrayOf", "IndexedOptionForm": "IndexedArrayOf",
                 "ListForm": "ListArrayOf", "ListOffsetForm": "ListOffsetArrayOf", "NumpyForm": "NumpyArray", "RecordForm": "RecordArray", "RegularForm": "RegularArray",
                 "UnionForm": "UnionArrayOf", "UnmaskedForm": "UnmaskedArray"}


def _abstract(body):
    """shape of a query body with data-access details erased: content_.get()->m(...) and content(i)/contents_ accesses unified"""
    from .structure import _strip_lines

    def norm(x):
        if isinstance(x, tuple):
            if x and x[0] == "deref":
                return norm(x[1])
            if x and x[0] == "mcall" and len(x) >= 5:
                return ("mcall", x[1], norm(x[3]), tuple(norm(a) for a in x[4]))
            if x and x[0] == "mcall" and len(x) == 4:   # canonical form from kspec.cexpr: (mcall, name, recv, args)
                return ("mcall", x[1], norm(x[2]), tuple(norm(a) for a in x[3]))
            if x and x[0] in ("decl",) and len(x) >= 4:
                return ("decl", x[1], "T", norm(x[3]))
            if x and x[0] == "foreach":
                return ("foreach", x[1], "T", norm(x[3]), norm(x[4]))
            if x and x[0] == "ctor":
                return ("ctor", "T", tuple(norm(a) for a in x[2]))
            return tuple(norm(y) for y in x)
        return x
    return norm(_strip_lines(body))


def rule_form_array_siblings(rep, fb, floor=60):
    r = rep.rule("CLONE.form-array", "the structure queries (purelist_depth, minmax_depth, branch_depth, numfields, fieldindex, key, haskey, keys, purelist_isregular, dimension_optiontype, purelist_parameter) "
                 "of every Form class have the same body as those of its array class, up to type names (so type/form answers agree with the layout's)", floor=floor)
    by = {}
    for f in fb.lib_funcs():
        if f["name"] in SIBLING_QUERIES and f["cls"]:
            by.setdefault((f["cls"], f["name"], len(f["params"])), f)
    for (cls, name, ar), f in sorted(by.items()):
        if cls not in ARRAY_OF_FORM:
            continue
        g = by.get((ARRAY_OF_FORM[cls], name, ar))
        key = "%s::%s~%s::%s" % (cls, name, ARRAY_OF_FORM[cls], name)
        where = "%s:%d" % (f["file"], f["line"])
        if g is None:
            r.excepted(key, "the array class has no own definition of this query")
            continue
        from .kspec import cstmts
        from .structure import _strip_lines
        a, b = _strip_lines(cstmts(f["body"])), _strip_lines(cstmts(g["body"]))
        if a != b and cls == "NumpyForm" and name in ("purelist_depth", "minmax_depth", "branch_depth", "purelist_isregular"):
            r.excepted(key, "NumpyForm stores inner_shape_ (shape without the first dimension): inner_shape_.size() + 1 is shape_.size()")
            r.ok(key)
            continue
        if a == b:
            r.ok(key, "identical up to type names")
        else:
            from .kspec import first_diff
            r.fail(key, where, "%s::%s and %s::%s differ: %s" % (cls, name, ARRAY_OF_FORM[cls], name, first_diff(a, b)))
    return r.done()


def rule_type_via_form(rep, fb, floor=10):
    r = rep.rule("FORWARD.type-via-form", "XArray::type(typestrs) of every node class is form(true)->type(typestrs): the type of an array is a function of its form by construction", floor=floor)
    for f in fb.lib_funcs():
        if f["name"] != "type" or not f["cls"] or f["cls"].endswith("Form") or f["cls"].endswith("Type") or len(f["params"]) != 1:
            continue
        if not (f["cls"].endswith("Array") or f["cls"].endswith("ArrayOf") or f["cls"] in ("Record",)):
            continue
        key = "%s::type" % f["cls"]
        where = "%s:%d" % (f["file"], f["line"])
        rets = find_all(f["body"], lambda n: n[0] == "return" and isinstance(n[-1], int) and n[1] is not None)
        ok = False
        for rt in rets:
            e = rt[1]
            while e[0] == "deref":
                e = e[1]
            if e[0] == "mcall" and e[1] == "type" and e[4] and e[4][0] == ("var", f["params"][0][0]):
                recv = e[3]
                while recv[0] == "deref":
                    recv = recv[1]
                if recv[0] == "mcall" and recv[1] == "form" and recv[4] and cexpr(recv[4][0]) == ("const", 1):
                    ok = True
        if not ok and f["cls"] in ("VirtualArray", "Record"):
            r.excepted(key, "VirtualArray answers from its declared form when there is one; Record delegates to its array's field types")
            r.ok(key)
            continue
        r.check(ok, key, where, "%s::type does not return form(true)->type(typestrs)" % f["cls"], detail="form(true)->type(typestrs)")
    return r.done()


def rule_type_grammar(rep, fb, floor=10):
    """printer terminals vs grammar terminals (type -> string -> type)"""
    import os
    import re
    from ..core import REPO
    from .fintab import switch_table, _func, _const_str
    r = rep.rule("TABLE.type-grammar", "every primitive type name the printer can emit (util::dtype_to_name over all enumerators, used by PrimitiveType::tostring_part) is an alternative of the TYPE terminal "
                 "of type-grammar.lark and of the generated parser's TYPE pattern; both agree with each other", floor=floor)
    d2n = {k: _const_str(v) for k, v in switch_table(_func(fb, "util::dtype_to_name")).items()}
    pt = [f for f in fb.lib_funcs() if f["qual"] == "PrimitiveType::tostring_part"]
    if not pt:
        raise AnalysisError("PrimitiveType::tostring_part not found")
    uses = bool(find_all(pt[0]["body"], lambda n: n[0] == "call" and n[1][0] == "fn" and (n[1][1] or "").endswith("dtype_to_name")))
    r.check(uses, "printer-uses-dtype_to_name", "%s:%d" % (pt[0]["file"], pt[0]["line"]), "PrimitiveType::tostring_part no longer prints util::dtype_to_name(dtype_)")
    gpath = os.path.join(REPO, "src/awkward/_typeparser/type-grammar.lark")
    ppath = os.path.join(REPO, "src/awkward/_typeparser/generated_parser.py")
    if not os.path.exists(gpath) or not os.path.exists(ppath):
        raise AnalysisError("type grammar / generated parser missing")
    g = open(gpath).read()
    m = re.search(r"^TYPE:(.*?)(?=^\S)", g, re.S | re.M)
    if not m:
        raise AnalysisError("TYPE terminal not found in type-grammar.lark")
    gram = set(re.findall(r'"([^"]+)"', m.group(1)))
    ps = open(ppath).read()
    m2 = re.search(r"\{'name': 'TYPE', 'pattern': \{'value': '([^']*)'", ps)
    if not m2:
        raise AnalysisError("TYPE pattern not found in generated_parser.py")
    gen = set(re.findall(r"[a-z]+[0-9]*", m2.group(1)))
    r.check(gram == gen, "grammar-vs-generated", "src/awkward/_typeparser/generated_parser.py", "type-grammar.lark TYPE alternatives %s differ from the generated parser's %s" % (sorted(gram - gen), sorted(gen - gram)),
            detail="%d alternatives in both" % len(gram))
    for enum, name in sorted(d2n.items()):
        if name is None:
            continue
        r.check(name in gram, "printable:%s" % name, "src/awkward/_typeparser/type-grammar.lark", "the printer emits primitive type name %r (util::dtype::%s) but the type grammar's TYPE terminal does not accept it: the printed type cannot be re-parsed" % (name, enum),
                detail="%r accepted" % name)
    return r.done()
