"""Rule family C (KBOUND): every affine kernel write stays inside the buffer the caller allocated.

Kernel summary  : for each out pointer parameter, the largest index written, as a polynomial in the kernel's scalar parameters
                  (interval propagation over the enclosing `for` loops; subscripts that are not affine in loop variables with
                  non-negative coefficients are classified 'counter' / 'data' and not claimed).
Call-site check : the argument bound to that parameter is `X.data()` / `X.get()` of a buffer constructed in the same function
                  (IndexOf<T> X(len) / kernel::malloc<T>(lib, n*sizeof(T))); after substituting the actual scalar arguments,
                  allocation - required must be a polynomial with non-negative coefficients (atoms are lengths: >= 0)."""
import re
from ..facts import find_all
from ..core import load_table
from .kspec import cexpr, unparse
from . import callsites as cs

# ------------------------------------------------------------------------------------------------
# polynomials over named atoms with integer coefficients:  {(atom, atom, ...): coeff}


def P(c=0):
    return {(): c} if c else {}


def atom(name):
    return {(name,): 1}


def padd(a, b, sign=1):
    out = dict(a)
    for m, c in b.items():
        out[m] = out.get(m, 0) + sign * c
        if out[m] == 0:
            del out[m]
    return out


def pmul(a, b):
    out = {}
    for m1, c1 in a.items():
        for m2, c2 in b.items():
            m = tuple(sorted(m1 + m2))
            out[m] = out.get(m, 0) + c1 * c2
            if out[m] == 0:
                del out[m]
    return out


def pstr(p):
    if not p:
        return "0"
    parts = []
    for m, c in sorted(p.items()):
        t = "*".join(m) if m else ""
        parts.append(("%d" % c if not t else ("" if c == 1 else ("-" if c == -1 else "%d*" % c)) + t))
    return " + ".join(parts).replace("+ -", "- ")


def pnonneg(p):
    return all(c >= 0 for c in p.values())


def to_poly(e, atomize):
    """raw IR expression -> polynomial; non-arithmetic sub-expressions become atoms through atomize(canonical e) (None = give up)"""
    return _poly(cexpr(e), atomize)


def _poly(e, atomize):
    h = e[0]
    if h == "const":
        if isinstance(e[1], bool) or not isinstance(e[1], int):
            return None
        return P(e[1])
    if h == "bin" and e[1] in ("+", "-", "*"):
        a, b = _poly(e[2], atomize), _poly(e[3], atomize)
        if a is None or b is None:
            return None
        if e[1] == "+":
            return padd(a, b)
        if e[1] == "-":
            return padd(a, b, -1)
        return pmul(a, b)
    if h == "un" and e[1] == "-":
        a = _poly(e[2], atomize)
        return None if a is None else pmul(a, P(-1))
    return atomize(e)


# ------------------------------------------------------------------------------------------------
# kernel summaries

def kernel_write_bounds(f):
    """{param: [(kind, poly-or-text, line)]} for writes through pointer parameters of kernel function f.
       kind: 'affine' (poly = required length), 'counter', 'data'"""
    params = [p[0] for p in f["params"]]
    ptrs = {p[0] for p in f["params"] if "*" in p[1]}
    scalars = {p[0] for p in f["params"] if "*" not in p[1]}
    out = {}

    def atomize_kernel(loopmax):
        def az(e):
            if e[0] == "var":
                if e[1] in loopmax:
                    return loopmax[e[1]]
                if e[1] in scalars:
                    return atom(e[1])
            return None
        return az

    def visit(stmts, loopmax, assigned):
        for i, s in enumerate(stmts):
            h = s[0]
            if h == "for":
                # preceding statement initialises the loop variable
                c = cexpr(s[1])
                lm = dict(loopmax)
                var = None
                if c[0] == "bin" and c[1] in ("<", "<=") and c[2][0] == "var":
                    var = c[2][1]
                    incs = s[3]
                    up = all(x[0] == "aug" and x[1] == "+" and x[2] == ("var", var) and cexpr(x[3])[0] == "const" and cexpr(x[3])[1] > 0 for x in incs) and bool(incs)
                    bound = to_poly(c[3], atomize_kernel(loopmax))
                    written_in_body = bool(find_all(s[2], lambda n: n[0] in ("assign", "aug") and len(n) >= 3 and (n[1] == ("var", var) or (n[0] == "aug" and n[2] == ("var", var)))))
                    if up and bound is not None and not written_in_body:
                        lm[var] = padd(bound, P(1), -1) if c[1] == "<" else bound
                    else:
                        lm.pop(var, None)
                visit(s[2], lm, assigned)
            elif h in ("while", "dowhile"):
                # loop variables of while loops are not bounded here
                visit(s[2], {k: v for k, v in loopmax.items()}, assigned)
            elif h == "if":
                visit(s[2], loopmax, assigned)
                visit(s[3], loopmax, assigned)
            elif h in ("switch", "try", "foreach"):
                for b in cs.sub_blocks(s):
                    visit(b, loopmax, assigned)
            stores = []
            if h == "assign" and s[1][0] == "idx":
                stores.append(s[1])
            elif h == "aug" and s[2][0] == "idx":
                stores.append(s[2])
            for st in stores:
                base, ix = st[1], st[2]
                if base[0] != "var" or base[1] not in ptrs:
                    continue
                poly = to_poly(ix, atomize_kernel(loopmax))
                line = s[-1] if isinstance(s[-1], int) else 0
                if poly is not None:
                    # coefficients of loop variables must be non-negative for the max substitution to be the max:
                    # verified by construction only when the subscript, written over loop vars, has no negative loop-var term
                    raw = to_poly(ix, lambda e: atom("@" + e[1]) if e[0] == "var" and e[1] in loopmax else (atom(e[1]) if e[0] == "var" and e[1] in scalars else None))
                    negloop = raw is None or any(c < 0 and any(a.startswith("@") for a in m) for m, c in raw.items())
                    if not negloop:
                        out.setdefault(base[1], []).append(("affine", padd(poly, P(1)), line))
                        continue
                vs = {n[1] for n in find_all((ix,), lambda n: n[0] == "var")}
                kind = "data" if find_all((ix,), lambda n: n[0] == "idx") else "counter"
                out.setdefault(base[1], []).append((kind, unparse(cexpr(ix))[:40], line))
    visit(f["body"], {}, set())
    return out


# ------------------------------------------------------------------------------------------------
# call sites

def _inline_accessor(fb_funcs, cls, name):
    """body `return <expr>;` of a zero-argument accessor of class cls -> expr"""
    for f in fb_funcs.get((cls, name), []):
        if not f["params"] and len(f["body"]) == 1 and f["body"][0][0] == "return" and f["body"][0][1] is not None:
            return f["body"][0][1]
    return None


class SiteEnv:
    def __init__(self, site, accessors):
        self.site = site
        self.defs = cs.scoped_defs(site)
        self.acc = accessors
        self.cls = site.func["cls"]
        self.reassigned = {n[1][1] for n in find_all(site.func["body"], lambda n: n[0] in ("assign",) and len(n) == 4 and n[1][0] == "var")} | \
                          {n[2][1] for n in find_all(site.func["body"], lambda n: n[0] == "aug" and len(n) >= 4 and n[2][0] == "var")} | \
                          {n[1][1] for n in find_all(site.func["body"], lambda n: n[0] == "addr" and n[1][0] == "var")}

    def atomize(self, e, depth=0):
        if depth > 6:
            return None
        h = e[0]
        if h == "var":
            name = e[1]
            ds = self.defs.get(name) or []
            if len(ds) == 1 and ds[0][3] is not None and name not in self.reassigned and cs.SCALAR_T.match(ds[0][2] or ""):
                p = to_poly(ds[0][3], lambda x: self.atomize(x, depth + 1))
                if p is not None:
                    return p
            return atom(name)
        if h == "mcall" and e[1] in ("length", "size"):
            recv = e[2] if len(e) == 4 else e[3]
            # canonical cexpr form: (mcall, name, recv, args)
            if recv == ("this",) and self.cls:
                body = _inline_accessor(self.acc, self.cls, e[1])
                if body is not None:
                    p = to_poly(body, lambda x: self.atomize(x, depth + 1))
                    if p is not None:
                        return p
            return atom(unparse(e))
        if h in ("member", "mcall", "idx"):
            return atom(unparse(e))
        return None


def allocation_of(arg, env):
    """argument expression -> (poly length, text) of the buffer it points into, if that buffer is constructed in this function"""
    e = arg
    while True:
        if e[0] in ("deref", "addr"):
            e = e[1]
        elif e[0] == "cast":
            e = e[3]
        elif e[0] == "mcall" and e[1] in ("data", "get", "ptr"):
            e = e[3]
        else:
            break
    if e[0] != "var":
        return None
    ds = env.defs.get(e[1]) or []
    if ds and all(cs.SCALAR_T.match(d_[2] or "") for d_ in ds) and (arg[0] == "addr" or e is arg):
        return P(1), "scalar %s %s" % (ds[0][2], e[1])
    if len(ds) != 1 or ds[0][3] is None:
        return None
    d = ds[0]
    init = d[3]
    t = d[2] or ""
    if init[0] == "ctor" and re.match(r"(const )?Index(Of<.*>|8|U8|32|U32|64)(?!\w)", t) and len(init[2]) >= 1:
        a0 = init[2][0]
        if cs._is_lengthlike(a0, env.site.func, env.defs):
            p = to_poly(a0, env.atomize)
            if p is not None:
                return p, "%s %s(%s)" % (t, e[1], unparse(cexpr(a0))[:50])
    if init[0] == "call" and init[1][0] == "fn" and init[1][1] == "kernel::malloc" and len(init[2]) == 2:
        n = cexpr(init[2][1])
        # n = count * sizeof(T)
        if n[0] == "bin" and n[1] == "*":
            for a, b in ((n[2], n[3]), (n[3], n[2])):
                if b[0] == "sizeof":
                    p = to_poly(a, env.atomize)
                    if p is not None:
                        return p, "kernel::malloc(%s * sizeof(%s))" % (unparse(a)[:40], b[1])
    return None


def _class_invariants(cls):
    """constructor-enforced inequalities A <= B between the atoms of a class, as (A, B, text)"""
    if cls == "BitMaskedArray":
        length = atom(unparse(cexpr(("member", ("this",), "length_"))))
        mask8 = pmul(P(8), atom(unparse(cexpr(("mcall", "length", None, ("member", ("this",), "mask_"), ())))))
        return [(length, mask8, "length_ <= 8 * mask_.length() (BitMaskedArray constructor)")]
    return []


def rule_kbound(rep, fb, select_site=None, floor=150):
    r = rep.rule("KBOUND.affine", "for every kernel out-parameter whose writes are affine in the kernel's loop variables, the required length (largest index written + 1, as a polynomial of the kernel's scalar arguments, "
                 "actual arguments substituted) does not exceed the length of the buffer that the calling function allocated for it (allocation - required has only non-negative coefficients)", floor=floor)
    from .kernels import implementation_of
    table = load_table("kbound_exceptions.json")
    api = cs.kernel_api(fb)
    spec = fb.spec()
    # kernel::K -> spec kernel
    sym2k = {}
    for k in spec:
        for sp in k["specializations"]:
            sym2k[sp["name"]] = k
    q2k = {}
    for q, a in api.items():
        for names, params, g in a["overloads"]:
            for c in find_all(g["body"], lambda n: n[0] == "call" and n[1][0] == "fn" and isinstance(n[1][1], str) and n[1][1].startswith("awkward_")):
                if c[1][1] in sym2k:
                    q2k.setdefault(q, set()).add(sym2k[c[1][1]]["name"])
    summaries = {}
    accessors = {}
    for f in fb.lib_funcs():
        if f["cls"]:
            accessors.setdefault((f["cls"], f["name"]), []).append(f)
    sites = cs.kernel_sites(fb, api)
    ndec = nund = nnot = 0
    for key, s in cs.keyed(sites):
        if select_site is not None and not select_site(s):
            continue
        kn = q2k.get(s.name)
        if not kn or len(kn) != 1:
            continue   # overloads of this dispatch name map to different kernels (e.g. real vs complex reducers): element units differ; not decided here
        k = [x for x in spec if x["name"] == list(kn)[0]][0]
        impl = implementation_of(fb, k)
        if impl is None:
            continue
        if impl["name"] not in summaries:
            summaries[impl["name"]] = kernel_write_bounds(impl)
        summ = summaries[impl["name"]]
        if not summ:
            continue
        names = api[s.name]["overloads"][0][0]
        args = s.call[2]
        if len(names) != len(args):
            continue
        off = 1 if names and names[0] == "ptr_lib" else 0
        kparams = [p[0] for p in impl["params"]]
        if len(kparams) != len(args) - off:
            continue
        env = SiteEnv(s, accessors)
        actual = {}
        for kp, a in zip(kparams, args[off:]):
            actual[kp] = a
        for pname, writes in summ.items():
            arg = actual.get(pname)
            if arg is None:
                continue
            aff = [w for w in writes if w[0] == "affine"]
            # keep only the maximal requirements (one that is pointwise <= another needs no separate check)
            aff = [w for i_, w in enumerate(aff) if not any(j_ != i_ and pnonneg(padd(o[1], w[1], -1)) and (o[1] != w[1] or j_ < i_) for j_, o in enumerate(aff))]
            other = [w for w in writes if w[0] != "affine"]
            if not aff:
                nnot += 1
                continue
            alloc = allocation_of(arg, env)
            k2 = "%s:%s" % (key, pname)
            if alloc is None:
                nund += 1
                continue
            apoly, atext = alloc
            worst_ok = True
            for _, req, line in aff:
                # substitute actual scalar arguments
                def subst(poly):
                    out = {}
                    for m, c in poly.items():
                        term = P(c)
                        for a_ in m:
                            if a_ in actual:
                                pa = to_poly(actual[a_], env.atomize)
                                if pa is None:
                                    return None
                            else:
                                return None
                            term = pmul(term, pa)
                        out = padd(out, term)
                    return out
                need = subst(req)
                if need is None:
                    nund += 1
                    worst_ok = None
                    break
                diff = padd(apoly, need, -1)
                if pnonneg(diff):
                    continue
                neg = padd(need, apoly, -1)
                tk = "%s#%s:%s" % (s.func["qual"], s.name.replace("kernel::", ""), pname)
                if pnonneg(neg):
                    if tk in table:
                        r.excepted(tk, table[tk])
                        continue
                    worst_ok = False
                    r.fail(tk, "%s:%d" % (s.func["file"], s.line), "%s writes %s[0 .. %s) (kernel %s line %d) but the buffer passed is %s, i.e. %s elements: %s too small" % (
                        s.name, pname, pstr(need), impl["name"], line, atext, pstr(apoly), pstr(neg)))
                    break
                else:
                    if tk in table:
                        r.excepted(tk, table[tk])
                        continue
                    # neither side dominates symbolically; a class invariant A <= B settles it when the shortfall is exactly B - A:
                    # the buffer is too small for every object in which the invariant is strict
                    inv = [(a_, b_, txt) for a_, b_, txt in _class_invariants(s.func["cls"]) if padd(b_, a_, -1) == neg]
                    if inv:
                        worst_ok = False
                        r.fail(tk, "%s:%d" % (s.func["file"], s.line), "%s writes %s[0 .. %s) (kernel %s line %d) but the buffer passed is %s, i.e. %s elements: too small by %s, which is positive whenever %s holds strictly" % (
                            s.name, pname, pstr(need), impl["name"], line, atext, pstr(apoly), pstr(neg), inv[0][2]))
                        break
                    worst_ok = None
                    nund += 1
                    break
            if worst_ok is True:
                ndec += 1
                r.ok(k2, "%s: writes [0, %s) into %s" % (pname, pstr(subst(aff[0][1]) or {}), atext))
    r.count("decided", ndec)
    r.count("undecided_allocation_or_symbolic_form", nund)
    r.count("not_affine_counter_or_data_dependent", nnot)
    return r.done()
