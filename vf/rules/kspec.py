"""Rule family A (KSPEC): kernel C++ body  ==  Python definition in kernel-specification.yml, modulo a normal form
that erases only differences that cannot change results.  Also B.1 (specialisations forward positionally)."""
import re

COMMUT = {"+", "*", "==", "!=", "&", "|", "^"}
FLIP = {">": "<", ">=": "<="}

# callee spellings that denote the same function on both sides
CALLEE_CANON = {
    "std::abs": "abs", "abs": "abs", "std::fabs": "abs", "fabs": "abs",
    "std::isnan": "isnan", "isnan": "isnan", "math.isnan": "isnan",
    "std::ceil": "ceil", "ceil": "ceil", "math.ceil": "ceil",
    "std::floor": "floor", "math.floor": "floor",
    "std::sqrt": "sqrt", "math.sqrt": "sqrt",
    "std::min": "min", "min": "min", "std::max": "max", "max": "max",
    "len": "len",
}


def _is_num(v):
    return isinstance(v, (int, float)) and not isinstance(v, bool)


def cexpr(e):
    """canonical expression (no lines, casts dropped, commutative operands sorted, > rewritten as <)"""
    if e is None:
        return None
    h = e[0]
    if h == "const":
        v = e[1]
        if isinstance(v, bool):
            return ("const", int(v))
        if isinstance(v, float) and v == int(v) and abs(v) < 1e15:
            return ("const", int(v))
        return ("const", v)
    if h == "var":
        if e[1] == "True":
            return ("const", 1)
        if e[1] == "False":
            return ("const", 0)
        if e[1] in ("None", "nullptr"):
            return ("const", None)
        return e
    if h == "enum":
        return ("var", e[1].split("::")[-1])
    if h in ("cast", "narrow", "widen"):
        return cexpr(e[3])
    if h in ("addr", "deref"):
        return cexpr(e[1])
    if h == "ctor":
        args = tuple(cexpr(a) for a in e[2])
        if len(args) == 1:
            return args[0]
        if len(args) == 0:
            return ("const", 0)
        return ("ctor", re.sub(r"\s+", "", e[1]), args)
    if h == "idx":
        return ("idx", cexpr(e[1]), cexpr(e[2]))
    if h == "un":
        a = cexpr(e[2])
        if e[1] == "-" and a[0] == "const" and _is_num(a[1]):
            return ("const", -a[1])
        if e[1] == "!" and a[0] == "un" and a[1] == "!":
            return a[2]
        return ("un", e[1], a)
    if h == "bin":
        op = e[1]
        if op == "f/":
            op = "/"
        a, b = cexpr(e[2]), cexpr(e[3])
        if op in FLIP:
            op, a, b = FLIP[op], b, a
        if a[0] == "const" and b[0] == "const" and _is_num(a[1]) and _is_num(b[1]) and isinstance(a[1], int) and isinstance(b[1], int):
            if op == "+":
                return ("const", a[1] + b[1])
            if op == "-":
                return ("const", a[1] - b[1])
            if op == "*":
                return ("const", a[1] * b[1])
        if op in COMMUT and repr(b) < repr(a):
            a, b = b, a
        return ("bin", op, a, b)
    if h == "cond":
        return ("cond", cexpr(e[1]), cexpr(e[2]), cexpr(e[3]))
    if h == "call":
        f = e[1]
        if f[0] == "fn":
            name = f[1] or "?"
        elif f[0] == "member":
            name = _dotted(f)
        elif f[0] == "var":
            name = f[1]
        else:
            name = repr(cexpr(f))
        name = CALLEE_CANON.get(name, name)
        return ("call", name, tuple(cexpr(a) for a in e[2]))
    if h == "mcall":
        return ("mcall", e[1], cexpr(e[3]), tuple(cexpr(a) for a in e[4]))
    if h == "member":
        return ("member", cexpr(e[1]), e[2])
    if h == "list":
        return ("list", tuple(cexpr(a) for a in e[1]))
    if h == "comma":
        return ("comma", cexpr(e[1]), cexpr(e[2]))
    if h == "sizeof":
        return ("sizeof", e[1])
    if h in ("assign",):
        return ("assign", cexpr(e[1]), cexpr(e[2]))
    if h == "aug":
        return ("aug", "/" if e[1] == "f/" else e[1], cexpr(e[2]), cexpr(e[3])) + tuple(e[4:5])
    if h == "make" or h == "new":
        return (h, e[1], tuple(cexpr(a) for a in e[2]))
    if h == "lambda":
        return ("lambda", e[1], cstmts(e[2]))
    if h == "slice":
        return ("slice",) + tuple(cexpr(x) if x else None for x in e[1:])
    return e


def _dotted(e):
    if e[0] == "member":
        return _dotted(e[1]) + "." + e[2]
    if e[0] == "var":
        return e[1]
    return "?"


def _hoist(e, pre, post):
    """pull embedded ++/--/assignments out of an expression (a[j++] = v  ->  a[j] = v; j += 1)"""
    if not isinstance(e, tuple) or not e:
        return e
    h = e[0]
    if h == "aug" and len(e) >= 4:
        tgt = _hoist(e[2], pre, post)
        val = _hoist(e[3], pre, post)
        st = ("aug", e[1], tgt, val)
        if len(e) > 4 and e[4] == "post":
            post.append(st)
        else:
            pre.append(st)
        return tgt
    if h == "assign":
        tgt = _hoist(e[1], pre, post)
        val = _hoist(e[2], pre, post)
        pre.append(("assign", tgt, val))
        return tgt
    if h in ("lambda",):
        return e
    return tuple(_hoist(x, pre, post) if isinstance(x, tuple) else x for x in e)


def _failure_msg(e):
    """return failure("msg", i, j, FILENAME)  ->  msg"""
    if e and e[0] == "call" and e[1] == "failure":
        a = e[2]
        if a and a[0][0] == "const":
            return a[0][1]
        return "?"
    return None


def cstmts(stmts):
    out = []
    for s in stmts:
        out.extend(cstmt(s))
    # x = x op y  -> aug ; drop trailing bare return
    return tuple(out)


def _emit_expr_stmt(e, out):
    """expression used as a statement, after canonicalisation and hoisting"""
    pre, post = [], []
    e2 = _hoist(e, pre, post)
    out.extend(pre)
    if e2[0] == "cond":
        # cond ? (a = b) : a;   handled by caller before hoisting
        out.append(("expr", e2))
    elif e2[0] in ("var", "idx", "const", "member"):
        pass  # value unused (the hoisted statement carries the effect)
    else:
        out.append(("expr", e2))
    out.extend(post)


def cstmt(s):
    h = s[0]
    out = []
    if h == "decl":
        if s[3] is None:
            return []
        e = cexpr(s[3])
        pre, post = [], []
        e = _hoist(e, pre, post)
        return pre + [_mk_assign(("var", s[1]), e)] + post
    if h == "assign":
        l, r = cexpr(s[1]), cexpr(s[2])
        pre, post = [], []
        l = _hoist(l, pre, post)
        r = _hoist(r, pre, post)
        return pre + [_mk_assign(l, r)] + post
    if h == "aug":
        pre, post = [], []
        l = _hoist(cexpr(s[2]), pre, post)
        r = _hoist(cexpr(s[3]), pre, post)
        return pre + [("aug", "/" if s[1] == "f/" else s[1], l, r)] + post
    if h == "expr":
        e = cexpr(s[1])
        if e[0] == "cond":
            # c ? (a = b) : a   as a statement
            t, f = e[2], e[3]
            tb = cstmt(("expr", t, 0)) if t[0] in ("assign", "aug", "call", "cond") else []
            fb = cstmt(("expr", f, 0)) if f[0] in ("assign", "aug", "call", "cond") else []
            return [("if", e[1], tuple(tb), tuple(fb))]
        if e[0] == "assign":
            return cstmt(("assign", e[1], e[2], 0))
        if e[0] == "aug":
            return cstmt(("aug", e[1], e[2], e[3], 0))
        if e[0] == "comma":
            return cstmt(("expr", e[1], 0)) + cstmt(("expr", e[2], 0))
        _emit_expr_stmt(e, out)
        return out
    if h == "if":
        c = s[1]
        if c[0] == "declcond":
            c = ("assign", ("var", c[1]), c[3])
        pre, post = [], []
        c = _hoist(cexpr(c), pre, post)
        return pre + [("if", c, cstmts(s[2]), cstmts(s[3]))] + post
    if h == "for":
        c = cexpr(s[1])
        return [("while", c, cstmts(s[2]) + _saturating_step(c, cstmts(s[3])))]
    if h == "while":
        c = s[1]
        if c[0] == "declcond":
            c = ("assign", ("var", c[1]), c[3])
        return [("while", cexpr(c), cstmts(s[2]))]
    if h == "dowhile":
        return [("dowhile", cexpr(s[1]), cstmts(s[2]))]
    if h == "return":
        if s[1] is None:
            return [("return",)]
        e = cexpr(s[1])
        if e[0] == "call" and e[1] == "success":
            return [("return",)]
        m = _failure_msg(e)
        if m is not None:
            return [("raise", m)]
        return [("return", e)]
    if h == "raise":
        return [("raise", s[1])]
    if h in ("break", "continue"):
        return [(h,)]
    if h == "throw":
        return [("throw", cexpr(s[1]) if s[1] else None)]
    if h == "foreach":
        return [("foreach", s[1], cexpr(s[3]), cstmts(s[4]))]
    if h == "switch":
        return [("switch", cexpr(s[1]), tuple((tuple(cexpr(l) if l != "default" and l != "<pre>" else l for l in ls), cstmts(b)) for ls, b in s[2]))]
    if h == "try":
        return [("try", cstmts(s[1]), tuple((t, cstmts(b)) for t, b in s[2]))]
    if h in ("goto", "label"):
        return [s[:2]]
    if h == "unk":
        return [s[:2]]
    return [s[:-1]]


def _saturating_step(c, step):
    """the overflow-safe loop increment   v = (bound - v > s ? v + s : bound)   under the loop condition
    v < bound (mirrored: bound - v < s under v > bound) is  v += s  over the unbounded integers of the
    definitions: whenever the guard is false v + s has reached bound and the loop ends either way, and
    the loop variable is dead after a for statement"""
    if len(step) != 1 or step[0][0] != "assign" or not (c and c[0] == "bin" and c[1] == "<"):
        return step
    v, r = step[0][1], step[0][2]
    if r[0] != "cond" or r[2][0] != "bin" or r[2][1] != "+" or v not in (r[2][2], r[2][3]):
        return step
    s = r[2][3] if r[2][2] == v else r[2][2]
    bound, q = r[3], r[1]
    if c[2] == v and c[3] == bound and q == ("bin", "<", s, ("bin", "-", bound, v)):
        return (("aug", "+", v, s),)
    if c[3] == v and c[2] == bound and q == ("bin", "<", ("bin", "-", bound, v), s):
        return (("aug", "+", v, s),)
    return step


def _mk_assign(l, r):
    # x = x op y  ->  x op= y   (also y op x for commutative op)
    if r[0] == "bin" and r[1] in ("+", "-", "*", "/", "%", "&", "|", "^", "<<", ">>"):
        if r[2] == l:
            return ("aug", r[1], l, r[3])
        if r[3] == l and r[1] in COMMUT:
            return ("aug", r[1], l, r[2])
    return ("assign", l, r)


def _strip_trailing_return(body):
    body = list(body)
    while body and body[-1] == ("return",):
        body.pop()
    return tuple(body)


def _walk_vars(x, f):
    if isinstance(x, tuple):
        if x and x[0] == "var" and len(x) == 2 and isinstance(x[1], str):
            return ("var", f(x[1]))
        return tuple(_walk_vars(y, f) for y in x)
    return x


def alpha(params, body):
    """rename locals (every assigned/declared name that is not a parameter) by order of first appearance"""
    order = []
    pset = set(params)

    def visit(x):
        if isinstance(x, tuple):
            if x and x[0] == "var" and len(x) == 2 and isinstance(x[1], str):
                if x[1] not in pset and x[1] not in order:
                    order.append(x[1])
                return
            for y in x:
                visit(y)
    visit(body)
    ren = {n: "L%d" % i for i, n in enumerate(order)}
    return _walk_vars(body, lambda n: ren.get(n, n))


def normal_form(params, body, helpers=None, depth=0):
    """params: tuple of names; body: IR statements -> canonical tuple.
    Parameters are renamed positionally (P0, P1, ...), locals by first appearance (L0, ...)."""
    b = cstmts(body)
    b = _strip_trailing_return(b)
    if helpers:
        b = inline_helpers(b, helpers, depth)
    b = drop_dead_inits(b)
    pren = {n: "P%d" % i for i, n in enumerate(params)}
    b = _walk_vars(b, lambda n: pren.get(n, n))
    return alpha(tuple(pren.values()), b)


def _reads(x, var):
    """does expression/statement tuple x mention var (as a read or a write)"""
    if isinstance(x, tuple):
        if x == ("var", var):
            return True
        return any(_reads(y, var) for y in x)
    return False


def _covered(stmts, var, covered):
    """True iff every mention of var in stmts (other than as the target of a plain re-initialising assignment) is
    preceded, in its own or an enclosing block, by an unconditional assignment `var = e` (e not mentioning var)."""
    for s in stmts:
        h = s[0]
        if h == "assign" and s[1] == ("var", var) and not _reads(s[2], var):
            covered = True
            continue
        if covered:
            continue
        if h == "if":
            if _reads(s[1], var):
                return False
            if not _covered(s[2], var, False) or not _covered(s[3], var, False):
                return False
        elif h in ("while", "dowhile"):
            if _reads(s[1], var):
                return False
            if not _covered(s[2], var, False):
                return False
        elif _reads(s, var):
            return False
    return True


def drop_dead_inits(stmts):
    """remove `x = <constant>` when x is unconditionally re-assigned before every later mention (a dead store:
    typically a C++ declaration with a dummy initialiser); applied to both sides"""
    out = list(stmts)
    i = 0
    while i < len(out):
        s = out[i]
        if s[0] == "assign" and s[1][0] == "var" and s[2][0] == "const":
            rest = tuple(out[i + 1:])
            var = s[1][1]
            if _reads(rest, var) and _covered(rest, var, False):
                del out[i]
                continue
        i += 1
    res = []
    for s in out:
        if s[0] == "if":
            s = ("if", s[1], drop_dead_inits(s[2]), drop_dead_inits(s[3]))
        elif s[0] in ("while", "dowhile"):
            s = (s[0], s[1], drop_dead_inits(s[2]))
        res.append(s)
    return tuple(res)


def inline_helpers(body, helpers, depth):
    """a body that is exactly `return helper(args)` / `helper(args)` with helper defined in the same unit: substitute"""
    if depth > 2:
        return body
    if len(body) == 1 and body[0][0] in ("return", "expr") and len(body[0]) > 1 and body[0][1] and body[0][1][0] == "call":
        c = body[0][1]
        if c[1] in helpers:
            hp, hb = helpers[c[1]]
            if len(hp) == len(c[2]):
                sub = dict(zip(hp, c[2]))
                hb2 = cstmts(hb)
                hb2 = _strip_trailing_return(hb2)
                hb2 = _subst(hb2, sub)
                return inline_helpers(hb2, helpers, depth + 1)
    return body


def _subst(x, sub):
    if isinstance(x, tuple):
        if x and x[0] == "var" and len(x) == 2 and x[1] in sub:
            return sub[x[1]]
        return tuple(_subst(y, sub) for y in x)
    return x


def first_diff(a, b, path=""):
    """human-readable first structural difference between two normal forms"""
    if a == b:
        return None
    if isinstance(a, tuple) and isinstance(b, tuple):
        if len(a) != len(b):
            # find first differing element
            for i, (x, y) in enumerate(zip(a, b)):
                if x != y:
                    return first_diff(x, y, path + "/%d" % i)
            return "%s: length %d vs %d; extra: %s" % (path, len(a), len(b), short((a[len(b):] or b[len(a):])[0]))
        for i, (x, y) in enumerate(zip(a, b)):
            if x != y:
                return first_diff(x, y, path + "/%d" % i)
    return "%s: C++ has %s ; specification has %s" % (path, short(a), short(b))


def short(x, n=160):
    s = unparse(x)
    return s if len(s) <= n else s[:n] + "..."


def unparse(x):
    """compact rendering of canonical IR for messages"""
    if not isinstance(x, tuple) or not x:
        return repr(x)
    h = x[0]
    try:
        if h == "var":
            return str(x[1])
        if h == "const":
            return repr(x[1])
        if h == "idx":
            return "%s[%s]" % (unparse(x[1]), unparse(x[2]))
        if h == "bin":
            return "(%s %s %s)" % (unparse(x[2]), x[1], unparse(x[3]))
        if h == "un":
            return "%s%s" % (x[1], unparse(x[2]))
        if h == "assign":
            return "%s = %s" % (unparse(x[1]), unparse(x[2]))
        if h == "aug":
            return "%s %s= %s" % (unparse(x[2]), x[1], unparse(x[3]))
        if h == "call":
            return "%s(%s)" % (x[1] if isinstance(x[1], str) else unparse(x[1]), ", ".join(unparse(a) for a in x[2]))
        if h == "cond":
            return "(%s ? %s : %s)" % (unparse(x[1]), unparse(x[2]), unparse(x[3]))
        if h == "if":
            return "if %s {%s} else {%s}" % (unparse(x[1]), "; ".join(unparse(s) for s in x[2]), "; ".join(unparse(s) for s in x[3]))
        if h == "while":
            return "while %s {%s}" % (unparse(x[1]), "; ".join(unparse(s) for s in x[2]))
        if h == "raise":
            return "raise %r" % (x[1],)
        if h == "return":
            return "return" + (" " + unparse(x[1]) if len(x) > 1 else "")
        if h == "expr":
            return unparse(x[1])
    except Exception:
        pass
    return "(" + " ".join(unparse(y) if isinstance(y, tuple) else str(y) for y in x) + ")"
