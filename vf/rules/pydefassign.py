"""Definite assignment for the Python layer: a structured (CFG-free) dataflow over the statement kinds the package uses.
State = (definite, guarded) where `definite` is the set of local names assigned on every path to this point and `guarded` maps a name to
the set of condition texts under which it is known to be assigned (so that `if c: x = 1 ... if c: use(x)` is not reported)."""
import ast
import builtins

_BUILTINS = set(dir(builtins))


def _targets(t, out):
    if isinstance(t, ast.Name):
        out.add(t.id)
    elif isinstance(t, (ast.Tuple, ast.List)):
        for e in t.elts:
            _targets(e, out)
    elif isinstance(t, ast.Starred):
        _targets(t.value, out)


def _assigned_names(fd):
    """every name bound anywhere in the function's own scope"""
    names = set()
    for n in _walk_own(fd):
        if isinstance(n, (ast.Assign,)):
            for t in n.targets:
                _targets(t, names)
        elif isinstance(n, (ast.AugAssign, ast.AnnAssign)):
            _targets(n.target, names)
        elif isinstance(n, (ast.For, ast.AsyncFor)):
            _targets(n.target, names)
        elif isinstance(n, (ast.With, ast.AsyncWith)):
            for it in n.items:
                if it.optional_vars is not None:
                    _targets(it.optional_vars, names)
        elif isinstance(n, ast.ExceptHandler) and n.name:
            names.add(n.name)
        elif isinstance(n, (ast.FunctionDef, ast.AsyncFunctionDef, ast.ClassDef)) and n is not fd:
            names.add(n.name)
        elif isinstance(n, (ast.Import, ast.ImportFrom)):
            for a in n.names:
                names.add((a.asname or a.name).split(".")[0])
        elif isinstance(n, ast.NamedExpr):
            _targets(n.target, names)
    return names


def _walk_own(fd):
    """nodes of fd's own scope: nested function/class bodies and comprehensions are other scopes"""
    stack = list(ast.iter_child_nodes(fd))
    while stack:
        n = stack.pop()
        yield n
        if isinstance(n, (ast.FunctionDef, ast.AsyncFunctionDef, ast.Lambda, ast.ClassDef)):
            # decorators/defaults belong to the enclosing scope but are rare here; the body does not
            continue
        if isinstance(n, (ast.ListComp, ast.SetComp, ast.DictComp, ast.GeneratorExp)):
            # the first iterable is evaluated in the enclosing scope
            stack.append(n.generators[0].iter)
            continue
        stack.extend(ast.iter_child_nodes(n))


def _loads(expr):
    """names loaded by an expression in the current scope (comprehension-local names removed)"""
    out = []

    def rec(n, bound):
        if isinstance(n, ast.Name):
            if isinstance(n.ctx, ast.Load) and n.id not in bound:
                out.append(n)
            return
        if isinstance(n, (ast.Lambda, ast.FunctionDef, ast.AsyncFunctionDef, ast.ClassDef)):
            return
        if isinstance(n, (ast.ListComp, ast.SetComp, ast.DictComp, ast.GeneratorExp)):
            b = set(bound)
            first = True
            for g in n.generators:
                rec(g.iter, bound if first else b)
                first = False
                _targets(g.target, b)
                for c in g.ifs:
                    rec(c, b)
            if isinstance(n, ast.DictComp):
                rec(n.key, b)
                rec(n.value, b)
            else:
                rec(n.elt, b)
            return
        for ch in ast.iter_child_nodes(n):
            rec(ch, bound)
    if expr is not None:
        rec(expr, set())
    return out


class Analyzer:
    def __init__(self, fd, module_names):
        self.fd = fd
        self.locals = _assigned_names(fd)
        glob = set()
        for n in _walk_own(fd):
            if isinstance(n, (ast.Global, ast.Nonlocal)):
                glob |= set(n.names)
        self.locals -= glob
        self.params = {a.arg for a in fd.args.args + fd.args.kwonlyargs + getattr(fd.args, "posonlyargs", [])}
        if fd.args.vararg:
            self.params.add(fd.args.vararg.arg)
        if fd.args.kwarg:
            self.params.add(fd.args.kwarg.arg)
        self.module_names = module_names
        self.reports = []

    def use(self, expr, definite, guarded, conds):
        for n in _loads(expr):
            if n.id in self.locals and n.id not in definite and n.id not in self.params:
                gs = guarded.get(n.id, set())
                if gs & set(conds):
                    continue
                self.reports.append((n.id, n.lineno))

    def block(self, stmts, definite, guarded, conds):
        """returns (definite, guarded, falls_through)"""
        definite = set(definite)
        guarded = {k: set(v) for k, v in guarded.items()}
        for s in stmts:
            definite, guarded, ft = self.stmt(s, definite, guarded, conds)
            if not ft:
                return definite, guarded, False
        return definite, guarded, True

    def bind(self, t, definite):
        names = set()
        _targets(t, names)
        definite |= names

    def stmt(self, s, definite, guarded, conds):
        if isinstance(s, (ast.Return, ast.Raise)):
            self.use(getattr(s, "value", None) or getattr(s, "exc", None), definite, guarded, conds)
            return definite, guarded, False
        if isinstance(s, (ast.Continue, ast.Break)):
            return definite, guarded, False
        if isinstance(s, ast.Assign):
            self.use(s.value, definite, guarded, conds)
            for t in s.targets:
                if not isinstance(t, (ast.Name, ast.Tuple, ast.List)):
                    self.use(t, definite, guarded, conds)
                self.bind(t, definite)
            return definite, guarded, True
        if isinstance(s, ast.AugAssign):
            self.use(s.value, definite, guarded, conds)
            if isinstance(s.target, ast.Name):
                self.use(ast.Name(id=s.target.id, ctx=ast.Load(), lineno=s.lineno, col_offset=0), definite, guarded, conds)
            else:
                self.use(s.target, definite, guarded, conds)
            self.bind(s.target, definite)
            return definite, guarded, True
        if isinstance(s, ast.AnnAssign):
            if s.value is not None:
                self.use(s.value, definite, guarded, conds)
                self.bind(s.target, definite)
            return definite, guarded, True
        if isinstance(s, ast.If):
            self.use(s.test, definite, guarded, conds)
            ct = ast.unparse(s.test)
            d1, g1, f1 = self.block(s.body, definite, guarded, conds + [ct])
            d2, g2, f2 = self.block(s.orelse, definite, guarded, conds + ["not (" + ct + ")"])
            if f1 and f2:
                nd = d1 & d2
                ng = {}
                for k in set(g1) | set(g2):
                    ng[k] = g1.get(k, set()) & g2.get(k, set())
                for k in d1 - nd:
                    ng.setdefault(k, set()).add(ct)
                for k in d2 - nd:
                    ng.setdefault(k, set()).add("not (" + ct + ")")
                return nd, ng, True
            if f1:
                return d1, g1, True
            if f2:
                return d2, g2, True
            return definite, guarded, False
        if isinstance(s, (ast.For, ast.AsyncFor)):
            self.use(s.iter, definite, guarded, conds)
            d = set(definite)
            self.bind(s.target, d)
            self.block(s.body, d, guarded, conds)
            d2, g2, f2 = self.block(s.orelse, definite, guarded, conds)
            return (d2 if f2 else definite), guarded, True
        if isinstance(s, ast.While):
            self.use(s.test, definite, guarded, conds)
            d1, g1, f1 = self.block(s.body, definite, guarded, conds)
            if isinstance(s.test, ast.Constant) and s.test.value is True:
                # `while True:` leaves only through break/return: what the body defines before its first break is not tracked; be lenient
                return d1, guarded, True
            self.block(s.orelse, definite, guarded, conds)
            return definite, guarded, True
        if isinstance(s, (ast.With, ast.AsyncWith)):
            d = set(definite)
            for it in s.items:
                self.use(it.context_expr, d, guarded, conds)
                if it.optional_vars is not None:
                    self.bind(it.optional_vars, d)
            return self.block(s.body, d, guarded, conds)
        if isinstance(s, ast.Try):
            d1, g1, f1 = self.block(s.body, definite, guarded, conds)
            outs = []
            if f1:
                d1b, g1b, f1b = self.block(s.orelse, d1, g1, conds)
                if f1b:
                    outs.append(d1b)
            for h in s.handlers:
                dh = set(definite)
                if h.name:
                    dh.add(h.name)
                if h.type is not None:
                    self.use(h.type, definite, guarded, conds)
                d2, g2, f2 = self.block(h.body, dh, guarded, conds)
                if f2:
                    outs.append(d2)
            if not outs:
                nd, ft = set(definite), False
            else:
                nd, ft = set.intersection(*outs), True
            if s.finalbody:
                d3, g3, f3 = self.block(s.finalbody, nd if ft else definite, guarded, conds)
                return d3, guarded, ft and f3
            return nd, guarded, ft
        if isinstance(s, (ast.FunctionDef, ast.AsyncFunctionDef, ast.ClassDef)):
            for dflt in getattr(getattr(s, "args", None), "defaults", []) or []:
                self.use(dflt, definite, guarded, conds)
            definite.add(s.name)
            return definite, guarded, True
        if isinstance(s, (ast.Import, ast.ImportFrom)):
            for a in s.names:
                definite.add((a.asname or a.name).split(".")[0])
            return definite, guarded, True
        if isinstance(s, ast.Delete):
            return definite, guarded, True
        if isinstance(s, ast.Expr):
            self.use(s.value, definite, guarded, conds)
            return definite, guarded, True
        if isinstance(s, ast.Assert):
            self.use(s.test, definite, guarded, conds)
            return definite, guarded, True
        for ch in ast.iter_child_nodes(s):
            if isinstance(ch, ast.expr):
                self.use(ch, definite, guarded, conds)
        return definite, guarded, True


def possibly_undefined(tree):
    """[(function qualname, name, line)] over every function of a module"""
    out = []
    module_names = set()

    def visit(node, prefix):
        for ch in ast.iter_child_nodes(node):
            if isinstance(ch, (ast.FunctionDef, ast.AsyncFunctionDef)):
                q = prefix + ch.name
                a = Analyzer(ch, module_names)
                a.block(ch.body, set(), {}, [])
                seen = set()
                for name, line in a.reports:
                    if (name,) not in seen:
                        seen.add((name,))
                        out.append((q, name, line))
                visit(ch, q + ".")
            elif isinstance(ch, ast.ClassDef):
                visit(ch, prefix + ch.name + ".")
            else:
                visit(ch, prefix)
    visit(tree, "")
    return out
