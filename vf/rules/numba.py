"""C20 rules (Python ast): numba ContentType slot tables and their uses, getitem_at regularisation, C API table."""
import ast
import re
from .. import pyfront as pf
from ..core import AnalysisError
from ..facts import find_all

LAYOUT = "_connect/_numba/layout.py"


def _slots(cls):
    out = {}
    for n in cls.body:
        if isinstance(n, ast.Assign) and len(n.targets) == 1 and isinstance(n.targets[0], ast.Name) and n.targets[0].id.isupper() and isinstance(n.value, ast.Constant) and isinstance(n.value.value, int):
            out[n.targets[0].id] = n.value.value
    return out


def _stem(slot):
    s = slot.lower()
    return s[:-1] if s.endswith("s") and s not in ("contents",) else s


def _slot_refs(node):
    """[(slotname, Attribute node)] for self.SLOT / cls.SLOT"""
    out = []
    for a in ast.walk(node):
        if isinstance(a, ast.Attribute) and isinstance(a.value, ast.Name) and a.value.id in ("self", "cls") and a.attr.isupper():
            out.append((a.attr, a))
    return out


def rule_numba_slots(rep, floor=60):
    r = rep.rule("TABLE.numba-slots", "for every numba ContentType: slot constants are 0..n-1 without gaps; tolookup/form_tolookup append exactly n-1 entries after the identities slot, the k-th being the buffer "
                 "named like slot k (or the None placeholder later filled through positions[pos + cls.SLOT]); and wherever a slot constant is used, a variable bound from or stored into that slot that carries a slot stem "
                 "carries the stem of that slot (startspos <- self.STARTS, ... = stops never into STARTS)", floor=floor)
    m = pf.module(LAYOUT)
    ncls = 0
    for cname, cls in sorted(m.classes.items()):
        if "." in cname or not cname.endswith("Type") or cname == "ContentType":
            continue
        slots = _slots(cls)
        if not slots or "IDENTITIES" not in slots:
            continue
        ncls += 1
        where = m.where(cls)
        vals = sorted(slots.values())
        r.check(vals == list(range(len(vals))) and slots["IDENTITIES"] == 0, cname + ":contiguous", where, "%s slot constants %s are not 0..n-1 with IDENTITIES = 0" % (cname, slots), detail=str(slots))
        byidx = {v: k for k, v in slots.items()}
        stems = {_stem(k) for k in slots if k != "IDENTITIES"}
        for meth in ("tolookup", "form_tolookup"):
            f = m.funcs.get("%s.%s" % (cname, meth))
            if f is None:
                continue
            appends = [c for c in ast.walk(f) if isinstance(c, ast.Call) and isinstance(c.func, ast.Attribute) and c.func.attr == "append" and isinstance(c.func.value, ast.Name) and c.func.value.id == "positions"]
            appends.sort(key=lambda c: (c.lineno, c.col_offset))
            loops = [c for c in appends if any(isinstance(p, (ast.For, ast.While)) for p in pf.parent_chain(c))]
            straight = [c for c in appends if c not in loops]
            key = "%s.%s" % (cname, meth)
            nslots = len(slots) - 1
            # slots filled in a loop (CONTENTS of records/unions): allowed only for the last slot
            want_straight = nslots if not loops else nslots - 1 + 0
            if loops and byidx[len(slots) - 1] not in ("CONTENTS",):
                r.fail(key + ":loop", m.where(f), "%s appends positions in a loop but its last slot is %s" % (key, byidx[len(slots) - 1]))
                continue
            if byidx[len(slots) - 1] == "CONTENTS":
                r.ok(key + ":count", "variable-length CONTENTS tail (one entry per content); fixed slots checked by name below")
            else:
                r.check(len(straight) == nslots, key + ":count", m.where(f), "%s appends %d position entries for %d slots after IDENTITIES" % (key, len(straight), nslots), detail="%d appends" % len(straight))
            for k, c in enumerate(straight[:nslots], start=1):
                slot = byidx.get(k)
                if slot is None:
                    continue
                arg = c.args[0] if c.args else None
                txt = ast.unparse(arg) if arg is not None else ""
                if isinstance(arg, ast.Constant):
                    continue  # None / 0 placeholder
                st = {s for s in stems if s in txt.lower()}
                if st:
                    r.check(_stem(slot) in st, "%s:append%d" % (key, k), m.where(c), "%s appends '%s' as entry %d, which is slot %s" % (key, txt, k, slot), detail="entry %d = %s for slot %s" % (k, txt, slot))
        # uses of slot constants
        for q, f in sorted(m.funcs.items()):
            if not q.startswith(cname + "."):
                continue
            for node in ast.walk(f):
                tgt = val = None
                if isinstance(node, ast.Assign) and len(node.targets) == 1:
                    tgt, val = node.targets[0], node.value
                else:
                    continue
                # v = f(..., self.SLOT)   /  X[pos + self.SLOT] = v
                refs_v = _slot_refs(val)
                refs_t = _slot_refs(tgt)
                if isinstance(tgt, ast.Name) and len(refs_v) == 1 and refs_v[0][0] in slots:
                    slot = refs_v[0][0]
                    name = tgt.id.lower()
                    st = {s for s in stems if s in name}
                    if st and slot != "IDENTITIES":
                        r.check(_stem(slot) in st, "%s:%s<-%s" % (q, tgt.id, slot), m.where(node), "%s binds '%s' from slot %s" % (q, tgt.id, slot), detail="%s <- %s" % (tgt.id, slot))
                if isinstance(tgt, ast.Subscript) and len(refs_t) == 1 and refs_t[0][0] in slots and isinstance(val, (ast.Name, ast.Attribute)):
                    slot = refs_t[0][0]
                    name = ast.unparse(val).lower()
                    st = {s for s in stems if s in name}
                    if st and slot != "IDENTITIES":
                        r.check(_stem(slot) in st, "%s:%s->%s" % (q, ast.unparse(val), slot), m.where(node), "%s stores '%s' into slot %s" % (q, ast.unparse(val), slot), detail="%s -> %s" % (ast.unparse(val), slot))
    if ncls < 10:
        raise AnalysisError("only %d ContentType classes with slot tables found" % ncls)
    r.count("content_types", ncls)
    return r.done()


def rule_numba_getitem(rep, floor=8):
    r = rep.rule("GUARD.numba-getitem_at", "every ContentType.lower_getitem_at that reads a buffer element calls regularize_atval (negative wrap + bounds check) on the index before the first element read that uses it", floor=floor)
    m = pf.module(LAYOUT)
    for q, f in sorted(m.funcs.items()):
        if not q.endswith(".lower_getitem_at") or q.count(".") != 1:
            continue
        calls = [c for c in ast.walk(f) if isinstance(c, ast.Call) and isinstance(c.func, ast.Name) and c.func.id in ("regularize_atval", "getat")]
        calls.sort(key=lambda c: (c.lineno, c.col_offset))
        reg = [c for c in calls if c.func.id == "regularize_atval"]
        # element reads: getat(...) whose offset argument mentions atval
        reads = [c for c in calls if c.func.id == "getat" and len(c.args) >= 4 and any(isinstance(x, ast.Name) and x.id in ("atval",) for x in ast.walk(c.args[3]))]
        if not reads:
            delegating = any(isinstance(c, ast.Call) and isinstance(c.func, ast.Attribute) and c.func.attr in ("lower_getitem_at", "lower_getitem_at_check") for c in ast.walk(f))
            if reg or delegating:
                r.ok(q, "no direct element read with the raw index")
            else:
                r.excepted(q, "neither reads an element with atval nor regularises (e.g. union/virtual: delegates)")
            continue
        first_read = min((c.lineno, c.col_offset) for c in reads)
        ok = bool(reg) and min((c.lineno, c.col_offset) for c in reg) < first_read
        # the regularised value must be what is used: atval is re-bound from regularize_atval
        rebound = any(isinstance(n, ast.Assign) and isinstance(n.targets[0], ast.Name) and n.targets[0].id == "atval" and isinstance(n.value, ast.Call) and getattr(n.value.func, "id", None) == "regularize_atval" for n in ast.walk(f))
        r.check(ok and rebound, q, m.where(f), "%s reads an element at atval without first re-binding atval = regularize_atval(...)" % q, detail="atval = regularize_atval(...) precedes the read")
    return r.done()


def rule_capi_table(rep, fb, floor=40):
    r = rep.rule("TABLE.arraybuilder-capi", "the extern \"C\" awkward_ArrayBuilder_* functions (ArrayBuilder.cpp), their ctypes declarations in _libawkward.py and the calls lowered in _connect/_numba/builder.py agree: "
                 "same names, same arity, matching C/ctypes argument types, uint8 status result", floor=floor)
    cfun = {}
    for f in fb.lib_funcs():
        if f["name"].startswith("awkward_ArrayBuilder_") and "libawkward" in f["file"]:
            cfun[f["name"]] = f
    if len(cfun) < 18:
        raise AnalysisError("only %d extern C ArrayBuilder functions found" % len(cfun))
    m = pf.module("_libawkward.py")
    decl = {}
    cur = {}
    for n in m.tree.body:
        if isinstance(n, ast.Assign) and len(n.targets) == 1:
            t = n.targets[0]
            if isinstance(t, ast.Name) and isinstance(n.value, ast.Attribute) and isinstance(n.value.value, ast.Name) and n.value.value.id == "lib":
                decl[t.id] = {"sym": n.value.attr, "node": n}
            elif isinstance(t, ast.Attribute) and isinstance(t.value, ast.Name) and t.value.id in decl:
                decl[t.value.id][t.attr] = n.value
    CT = {"c_voidp": ("void *",), "c_void_p": ("void *",), "c_int64": ("int64_t",), "c_uint8": ("uint8_t", "bool"), "c_double": ("double",), "c_char_p": ("const char *",), "c_bool": ("bool",)}
    for pyname, d in sorted(decl.items()):
        sym = d["sym"]
        key = "ctypes:" + sym
        f = cfun.get(sym)
        if not r.check(f is not None, key, m.where(d["node"]), "_libawkward.py declares %s which ArrayBuilder.cpp does not define" % sym):
            continue
        at = d.get("argtypes")
        if not isinstance(at, ast.List):
            r.fail(key + ":argtypes", m.where(d["node"]), "%s has no argtypes list" % pyname)
            continue
        got = []
        for e in at.elts:
            s = ast.unparse(e)
            mm = re.match(r"ctypes\.POINTER\(ctypes\.(\w+)\)$", s)
            if mm:
                got.append(tuple(x + " *" for x in CT.get(mm.group(1), ("?",))))
            else:
                got.append(CT.get(s.replace("ctypes.", ""), ("?" + s,)))
        want = [t.replace("const ", "const ").strip() for _, t in f["params"]]
        def same(g, w):
            g2, w2 = g.replace("const ", "").replace(" ", ""), w.replace("const ", "").replace(" ", "")
            return g2 == w2 or (g2 == "void*" and w2.endswith("*"))
        ok = len(got) == len(want) and all(any(same(g, w) for g in gs) for gs, w in zip(got, want))
        r.check(ok, key + ":types", m.where(d["node"]), "%s: ctypes argtypes %s do not match the C parameters %s" % (sym, [g[0] for g in got], want), detail="%d parameters agree" % len(want))
        rt = d.get("restype")
        r.check(rt is not None and ast.unparse(rt).endswith("c_uint8") and f["ret"].replace("const ", "") in ("uint8_t",), key + ":restype", m.where(d["node"]), "%s: restype %s vs C return type %s" % (sym, ast.unparse(rt) if rt is not None else None, f["ret"]))
    # builder.py lowering: call(builder, ak._libawkward.ArrayBuilder_x, (args...)) : arity = C arity
    b = pf.module("_connect/_numba/builder.py")
    n = 0
    for c in ast.walk(b.tree):
        if isinstance(c, ast.Call) and isinstance(c.func, ast.Name) and c.func.id == "call" and len(c.args) >= 3:
            fnref = pf.dotted(c.args[2]) or pf.dotted(c.args[1]) or ""
            for a in c.args:
                d_ = pf.dotted(a) or ""
                if "_libawkward.ArrayBuilder_" in d_:
                    fnref = d_
            if "_libawkward.ArrayBuilder_" not in fnref:
                continue
            pyname = fnref.split(".")[-1]
            tup = [a for a in c.args if isinstance(a, ast.Tuple)]
            if pyname not in decl or not tup:
                r.fail("lowering:%s" % pyname, b.where(c), "builder.py lowers a call to %s, which _libawkward.py does not declare" % pyname)
                continue
            n += 1
            f = cfun.get(decl[pyname]["sym"])
            if f is None:
                continue
            r.check(len(tup[0].elts) == len(f["params"]), "lowering:%s#%d" % (pyname, n), b.where(c), "builder.py passes %d arguments to %s, which takes %d" % (len(tup[0].elts), decl[pyname]["sym"], len(f["params"])),
                    detail="%d arguments" % len(f["params"]))
    r.count("lowered_calls", n)
    return r.done()
