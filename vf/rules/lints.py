"""Contradiction / deviance lints over libawkward methods (Engler-style: the code states a belief in one place
and breaks it in another).  Each was written after a genuine defect of that shape was confirmed on the pinned tree;
each is a structural necessary condition on named constructs."""
from ..facts import find_all
from ..core import AnalysisError, load_table
from . import callsites as cs


def _terminates(block):
    """every path through the block ends in return/throw (syntactic: last statement is terminal)"""
    if not block:
        return False
    s = block[-1]
    if s[0] in ("return", "throw"):
        return True
    if s[0] == "if":
        return bool(s[3]) and _terminates(s[2]) and _terminates(s[3])
    if s[0] == "expr" and find_all(s[1], lambda k: k[0] == "call" and k[1][0] == "fn" and str(k[1][1]).endswith("handle_error")) and False:
        return False
    return False


# ------------------------------------------------------------------------------------------------
# L-1  a family dispatch written as two chains: the first chain's members fall into the second chain's `else throw`

def _family_of(cond):
    """('trait', template-parameter) for is_same<T,X>::value tests, ('cast', source) for `if (X* raw = dynamic_cast<X*>(src))`"""
    if cond[0] == "trait" and cond[1].startswith("is_same<"):
        return ("trait", cond[1][len("is_same<"):].split(",")[0])
    if cond[0] == "declcond" and cond[3] is not None and cond[3][0] == "cast" and cond[3][1] == "dynamic":
        return ("cast", repr(cond[3][3]))
    if cond[0] == "bin" and cond[1] == "||":
        a, b = _family_of(cond[2]), _family_of(cond[3])
        return a if a == b else None
    if cond[0] == "cast" and cond[1] == "dynamic":
        return ("cast", repr(cond[3]))
    if cond[0] == "bin" and cond[1] in ("!=", "==") and cond[3] in (("const", 0), ("nullptr",), ("const", "nullptr")):
        return _family_of(cond[2])
    return None


def _chain(s):
    """[(cond, then-block), ...], final-else-block-or-None for an if / else-if chain"""
    arms = []
    while True:
        arms.append((s[1], s[2]))
        el = s[3]
        if el and len(el) == 1 and el[0][0] == "if":
            s = el[0]
            continue
        return arms, (el if el else None)


def rule_chain_broken(rep, fb, floor=20, only=None, name="FAMILY.chain-complete"):
    r = rep.rule(name, "when a dispatch over one family (is_same<T,..> tests of one template parameter, or dynamic_casts of one pointer) is immediately followed by a second chain over the same family that ends in "
                 "`else throw`, every arm of the first chain leaves the function; otherwise the first chain's members are handled and then rejected by the second chain's else", floor=floor)
    for f in fb.lib_funcs(inst=False):
        if only and not only(f):
            continue
        cnt = [0]

        def onblock(stmts, cont, f=f, cnt=cnt):
            for i in range(len(stmts)):
                a = stmts[i]
                if a[0] != "if":
                    continue
                arms_a, else_a = _chain(a)
                fams_a = {_family_of(c) for c, _ in arms_a}
                if len(fams_a) != 1 or None in fams_a:
                    continue
                fam = next(iter(fams_a))
                cnt[0] += 1
                key = "%s#%s#%d" % (f["qual"], fam[0], cnt[0])
                where = "%s:%d" % (f["file"], a[-1])
                if else_a is not None or i + 1 >= len(stmts) or stmts[i + 1][0] != "if":
                    r.ok(key, "chain closed by its own else or not followed by another chain")
                    continue
                arms_b, else_b = _chain(stmts[i + 1])
                fams_b = {_family_of(c) for c, _ in arms_b}
                if fams_b != {fam} or else_b is None or not _terminates(else_b) or else_b[-1][0] != "throw":
                    r.ok(key, "next statement is not a same-family chain ending in else-throw")
                    continue
                subj = set()
                if fam[0] == "cast":
                    for c, _ in arms_a:
                        for k in find_all(c, lambda k: k[0] == "cast" and k[1] == "dynamic"):
                            subj |= {v[1] for v in find_all(k[3], lambda m: m[0] == "var")}

                def rebinds(blk):
                    # `if (VirtualArray* raw = dynamic_cast<..>(x)) { x = raw->array(); }`: the arm replaces the subject and the next chain classifies the replacement
                    return bool(find_all(blk, lambda k: k[0] == "assign" and k[1][0] == "var" and k[1][1] in subj))
                open_arms = [c for c, blk in arms_a if not _terminates(blk) and not rebinds(blk)]
                r.check(not open_arms, key, where,
                        "%s: the chain at line %d handles %d case(s) without leaving the function and is followed at line %d by a second chain over the same family whose else throws - those cases are always rejected (missing `else`?)"
                        % (f["qual"], a[-1], len(open_arms), stmts[i + 1][-1]), detail="all arms of the first chain terminate")
        cs.each_block_cont(f["body"], onblock)
    return r.done()


# ------------------------------------------------------------------------------------------------
# L-2  an operation result bound to a local that nothing reads

_PURE_PRODUCERS = ("getitem_range_nowrap", "getitem_range", "carry", "project", "simplify_optiontype", "simplify_uniontype", "toListOffsetArray64", "toRegularArray",
                   "toIndexedOptionArray64", "toByteMaskedArray", "shallow_copy", "deep_copy", "getitem_next", "getitem_at_nowrap", "getitem_at", "mergemany", "merge",
                   "compact_offsets64", "broadcast_tooffsets64", "rpad", "rpad_and_clip", "fillna", "num", "localindex", "content", "field", "contents", "offsets", "starts", "stops",
                   "index", "mask", "bytemask", "to64", "numbers_to_type", "flatten", "offsets_and_flattened", "nextcarry_outindex", "getitem_nothing", "array", "snapshot", "form", "type")


def rule_unused_result(rep, fb, floor=300, only=None, name="DEAD.result-local"):
    r = rep.rule(name, "a local initialised from a layout operation (slice, carry, project, simplify, conversion, accessor ...) is read somewhere: such operations have no effect but their result, so a result nobody reads "
                 "means a later statement uses the unprocessed operand instead", floor=floor)
    for f in fb.lib_funcs(inst=False):
        if only and not only(f):
            continue
        cnt = {}

        def onblock(stmts, cont, f=f, cnt=cnt):
            for i, d in enumerate(stmts):
                if d[0] != "decl" or d[3] is None:
                    continue
                # the outermost operation decides (a kernel call taking x.data() is not a pure producer)
                top = d[3]
                while top[0] in ("cast", "deref") or (top[0] == "mcall" and top[1] == "get"):
                    top = top[1] if top[0] == "deref" else top[3]
                if not (top[0] == "mcall" and top[1] in _PURE_PRODUCERS):
                    continue
                cnt[d[1]] = cnt.get(d[1], 0) + 1
                key = "%s#%s#%d" % (f["qual"], d[1], cnt[d[1]])
                # scope of the local: the rest of its block (nested blocks and lambdas included)
                read = bool(find_all(tuple(stmts[i + 1:]), lambda k: k == ("var", d[1])))
                r.check(read, key, "%s:%d" % (f["file"], d[-1]),
                        "%s: local '%s' holds the result of %s(...) but nothing in its scope reads it - the statements after it use the unprocessed operand" % (f["qual"], d[1], top[1]),
                        detail="read in its scope")
        cs.each_block_cont(f["body"], onblock)
    return r.done()


# ------------------------------------------------------------------------------------------------
# L-3  sentinel-initialised accumulation over a possibly empty collection escapes without an emptiness guard

def _neg_const(e):
    if e is None:
        return False
    if e[0] == "const" and isinstance(e[1], (int, float)) and e[1] < 0:
        return True
    if e[0] == "un" and e[1] == "-" and e[2][0] == "const":
        return True
    if e[0] == "cast":
        return _neg_const(e[3])
    return False


def _empty_test(e, roots):
    """the condition tests emptiness/size of one of the named collections (or of the record's own fields)"""
    def p(k):
        if k[0] != "mcall" or k[1] not in ("empty", "size", "numfields"):
            return False
        if k[1] == "numfields":
            return True
        rv = {v[1] for v in find_all(k[3], lambda m: m[0] == "var")} | {m[2] for m in find_all(k[3], lambda m: m[0] == "member")}
        return bool(rv & roots)
    return bool(find_all(e, p))


def rule_sentinel_guard(rep, fb, floor=4, classes=("RecordArray", "RecordForm", "Record", "RecordBuilder", "TupleBuilder", "RecordType"), name="SENTINEL.empty-guard"):
    r = rep.rule(name, "in record classes (where zero fields is a valid state) a local initialised to a negative sentinel and assigned only inside a loop over the fields is used after the loop only "
                 "under an emptiness test of the collection or a test of the sentinel itself (cf. the file-local minlength() helper): otherwise a zero-field record yields the sentinel as a length or depth", floor=floor)
    for f in fb.lib_funcs(inst=False):
        cls = f["qual"].split("::")[0]
        if cls not in classes and not (f["file"].endswith("RecordArray.cpp")):
            continue
        cnt = {}

        def onblock(stmts, cont, f=f, cnt=cnt):
            for i, s in enumerate(stmts):
                if not (s[0] == "decl" and _neg_const(s[3])):
                    continue
                v = s[1]
                rest = stmts[i + 1:]
                # assignments only inside loops that follow in this block
                loops = [(j, t) for j, t in enumerate(rest) if t[0] in ("foreach", "for", "while") and find_all(t, lambda k: k[0] == "assign" and k[1] == ("var", v))]
                outside = [t for t in rest if t[0] not in ("foreach", "for", "while") and find_all(t, lambda k: k[0] in ("assign", "aug") and k[1] == ("var", v))]
                if not loops:
                    continue
                last = loops[-1][0]
                after = rest[last + 1:]
                roots = {"contents_", "contents", "recordlookup_", "keys_"}
                for _, lp in loops:
                    if lp[0] == "foreach":
                        roots |= {v[1] for v in find_all(lp[3], lambda m: m[0] == "var")} | {m[2] for m in find_all(lp[3], lambda m: m[0] == "member")}
                uses = [t for t in after if find_all(t, lambda k: k == ("var", v))]
                if not uses:
                    continue
                guarded = False
                # (a) an enclosing or preceding `if` tests emptiness of a collection
                for blk, idx in [(stmts, i)] + [(pb, pi) for pb, pi, pk in cont]:
                    for p in blk[:idx]:
                        if p[0] == "if" and _empty_test(p[1], roots) and (cs.has_exit(p) or p[3]):
                            guarded = True
                    if blk is not stmts and blk[idx][0] == "if" and _empty_test(blk[idx][1], roots):
                        guarded = True
                # (a') the sentinel is replaced under an emptiness test (`if (fields.empty()) { v = ...; }`); any other assignment outside the loops means this is not the pattern
                if outside:
                    if all(t[0] == "if" and (_empty_test(t[1], roots) or find_all(t[1], lambda k: k == ("var", v))) for t in outside):
                        guarded = True
                    else:
                        continue
                # (b) the sentinel itself is tested after the loop before/at the use
                for t in after:
                    if t[0] == "if" and find_all(t[1], lambda k: k == ("var", v)):
                        guarded = True
                        break
                    if t in uses:
                        break
                cnt[v] = cnt.get(v, 0) + 1
                key = "%s#%s#%d" % (f["qual"], v, cnt[v])
                r.check(guarded, key, "%s:%d" % (f["file"], s[-1]),
                        "%s: '%s' starts at a negative sentinel, is assigned only inside the loop at line %d and is used at line %d with no test for an empty collection or for the sentinel - a zero-field record gives %s = sentinel"
                        % (f["qual"], v, loops[-1][1][-1], uses[0][-1], v), detail="guarded by emptiness or sentinel test")
        cs.each_block_cont(f["body"], onblock)
    return r.done()


# ------------------------------------------------------------------------------------------------
# L-4  a buffer produced for length() (first dimension) items is wrapped under the full n-dimensional shape

def _ndim_test(e):
    def p(k):
        if k[0] != "mcall":
            return False
        if k[1] in ("ndim", "isscalar"):
            return True
        if k[1] in ("size", "empty") and "shape" in repr(k[3]):
            return True
        return False
    return bool(find_all(e, p))


def _numpy_recv(recv, f, decls):
    if recv == ("this",):
        return f["qual"].startswith("NumpyArray::")
    if recv[0] == "var":
        for d in decls.get(recv[1]) or []:
            if "NumpyArray" in str(d[2]):
                return True
    return False


def rule_flat_length(rep, fb, floor=8, name="SHAPE.flat-length"):
    r = rep.rule(name, "in NumpyArray methods, a buffer that is wrapped under an n-dimensional shape (the array's own shape_/shape()) is produced from the flattened item count: the producing call does not take "
                 "X.length() (the first dimension only) as its item count unless the method has established ndim() == 1 - otherwise the new array claims prod(shape) items of a shape[0]-item allocation", floor=floor)
    table = load_table("flatlength_exceptions.json")
    fs = [f for f in fb.lib_funcs(inst=False) if f["qual"].startswith("NumpyArray::")]
    if len(fs) < 50:
        raise AnalysisError("NumpyArray methods not found")
    for f in fs:
        decls = cs.local_decls(f)
        cnt = [0]

        def onblock(stmts, cont, f=f, decls=decls, cnt=cnt):
            for i, s in enumerate(stmts):
                for m in find_all(tuple(cs.head_exprs(s)), lambda k: k[0] in ("make", "ctor") and "NumpyArray" in str(k[1]) and len(k[2]) >= 5):
                    a = m[2]
                    if a[2][0] != "var":
                        continue
                    shape = a[3]
                    # one-dimensional by construction: vector<ssize_t>({n})
                    if shape[0] == "ctor" and "vector" in str(shape[1]):
                        continue
                    if shape[0] == "var":
                        ds = decls.get(shape[1]) or []
                        if ds and all(d[3] is not None and d[3][0] == "ctor" and "vector" in str(d[3][1]) and d[3][2] and d[3][2][0][0] == "list" and len(d[3][2][0][1]) == 1 for d in ds) \
                                and not find_all(f["body"], lambda k: k[0] == "mcall" and k[1] in ("push_back", "insert", "emplace_back") and k[3] == shape):
                            continue
                    ptr = a[2][1]
                    cnt[0] += 1
                    key = "%s#%s#%d" % (f["qual"], ptr, cnt[0])
                    where = "%s:%d" % (f["file"], m[-1] if isinstance(m[-1], int) else s[-1])
                    # producers of ptr: its initialiser / assignments, and calls that receive ptr.get() as destination
                    prods = []
                    for d in find_all(f["body"], lambda k: (k[0] == "decl" and k[1] == ptr and k[3] is not None) or (k[0] == "assign" and k[1] == ("var", ptr))):
                        prods.append(d[3] if d[0] == "decl" else d[2])
                    for c in find_all(f["body"], lambda k: k[0] in ("call", "mcall")):
                        args = c[2] if c[0] == "call" else c[4]
                        if any(find_all(x, lambda k: k == ("var", ptr)) for x in args):
                            prods.append(c)
                    bad = []
                    for pr in prods:
                        for c in find_all(pr, lambda k: k[0] in ("call", "mcall")):
                            args = c[2] if c[0] == "call" else c[4]
                            for x in args:
                                y = x
                                while y[0] in ("cast", "narrow"):
                                    y = y[3]
                                if y[0] == "mcall" and y[1] == "length" and _numpy_recv(y[3], f, decls):
                                    bad.append(c)
                    if not bad:
                        r.ok(key, "no producer sized by a first-dimension length()")
                        continue
                    guarded = False
                    for blk, idx in [(stmts, i)] + [(pb, pi) for pb, pi, pk in cont]:
                        for p in blk[:idx]:
                            if p[0] == "if" and _ndim_test(p[1]):
                                guarded = True
                        if blk is not stmts and blk[idx][0] == "if" and _ndim_test(blk[idx][1]):
                            guarded = True
                    c0 = bad[0]
                    if not guarded and key in table:
                        r.excepted(key, table[key])
                        r.ok(key, "listed exception")
                        continue
                    r.check(guarded, key, where,
                            "%s: buffer '%s' is produced by %s(...) for X.length() items (first dimension only, line %d) and then wrapped under the full shape at line %s with no ndim()==1 test on the path: "
                            "for an n-d array the result claims prod(shape) items of a shape[0]-item buffer"
                            % (f["qual"], ptr, c0[1] if c0[0] == "mcall" else c0[1][1], c0[-1], where.split(":")[-1]), detail="producer sized by flat length or ndim-guarded")
        cs.each_block_cont(f["body"], onblock)
    return r.done()


# ------------------------------------------------------------------------------------------------
# L-5  inside `case util::dtype::X:` the element type spelled in template arguments / pointer casts is X's C type

_CTYPE = {"boolean": "bool", "int8": "int8_t", "int16": "int16_t", "int32": "int32_t", "int64": "int64_t", "uint8": "uint8_t", "uint16": "uint16_t", "uint32": "uint32_t",
          "uint64": "uint64_t", "float16": None, "float32": "float", "float64": "double", "float128": None, "complex64": "complex<float>", "complex128": "complex<double>",
          "complex256": None, "datetime64": "int64_t", "timedelta64": "int64_t"}
_ALLC = {v for v in _CTYPE.values() if v}


def _elem_types(body):
    """numeric element types named in explicit template arguments and casts of the arm (nested dtype switches excluded: they are arms of their own)"""
    types = set()

    def rec(x):
        if isinstance(x, tuple):
            if x and x[0] == "switch":
                return
            if x and x[0] == "call" and len(x[1]) > 2:
                ta = x[1][2]
                for t in (ta if isinstance(ta, (tuple, list)) else [ta]):
                    types.add(str(t).replace("std::", ""))
            if x and x[0] == "cast":
                types.add(str(x[2]).replace("const ", "").replace(" *", "").replace("*", "").strip())
            for y in x:
                rec(y)
    rec(body)
    return {t for t in types if t in _ALLC}


def rule_dtype_case(rep, fb, floor=120, name="DTYPE.case-type"):
    r = rep.rule(name, "in a switch over util::dtype, the arm for dtype X reinterprets the buffer and instantiates its helper with X's C element type (and otherwise only with the type of an enclosing "
                 "dtype arm, i.e. the conversion target): a copy-pasted arm with a neighbouring type reads the buffer with the wrong width/signedness", floor=floor)
    for f in fb.lib_funcs(inst=False):
        cnt = {}

        def visit(stmts, outer, f=f, cnt=cnt):
            for s in stmts:
                if s[0] == "switch":
                    for labels, body in s[2]:
                        dts = [l[1].split("::")[-1] for l in labels if isinstance(l, tuple) and l[0] == "enum" and "dtype::" in l[1]]
                        if not dts:
                            visit(body, outer)
                            continue
                        exp = {_CTYPE.get(d) for d in dts}
                        types = _elem_types(body)
                        if types:
                            k0 = ",".join(dts)
                            cnt[k0] = cnt.get(k0, 0) + 1
                            key = "%s#case %s#%d" % (f["qual"], k0, cnt[k0])
                            r.check(types <= (exp | outer) and bool(types & exp), key, "%s:%d" % (f["file"], s[-1]),
                                    "%s: the arm `case util::dtype::%s` of the switch at line %d names element type(s) %s (expected %s%s)"
                                    % (f["qual"], k0, s[-1], sorted(types), sorted(x for x in exp if x), (" or enclosing " + str(sorted(outer))) if outer else ""),
                                    detail="arm names exactly its own C type")
                        visit(body, outer | {x for x in exp if x})
                else:
                    for b in cs.sub_blocks(s):
                        visit(b, outer)
        visit(f["body"], set())
    return r.done()


# ------------------------------------------------------------------------------------------------
# L-6  no two arms of one family dispatch test the same member

def _disj(e):
    if e[0] == "bin" and e[1] == "||":
        return _disj(e[2]) + _disj(e[3])
    return [e]


def _noline(x):
    if isinstance(x, tuple):
        if x and x[0] in ("call", "mcall", "ctor", "make") and isinstance(x[-1], int):
            x = x[:-1]
        return tuple(_noline(y) for y in x)
    return x


def rule_distinct_arms(rep, fb, floor=300, name="FAMILY.distinct-arms"):
    r = rep.rule(name, "within one if/else-if chain (and within each ||-list of it) no two tests name the same dynamic_cast target or the same is_same<> member: a repeated member means the arm meant for "
                 "a sibling (e.g. the U32 variant) is unreachable and that sibling falls through to the chain's else", floor=floor)
    for f in fb.lib_funcs(inst=False):
        cnt = [0]

        def onblock(stmts, cont, f=f, cnt=cnt):
            for s in stmts:
                if s[0] != "if":
                    continue
                arms, _ = _chain(s)
                tests = []
                for c, _b in arms:
                    cc = c[3] if c[0] == "declcond" else c
                    if cc is None:
                        continue
                    for d in _disj(cc):
                        if d[0] == "trait" or find_all(d, lambda k: k[0] == "cast" and k[1] == "dynamic"):
                            tests.append(_noline(d))
                if len(tests) < 2:
                    continue
                cnt[0] += 1
                key = "%s#chain%d" % (f["qual"], cnt[0])
                dup = [t for t in set(tests) if tests.count(t) > 1]
                r.check(not dup, key, "%s:%d" % (f["file"], s[-1]), "%s: the dispatch chain at line %d tests %s more than once" % (f["qual"], s[-1], str(dup[0])[:120] if dup else ""),
                        detail="all tests distinct")
        cs.each_block_cont(f["body"], onblock)
    return r.done()


# ------------------------------------------------------------------------------------------------
# L-7  running-offset fills: position counter advanced by exactly the length just written, total = sum of the same lengths

def _norm_len(e, alias):
    """normal form of a per-operand length expression: smart-pointer plumbing, casts, class qualifiers and line numbers dropped;
    a pointer obtained by dynamic_cast of the loop operand is the operand"""
    h = e[0]
    if h in ("deref", "addr"):
        return _norm_len(e[1], alias)
    if h in ("cast", "narrow"):
        return _norm_len(e[3], alias)
    if h == "mcall":
        if e[1] == "get" and not e[4]:
            return _norm_len(e[3], alias)
        return ("m", e[1], _norm_len(e[3], alias), tuple(_norm_len(a, alias) for a in e[4]))
    if h == "var":
        return ("var", alias.get(e[1], e[1]))
    if h == "bin":
        return ("bin", e[1], _norm_len(e[2], alias), _norm_len(e[3], alias))
    if h == "idx":
        return ("idx", _norm_len(e[1], alias), _norm_len(e[2], alias))
    return _noline(e)


def rule_fill_accumulate(rep, fb, floor=20, name="PAIR.fill-accumulate"):
    r = rep.rule(name, "in a loop that appends operands into one output buffer through `*_fill*` kernels at a running position counter: (a) the counter passed as the kernel's `*offset` parameter is advanced in the same arm, "
                 "after the call; (b) it is advanced by exactly the `length` the kernel was told to write; (c) the buffer's total (accumulated in the sizing loop over the same operands) adds the same per-operand length", floor=floor)
    api = cs.kernel_api(fb)
    for f in fb.lib_funcs(inst=False):
        loops = find_all(f["body"], lambda k: k[0] in ("foreach", "for"))
        if not loops:
            continue
        # sizing accumulations anywhere in the function: total += E
        totals = {}
        for a in find_all(f["body"], lambda k: k[0] == "aug" and k[1] == "+" and k[2][0] == "var" and k[2][1].startswith("total")):
            totals.setdefault(a[2][1], []).append(a)
        cnt = {}
        for lp in loops:
            body = lp[4] if lp[0] == "foreach" else lp[2]
            # nested loops are visited on their own
            opvar = lp[1] if lp[0] == "foreach" else None

            def onblock(stmts, cont, f=f, lp=lp, opvar=opvar):
                alias = {}
                # aliases from enclosing `if (X* raw = dynamic_cast<X*>(operand.get()))`
                for pb, pi, pk in cont:
                    st = pb[pi]
                    if st[0] == "if" and st[1][0] == "declcond":
                        src = {v[1] for v in find_all(st[1][3] or (), lambda m: m[0] == "var")}
                        if opvar and opvar in src:
                            alias[st[1][1]] = opvar
                for i, s in enumerate(stmts):
                    if s[0] in ("foreach", "for", "while"):
                        continue
                    for c in find_all(tuple(cs.head_exprs(s)), lambda k: k[0] == "call" and k[1][0] == "fn" and "fill" in str(k[1][1]).lower() and str(k[1][1]) in api):
                        ov = api[c[1][1]]["overloads"]
                        names = ov[0][0]
                        args = c[2]
                        if len(names) != len(args):
                            continue
                        lenarg = None
                        for nme, a in zip(names, args):
                            if nme == "length":
                                lenarg = a
                        for nme, a in zip(names, args):
                            if not nme.endswith("offset") or a[0] != "var":
                                continue
                            ctr = a[1]
                            k0 = (c[1][1], ctr)
                            cnt[k0] = cnt.get(k0, 0) + 1
                            key = "%s#%s#%s#%d" % (f["qual"], c[1][1].replace("kernel::", ""), ctr, cnt[k0])
                            where = "%s:%d" % (f["file"], c[-1])
                            incs = [t for t in stmts[i + 1:] if t[0] == "aug" and t[1] == "+" and t[2] == ("var", ctr)]
                            if not incs:
                                # the increment may sit after the if-chain, at loop-body level
                                for pb, pi, pk in cont:
                                    incs += [t for t in pb[pi + 1:] if t[0] == "aug" and t[1] == "+" and t[2] == ("var", ctr)]
                                    if pb is body:
                                        break
                            if not incs:
                                r.fail(key, where, "%s: %s writes at position `%s` but the arm never advances `%s` afterwards - the next operand overwrites this one" % (f["qual"], c[1][1], ctr, ctr))
                                continue
                            inc = _norm_len(incs[0][3], alias)
                            if lenarg is not None and _norm_len(lenarg, alias) != inc:
                                r.fail(key, where, "%s: %s is told to write `length` = %s at position `%s`, but `%s` is then advanced by a different amount (line %d)"
                                       % (f["qual"], c[1][1], str(_norm_len(lenarg, alias))[:80], ctr, ctr, incs[0][-1]))
                                continue
                            # (d) complex targets are addressed in scalar units (two per item): the amount added to the counter is doubled first
                            targs = c[1][2] if len(c[1]) > 2 and isinstance(c[1][2], (tuple, list)) else ()
                            if targs and str(targs[-1]).replace("std::", "").startswith("complex") and incs[0][3][0] == "var":
                                iv = incs[0][3][1]
                                doubled = [t for t in stmts[i + 1:] if t[0] == "assign" and t[1] == ("var", iv) and t[2][0] == "bin" and t[2][1] == "*"
                                           and {repr(_noline(t[2][2])), repr(_noline(t[2][3]))} == {repr(("var", iv)), repr(("const", 2))}]
                                if not doubled:
                                    r.fail(key + "#units", where, "%s: %s fills a complex buffer (addressed in scalar units, two per item) but `%s` is not doubled before `%s` is advanced by it - later operands land too early"
                                           % (f["qual"], c[1][1], iv, ctr))
                                    continue
                            # (c) the sizing loop adds the same per-operand amount
                            okc = True
                            tot = None
                            if ctr.endswith("_so_far"):
                                stem = ctr[:-len("_so_far")]
                                tot = "total_" + stem
                            if tot and tot in totals:
                                okc = any(_norm_len(t[3], {}) == inc for t in totals[tot])
                            r.check(okc, key, where, "%s: `%s` is advanced by %s per operand but the sizing loop adds a different amount to `%s`" % (f["qual"], ctr, str(inc)[:80], tot),
                                    detail="advanced by the written length; total adds the same")
            cs.each_block_cont(body, onblock)
    return r.done()
