"""Contradiction / deviance lints over libawkward methods (Engler-style: the code states a belief in one place
and breaks it in another).  Each was written after a genuine defect of that shape was confirmed on the pinned tree;
each is a structural necessary condition on named constructs."""
import re
from ..facts import find_all
from ..core import AnalysisError, load_table
from . import callsites as cs


def _terminates(block):
    """every path through the block ends in return/throw (syntactic: last statement is terminal)"""
    if not block:
        return False
    s = block[-1]
    if s[0] in ("return", "throw"):
        return True
    if s[0] == "if":
        return bool(s[3]) and _terminates(s[2]) and _terminates(s[3])
    if s[0] == "expr" and find_all(s[1], lambda k: k[0] == "call" and k[1][0] == "fn" and str(k[1][1]).endswith("handle_error")) and False:
        return False
    return False


# ------------------------------------------------------------------------------------------------
# L-1  a family dispatch written as two chains: the first chain's members fall into the second chain's `else throw`

def _family_of(cond):
    """('trait', template-parameter) for is_same<T,X>::value tests, ('cast', source) for `if (X* raw = dynamic_cast<X*>(src))`"""
    if cond[0] == "trait" and cond[1].startswith("is_same<"):
        return ("trait", cond[1][len("is_same<"):].split(",")[0])
    if cond[0] == "declcond" and cond[3] is not None and cond[3][0] == "cast" and cond[3][1] == "dynamic":
        return ("cast", repr(cond[3][3]))
    if cond[0] == "bin" and cond[1] == "||":
        a, b = _family_of(cond[2]), _family_of(cond[3])
        return a if a == b else None
    if cond[0] == "cast" and cond[1] == "dynamic":
        return ("cast", repr(cond[3]))
    if cond[0] == "bin" and cond[1] in ("!=", "==") and cond[3] in (("const", 0), ("nullptr",), ("const", "nullptr")):
        return _family_of(cond[2])
    return None


def _chain(s):
    """[(cond, then-block), ...], final-else-block-or-None for an if / else-if chain"""
    arms = []
    while True:
        arms.append((s[1], s[2]))
        el = s[3]
        if el and len(el) == 1 and el[0][0] == "if":
            s = el[0]
            continue
        return arms, (el if el else None)


def rule_chain_broken(rep, fb, floor=20, only=None, name="FAMILY.chain-complete"):
    r = rep.rule(name, "when a dispatch over one family (is_same<T,..> tests of one template parameter, or dynamic_casts of one pointer) is immediately followed by a second chain over the same family that ends in "
                 "`else throw`, every arm of the first chain leaves the function; otherwise the first chain's members are handled and then rejected by the second chain's else", floor=floor)
    for f in fb.lib_funcs(inst=False):
        if only and not only(f):
            continue
        cnt = [0]

        def onblock(stmts, cont, f=f, cnt=cnt):
            for i in range(len(stmts)):
                a = stmts[i]
                if a[0] != "if":
                    continue
                arms_a, else_a = _chain(a)
                fams_a = {_family_of(c) for c, _ in arms_a}
                if len(fams_a) != 1 or None in fams_a:
                    continue
                fam = next(iter(fams_a))
                cnt[0] += 1
                key = "%s#%s#%d" % (f["qual"], fam[0], cnt[0])
                where = "%s:%d" % (f["file"], a[-1])
                if else_a is not None or i + 1 >= len(stmts) or stmts[i + 1][0] != "if":
                    r.ok(key, "chain closed by its own else or not followed by another chain")
                    continue
                arms_b, else_b = _chain(stmts[i + 1])
                fams_b = {_family_of(c) for c, _ in arms_b}
                if fams_b != {fam} or else_b is None or not _terminates(else_b) or else_b[-1][0] != "throw":
                    r.ok(key, "next statement is not a same-family chain ending in else-throw")
                    continue
                subj = set()
                if fam[0] == "cast":
                    for c, _ in arms_a:
                        for k in find_all(c, lambda k: k[0] == "cast" and k[1] == "dynamic"):
                            subj |= {v[1] for v in find_all(k[3], lambda m: m[0] == "var")}

                def rebinds(blk):
                    # `if (VirtualArray* raw = dynamic_cast<..>(x)) { x = raw->array(); }`: the arm replaces the subject and the next chain classifies the replacement
                    return bool(find_all(blk, lambda k: k[0] == "assign" and k[1][0] == "var" and k[1][1] in subj))
                open_arms = [c for c, blk in arms_a if not _terminates(blk) and not rebinds(blk)]
                r.check(not open_arms, key, where,
                        "%s: the chain at line %d handles %d case(s) without leaving the function and is followed at line %d by a second chain over the same family whose else throws - those cases are always rejected (missing `else`?)"
                        % (f["qual"], a[-1], len(open_arms), stmts[i + 1][-1]), detail="all arms of the first chain terminate")
        cs.each_block_cont(f["body"], onblock)
    return r.done()


# ------------------------------------------------------------------------------------------------
# L-2  an operation result bound to a local that nothing reads

_PURE_PRODUCERS = ("getitem_range_nowrap", "getitem_range", "carry", "project", "simplify_optiontype", "simplify_uniontype", "toListOffsetArray64", "toRegularArray",
                   "toIndexedOptionArray64", "toByteMaskedArray", "shallow_copy", "deep_copy", "getitem_next", "getitem_at_nowrap", "getitem_at", "mergemany", "merge",
                   "compact_offsets64", "broadcast_tooffsets64", "rpad", "rpad_and_clip", "fillna", "num", "localindex", "content", "field", "contents", "offsets", "starts", "stops",
                   "index", "mask", "bytemask", "to64", "numbers_to_type", "flatten", "offsets_and_flattened", "nextcarry_outindex", "getitem_nothing", "array", "snapshot", "form", "type")


def rule_unused_result(rep, fb, floor=300, only=None, name="DEAD.result-local"):
    r = rep.rule(name, "a local initialised from a layout operation (slice, carry, project, simplify, conversion, accessor ...) is read somewhere: such operations have no effect but their result, so a result nobody reads "
                 "means a later statement uses the unprocessed operand instead", floor=floor)
    for f in fb.lib_funcs(inst=False):
        if only and not only(f):
            continue
        cnt = {}

        def onblock(stmts, cont, f=f, cnt=cnt):
            for i, d in enumerate(stmts):
                if d[0] != "decl" or d[3] is None:
                    continue
                # the outermost operation decides (a kernel call taking x.data() is not a pure producer)
                top = d[3]
                while top[0] in ("cast", "deref") or (top[0] == "mcall" and top[1] == "get"):
                    top = top[1] if top[0] == "deref" else top[3]
                if not (top[0] == "mcall" and top[1] in _PURE_PRODUCERS):
                    continue
                cnt[d[1]] = cnt.get(d[1], 0) + 1
                key = "%s#%s#%d" % (f["qual"], d[1], cnt[d[1]])
                # scope of the local: the rest of its block (nested blocks and lambdas included)
                read = bool(find_all(tuple(stmts[i + 1:]), lambda k: k == ("var", d[1])))
                r.check(read, key, "%s:%d" % (f["file"], d[-1]),
                        "%s: local '%s' holds the result of %s(...) but nothing in its scope reads it - the statements after it use the unprocessed operand" % (f["qual"], d[1], top[1]),
                        detail="read in its scope")
        cs.each_block_cont(f["body"], onblock)
    return r.done()


# ------------------------------------------------------------------------------------------------
# L-3  sentinel-initialised accumulation over a possibly empty collection escapes without an emptiness guard

def _neg_const(e):
    if e is None:
        return False
    if e[0] == "const" and isinstance(e[1], (int, float)) and e[1] < 0:
        return True
    if e[0] == "un" and e[1] == "-" and e[2][0] == "const":
        return True
    if e[0] == "cast":
        return _neg_const(e[3])
    return False


def _empty_test(e, roots):
    """the condition tests emptiness/size of one of the named collections (or of the record's own fields)"""
    def p(k):
        if k[0] != "mcall" or k[1] not in ("empty", "size", "numfields"):
            return False
        if k[1] == "numfields":
            return True
        rv = {v[1] for v in find_all(k[3], lambda m: m[0] == "var")} | {m[2] for m in find_all(k[3], lambda m: m[0] == "member")}
        return bool(rv & roots)
    return bool(find_all(e, p))


def rule_sentinel_guard(rep, fb, floor=4, classes=("RecordArray", "RecordForm", "Record", "RecordBuilder", "TupleBuilder", "RecordType"), name="SENTINEL.empty-guard"):
    r = rep.rule(name, "in record classes (where zero fields is a valid state) a local initialised to a negative sentinel and assigned only inside a loop over the fields is used after the loop only "
                 "under an emptiness test of the collection or a test of the sentinel itself (cf. the file-local minlength() helper): otherwise a zero-field record yields the sentinel as a length or depth", floor=floor)
    for f in fb.lib_funcs(inst=False):
        cls = f["qual"].split("::")[0]
        if cls not in classes and not (f["file"].endswith("RecordArray.cpp")):
            continue
        cnt = {}

        def onblock(stmts, cont, f=f, cnt=cnt):
            for i, s in enumerate(stmts):
                if not (s[0] == "decl" and _neg_const(s[3])):
                    continue
                v = s[1]
                rest = stmts[i + 1:]
                # assignments only inside loops that follow in this block
                loops = [(j, t) for j, t in enumerate(rest) if t[0] in ("foreach", "for", "while") and find_all(t, lambda k: k[0] == "assign" and k[1] == ("var", v))]
                outside = [t for t in rest if t[0] not in ("foreach", "for", "while") and find_all(t, lambda k: k[0] in ("assign", "aug") and k[1] == ("var", v))]
                if not loops:
                    continue
                last = loops[-1][0]
                after = rest[last + 1:]
                roots = {"contents_", "contents", "recordlookup_", "keys_"}
                for _, lp in loops:
                    if lp[0] == "foreach":
                        roots |= {v[1] for v in find_all(lp[3], lambda m: m[0] == "var")} | {m[2] for m in find_all(lp[3], lambda m: m[0] == "member")}
                uses = [t for t in after if find_all(t, lambda k: k == ("var", v))]
                if not uses:
                    continue
                guarded = False
                # (a) an enclosing or preceding `if` tests emptiness of a collection
                for blk, idx in [(stmts, i)] + [(pb, pi) for pb, pi, pk in cont]:
                    for p in blk[:idx]:
                        if p[0] == "if" and _empty_test(p[1], roots) and (cs.has_exit(p) or p[3]):
                            guarded = True
                    if blk is not stmts and blk[idx][0] == "if" and _empty_test(blk[idx][1], roots):
                        guarded = True
                # (a') the sentinel is replaced under an emptiness test (`if (fields.empty()) { v = ...; }`); any other assignment outside the loops means this is not the pattern
                if outside:
                    if all(t[0] == "if" and (_empty_test(t[1], roots) or find_all(t[1], lambda k: k == ("var", v))) for t in outside):
                        guarded = True
                    else:
                        continue
                # (b) the sentinel itself is tested after the loop before/at the use
                for t in after:
                    if t[0] == "if" and find_all(t[1], lambda k: k == ("var", v)):
                        guarded = True
                        break
                    if t in uses:
                        break
                cnt[v] = cnt.get(v, 0) + 1
                key = "%s#%s#%d" % (f["qual"], v, cnt[v])
                r.check(guarded, key, "%s:%d" % (f["file"], s[-1]),
                        "%s: '%s' starts at a negative sentinel, is assigned only inside the loop at line %d and is used at line %d with no test for an empty collection or for the sentinel - a zero-field record gives %s = sentinel"
                        % (f["qual"], v, loops[-1][1][-1], uses[0][-1], v), detail="guarded by emptiness or sentinel test")
        cs.each_block_cont(f["body"], onblock)
    return r.done()


# ------------------------------------------------------------------------------------------------
# L-4  a buffer produced for length() (first dimension) items is wrapped under the full n-dimensional shape

def _ndim_test(e):
    def p(k):
        if k[0] != "mcall":
            return False
        if k[1] in ("ndim", "isscalar"):
            return True
        if k[1] in ("size", "empty") and "shape" in repr(k[3]):
            return True
        return False
    return bool(find_all(e, p))


def _numpy_recv(recv, f, decls):
    if recv == ("this",):
        return f["qual"].startswith("NumpyArray::")
    if recv[0] == "var":
        for d in decls.get(recv[1]) or []:
            if "NumpyArray" in str(d[2]):
                return True
    return False


def rule_flat_length(rep, fb, floor=8, name="SHAPE.flat-length"):
    r = rep.rule(name, "in NumpyArray methods, a buffer that is wrapped under an n-dimensional shape (the array's own shape_/shape()) is produced from the flattened item count: the producing call does not take "
                 "X.length() (the first dimension only) as its item count unless the method has established ndim() == 1 - otherwise the new array claims prod(shape) items of a shape[0]-item allocation", floor=floor)
    table = load_table("flatlength_exceptions.json")
    fs = [f for f in fb.lib_funcs(inst=False) if f["qual"].startswith("NumpyArray::")]
    if len(fs) < 50:
        raise AnalysisError("NumpyArray methods not found")
    for f in fs:
        decls = cs.local_decls(f)
        cnt = [0]

        def onblock(stmts, cont, f=f, decls=decls, cnt=cnt):
            for i, s in enumerate(stmts):
                for m in find_all(tuple(cs.head_exprs(s)), lambda k: k[0] in ("make", "ctor") and "NumpyArray" in str(k[1]) and len(k[2]) >= 5):
                    a = m[2]
                    if a[2][0] != "var":
                        continue
                    shape = a[3]
                    # one-dimensional by construction: vector<ssize_t>({n})
                    if shape[0] == "ctor" and "vector" in str(shape[1]):
                        continue
                    if shape[0] == "var":
                        ds = decls.get(shape[1]) or []
                        if ds and all(d[3] is not None and d[3][0] == "ctor" and "vector" in str(d[3][1]) and d[3][2] and d[3][2][0][0] == "list" and len(d[3][2][0][1]) == 1 for d in ds) \
                                and not find_all(f["body"], lambda k: k[0] == "mcall" and k[1] in ("push_back", "insert", "emplace_back") and k[3] == shape):
                            continue
                    ptr = a[2][1]
                    cnt[0] += 1
                    key = "%s#%s#%d" % (f["qual"], ptr, cnt[0])
                    where = "%s:%d" % (f["file"], m[-1] if isinstance(m[-1], int) else s[-1])
                    # producers of ptr: its initialiser / assignments, and calls that receive ptr.get() as destination
                    prods = []
                    for d in find_all(f["body"], lambda k: (k[0] == "decl" and k[1] == ptr and k[3] is not None) or (k[0] == "assign" and k[1] == ("var", ptr))):
                        prods.append(d[3] if d[0] == "decl" else d[2])
                    for c in find_all(f["body"], lambda k: k[0] in ("call", "mcall")):
                        args = c[2] if c[0] == "call" else c[4]
                        if any(find_all(x, lambda k: k == ("var", ptr)) for x in args):
                            prods.append(c)
                    bad = []
                    for pr in prods:
                        for c in find_all(pr, lambda k: k[0] in ("call", "mcall")):
                            args = c[2] if c[0] == "call" else c[4]
                            for x in args:
                                y = x
                                while y[0] in ("cast", "narrow", "widen"):
                                    y = y[3]
                                if y[0] == "mcall" and y[1] == "length" and _numpy_recv(y[3], f, decls):
                                    bad.append(c)
                    if not bad:
                        r.ok(key, "no producer sized by a first-dimension length()")
                        continue
                    guarded = False
                    for blk, idx in [(stmts, i)] + [(pb, pi) for pb, pi, pk in cont]:
                        for p in blk[:idx]:
                            if p[0] == "if" and _ndim_test(p[1]):
                                guarded = True
                        if blk is not stmts and blk[idx][0] == "if" and _ndim_test(blk[idx][1]):
                            guarded = True
                    c0 = bad[0]
                    if not guarded and key in table:
                        r.excepted(key, table[key])
                        r.ok(key, "listed exception")
                        continue
                    r.check(guarded, key, where,
                            "%s: buffer '%s' is produced by %s(...) for X.length() items (first dimension only, line %d) and then wrapped under the full shape at line %s with no ndim()==1 test on the path: "
                            "for an n-d array the result claims prod(shape) items of a shape[0]-item buffer"
                            % (f["qual"], ptr, c0[1] if c0[0] == "mcall" else c0[1][1], c0[-1], where.split(":")[-1]), detail="producer sized by flat length or ndim-guarded")
        cs.each_block_cont(f["body"], onblock)
    return r.done()


# ------------------------------------------------------------------------------------------------
# L-5  inside `case util::dtype::X:` the element type spelled in template arguments / pointer casts is X's C type

_CTYPE = {"boolean": "bool", "int8": "int8_t", "int16": "int16_t", "int32": "int32_t", "int64": "int64_t", "uint8": "uint8_t", "uint16": "uint16_t", "uint32": "uint32_t",
          "uint64": "uint64_t", "float16": None, "float32": "float", "float64": "double", "float128": None, "complex64": "complex<float>", "complex128": "complex<double>",
          "complex256": None, "datetime64": "int64_t", "timedelta64": "int64_t"}
_ALLC = {v for v in _CTYPE.values() if v}


def _elem_types(body):
    """numeric element types named in explicit template arguments and casts of the arm (nested dtype switches excluded: they are arms of their own)"""
    types = set()

    def rec(x):
        if isinstance(x, tuple):
            if x and x[0] == "switch":
                return
            if x and x[0] == "call" and len(x[1]) > 2:
                ta = x[1][2]
                for t in (ta if isinstance(ta, (tuple, list)) else [ta]):
                    types.add(str(t).replace("std::", ""))
            if x and x[0] == "cast":
                types.add(str(x[2]).replace("const ", "").replace(" *", "").replace("*", "").strip())
            for y in x:
                rec(y)
    rec(body)
    return {t for t in types if t in _ALLC}


def rule_dtype_case(rep, fb, floor=120, name="DTYPE.case-type"):
    r = rep.rule(name, "in a switch over util::dtype, the arm for dtype X reinterprets the buffer and instantiates its helper with X's C element type (and otherwise only with the type of an enclosing "
                 "dtype arm, i.e. the conversion target): a copy-pasted arm with a neighbouring type reads the buffer with the wrong width/signedness", floor=floor)
    for f in fb.lib_funcs(inst=False):
        cnt = {}

        def visit(stmts, outer, f=f, cnt=cnt):
            for s in stmts:
                if s[0] == "switch":
                    for labels, body in s[2]:
                        dts = [l[1].split("::")[-1] for l in labels if isinstance(l, tuple) and l[0] == "enum" and "dtype::" in l[1]]
                        if not dts:
                            visit(body, outer)
                            continue
                        exp = {_CTYPE.get(d) for d in dts}
                        types = _elem_types(body)
                        if types:
                            k0 = ",".join(dts)
                            cnt[k0] = cnt.get(k0, 0) + 1
                            key = "%s#case %s#%d" % (f["qual"], k0, cnt[k0])
                            r.check(types <= (exp | outer) and bool(types & exp), key, "%s:%d" % (f["file"], s[-1]),
                                    "%s: the arm `case util::dtype::%s` of the switch at line %d names element type(s) %s (expected %s%s)"
                                    % (f["qual"], k0, s[-1], sorted(types), sorted(x for x in exp if x), (" or enclosing " + str(sorted(outer))) if outer else ""),
                                    detail="arm names exactly its own C type")
                        visit(body, outer | {x for x in exp if x})
                else:
                    for b in cs.sub_blocks(s):
                        visit(b, outer)
        visit(f["body"], set())
    return r.done()


# ------------------------------------------------------------------------------------------------
# L-6  no two arms of one family dispatch test the same member

def _disj(e):
    if e[0] == "bin" and e[1] == "||":
        return _disj(e[2]) + _disj(e[3])
    return [e]


def _noline(x):
    if isinstance(x, tuple):
        if x and x[0] in ("call", "mcall", "ctor", "make") and isinstance(x[-1], int):
            x = x[:-1]
        return tuple(_noline(y) for y in x)
    return x


def rule_distinct_arms(rep, fb, floor=300, name="FAMILY.distinct-arms"):
    r = rep.rule(name, "within one if/else-if chain (and within each ||-list of it) no two tests name the same dynamic_cast target or the same is_same<> member: a repeated member means the arm meant for "
                 "a sibling (e.g. the U32 variant) is unreachable and that sibling falls through to the chain's else", floor=floor)
    for f in fb.lib_funcs(inst=False):
        cnt = [0]

        def onblock(stmts, cont, f=f, cnt=cnt):
            for s in stmts:
                if s[0] != "if":
                    continue
                arms, _ = _chain(s)
                tests = []
                for c, _b in arms:
                    cc = c[3] if c[0] == "declcond" else c
                    if cc is None:
                        continue
                    for d in _disj(cc):
                        if d[0] == "trait" or find_all(d, lambda k: k[0] == "cast" and k[1] == "dynamic"):
                            tests.append(_noline(d))
                if len(tests) < 2:
                    continue
                cnt[0] += 1
                key = "%s#chain%d" % (f["qual"], cnt[0])
                dup = [t for t in set(tests) if tests.count(t) > 1]
                r.check(not dup, key, "%s:%d" % (f["file"], s[-1]), "%s: the dispatch chain at line %d tests %s more than once" % (f["qual"], s[-1], str(dup[0])[:120] if dup else ""),
                        detail="all tests distinct")
        cs.each_block_cont(f["body"], onblock)
    return r.done()


# ------------------------------------------------------------------------------------------------
# L-7  running-offset fills: position counter advanced by exactly the length just written, total = sum of the same lengths

def _norm_len(e, alias):
    """normal form of a per-operand length expression: smart-pointer plumbing, casts, class qualifiers and line numbers dropped;
    a pointer obtained by dynamic_cast of the loop operand is the operand"""
    h = e[0]
    if h in ("deref", "addr"):
        return _norm_len(e[1], alias)
    if h in ("cast", "narrow", "widen"):
        return _norm_len(e[3], alias)
    if h == "mcall":
        if e[1] == "get" and not e[4]:
            return _norm_len(e[3], alias)
        return ("m", e[1], _norm_len(e[3], alias), tuple(_norm_len(a, alias) for a in e[4]))
    if h == "var":
        return ("var", alias.get(e[1], e[1]))
    if h == "bin":
        return ("bin", e[1], _norm_len(e[2], alias), _norm_len(e[3], alias))
    if h == "idx":
        return ("idx", _norm_len(e[1], alias), _norm_len(e[2], alias))
    return _noline(e)


def rule_fill_accumulate(rep, fb, floor=20, name="PAIR.fill-accumulate"):
    r = rep.rule(name, "in a loop that appends operands into one output buffer through `*_fill*` kernels at a running position counter: (a) the counter passed as the kernel's `*offset` parameter is advanced in the same arm, "
                 "after the call; (b) it is advanced by exactly the `length` the kernel was told to write; (c) the buffer's total (accumulated in the sizing loop over the same operands) adds the same per-operand length", floor=floor)
    api = cs.kernel_api(fb)
    for f in fb.lib_funcs(inst=False):
        loops = find_all(f["body"], lambda k: k[0] in ("foreach", "for"))
        if not loops:
            continue
        # sizing accumulations anywhere in the function: total += E
        totals = {}
        for a in find_all(f["body"], lambda k: k[0] == "aug" and k[1] == "+" and k[2][0] == "var" and k[2][1].startswith("total")):
            totals.setdefault(a[2][1], []).append(a)
        cnt = {}
        for lp in loops:
            body = lp[4] if lp[0] == "foreach" else lp[2]
            # nested loops are visited on their own
            opvar = lp[1] if lp[0] == "foreach" else None

            def onblock(stmts, cont, f=f, lp=lp, opvar=opvar):
                alias = {}
                # aliases from enclosing `if (X* raw = dynamic_cast<X*>(operand.get()))`
                for pb, pi, pk in cont:
                    st = pb[pi]
                    if st[0] == "if" and st[1][0] == "declcond":
                        src = {v[1] for v in find_all(st[1][3] or (), lambda m: m[0] == "var")}
                        if opvar and opvar in src:
                            alias[st[1][1]] = opvar
                for i, s in enumerate(stmts):
                    if s[0] in ("foreach", "for", "while"):
                        continue
                    for c in find_all(tuple(cs.head_exprs(s)), lambda k: k[0] == "call" and k[1][0] == "fn" and "fill" in str(k[1][1]).lower() and str(k[1][1]) in api):
                        ov = api[c[1][1]]["overloads"]
                        names = ov[0][0]
                        args = c[2]
                        if len(names) != len(args):
                            continue
                        lenarg = None
                        for nme, a in zip(names, args):
                            if nme == "length":
                                lenarg = a
                        for nme, a in zip(names, args):
                            if not nme.endswith("offset") or a[0] != "var":
                                continue
                            ctr = a[1]
                            k0 = (c[1][1], ctr)
                            cnt[k0] = cnt.get(k0, 0) + 1
                            key = "%s#%s#%s#%d" % (f["qual"], c[1][1].replace("kernel::", ""), ctr, cnt[k0])
                            where = "%s:%d" % (f["file"], c[-1])
                            incs = [t for t in stmts[i + 1:] if t[0] == "aug" and t[1] == "+" and t[2] == ("var", ctr)]
                            if not incs:
                                # the increment may sit after the if-chain, at loop-body level
                                for pb, pi, pk in cont:
                                    incs += [t for t in pb[pi + 1:] if t[0] == "aug" and t[1] == "+" and t[2] == ("var", ctr)]
                                    if pb is body:
                                        break
                            if not incs:
                                r.fail(key, where, "%s: %s writes at position `%s` but the arm never advances `%s` afterwards - the next operand overwrites this one" % (f["qual"], c[1][1], ctr, ctr))
                                continue
                            inc = _norm_len(incs[0][3], alias)
                            if lenarg is not None and _norm_len(lenarg, alias) != inc:
                                r.fail(key, where, "%s: %s is told to write `length` = %s at position `%s`, but `%s` is then advanced by a different amount (line %d)"
                                       % (f["qual"], c[1][1], str(_norm_len(lenarg, alias))[:80], ctr, ctr, incs[0][-1]))
                                continue
                            # (d) complex targets are addressed in scalar units (two per item): the amount added to the counter is doubled first
                            targs = c[1][2] if len(c[1]) > 2 and isinstance(c[1][2], (tuple, list)) else ()
                            if targs and str(targs[-1]).replace("std::", "").startswith("complex") and incs[0][3][0] == "var":
                                iv = incs[0][3][1]
                                doubled = [t for t in stmts[i + 1:] if t[0] == "assign" and t[1] == ("var", iv) and t[2][0] == "bin" and t[2][1] == "*"
                                           and {repr(_noline(t[2][2])), repr(_noline(t[2][3]))} == {repr(("var", iv)), repr(("const", 2))}]
                                if not doubled:
                                    r.fail(key + "#units", where, "%s: %s fills a complex buffer (addressed in scalar units, two per item) but `%s` is not doubled before `%s` is advanced by it - later operands land too early"
                                           % (f["qual"], c[1][1], iv, ctr))
                                    continue
                            # (c) the sizing loop adds the same per-operand amount
                            okc = True
                            tot = None
                            if ctr.endswith("_so_far"):
                                stem = ctr[:-len("_so_far")]
                                tot = "total_" + stem
                            if tot and tot in totals:
                                okc = any(_norm_len(t[3], {}) == inc for t in totals[tot])
                            r.check(okc, key, where, "%s: `%s` is advanced by %s per operand but the sizing loop adds a different amount to `%s`" % (f["qual"], ctr, str(inc)[:80], tot),
                                    detail="advanced by the written length; total adds the same")
            cs.each_block_cont(body, onblock)
    return r.done()


# ------------------------------------------------------------------------------------------------
# L-8  raw stores (p[i] = v, *p = v) outside kernels go to storage created in the function

_RAW_OWNERS = {
    ("GrowableBuffer::append", "ptr_"): "GrowableBuffer is the owner of its buffer; append writes at length_ < reserved_ only (BUILDER.append-only checks the discipline)",
}


def rule_raw_store(rep, fb, floor=8, name="FRESH.raw-store"):
    r = rep.rule(name, "outside the kernels, the Forth virtual machine and LayoutBuilder (stateful by design), every store through a raw pointer (p[i] = v, *p = v, with p a pointer variable, a reinterpret_cast or shared_ptr::get) "
                 "writes storage created in the same function, a non-const pointer parameter (a declared output), or the owner's own buffer in a tabled mutator - never the buffer of an input object", floor=floor)
    cs.load_field_types(fb)
    if not cs.FRESH_RETURNERS:
        for _ in range(4):
            nxt = cs.compute_fresh_returners(fb)
            if nxt == cs.FRESH_RETURNERS:
                break
            cs.FRESH_RETURNERS = nxt
    for f in fb.lib_funcs(inst=False):
        fl = f["file"].lower()
        if "/forth/" in fl or "/layoutbuilder/" in fl or "kernel-dispatch" in fl or "kernel-utils" in fl:
            continue
        decls = cs.local_decls(f)
        ptypes = dict((p[0], p[1]) for p in f["params"])
        cnt = {}
        for s in find_all(f["body"], lambda k: k[0] in ("assign", "aug")):
            lhs = s[1] if s[0] == "assign" else s[2]
            if lhs[0] not in ("idx", "deref"):
                continue
            base = lhs[1]
            raw = False
            if base[0] in ("deref", "cast"):
                raw = True
            elif base[0] == "mcall" and base[1] in ("get", "data"):
                raw = True
            elif base[0] == "var":
                ds = decls.get(base[1]) or []
                t = ds[0][2] if ds else ptypes.get(base[1], "")
                raw = "*" in str(t)
            if not raw:
                continue
            o = cs.origin(base, f, decls)
            nm = cs.root_ident(base) or "?"
            cnt[nm] = cnt.get(nm, 0) + 1
            key = "%s#%s#%d" % (f["qual"], nm, cnt[nm])
            where = "%s:%d" % (f["file"], s[-1])
            if o[0] == "fresh":
                r.ok(key, "store into %s" % o[1])
                continue
            if o[0] == "param" and base[0] == "var" and "*" in str(ptypes.get(base[1], "")) and not str(ptypes.get(base[1], "")).replace(" ", "").startswith("const"):
                r.ok(key, "declared output: non-const pointer parameter")
                continue
            if o[0] == "member" and (f["qual"], o[1]) in _RAW_OWNERS:
                r.excepted(key, _RAW_OWNERS[(f["qual"], o[1])])
                r.ok(key)
                continue
            r.fail(key, where, "%s stores through a raw pointer into %s '%s' - storage it did not create (an input's buffer is modified in place)" % (f["qual"], o[0], o[1]))
    return r.done()


# ------------------------------------------------------------------------------------------------
# L-9  a NumpyArray is rebuilt around (ptr, byteoffset) of ONE buffer owner

def _buf_owner(e, kind):
    """owner of a buffer pointer / byte offset expression: ('obj', repr) for X.ptr_ / X.ptr() / X.byteoffset_ / X.byteoffset(), ('zero',) for literal 0,
    ('fresh',) for an allocation or a call result, None if not recognisable (a variable: see its definitions)"""
    while e[0] in ("cast", "narrow", "widen"):
        e = e[3]
    names = ("ptr_", "ptr") if kind == "ptr" else ("byteoffset_", "byteoffset")
    if e[0] == "member" and e[2] in names:
        return ("obj", repr(_noline(e[1])))
    if e[0] == "mcall" and e[1] in names and not e[4]:
        return ("obj", repr(_noline(e[3])))
    if kind == "off" and e[0] == "const" and e[1] == 0:
        return ("zero",)
    if kind == "ptr" and e[0] in ("call", "ctor", "make", "mcall"):
        return ("fresh",)
    if kind == "off" and e[0] in ("bin", "un", "mcall", "call"):
        return ("computed",)
    return None


def _compatible(po, bo):
    if po is None or bo is None:
        return True     # not decidable structurally: not an obligation
    if bo == ("computed",):
        return True     # an offset computed from strides (getitem_at / range): its base is checked by the ptr side only
    if po == ("fresh",):
        return bo == ("zero",)
    if po[0] == "obj":
        return bo == po
    return True


def rule_ptr_byteoffset(rep, fb, floor=30, name="NUMPY.ptr-byteoffset"):
    r = rep.rule(name, "a NumpyArray is constructed around the buffer pointer and the byte offset of the same owner (X.ptr_ with X.byteoffset_, a fresh allocation with 0); when the pointer is held in a local that is "
                 "re-assigned on some path, the local holding the offset is re-assigned in the same block from the same owner - otherwise reads start at a stale offset into the wrong buffer", floor=floor)
    for f in fb.lib_funcs(inst=False):
        cnt = [0]
        fdecls = cs.local_decls(f)

        def defs_of(var):
            """[(block-id, owner-expression)] over the declaration and every assignment of var"""
            out = []

            def onb(stmts, cont):
                for s in stmts:
                    if s[0] == "decl" and s[1] == var:
                        out.append((id(stmts), s[3], s[-1]))
                    if s[0] == "assign" and s[1] == ("var", var):
                        out.append((id(stmts), s[2], s[-1]))
            cs.each_block_cont(f["body"], onb)
            return out
        def is_numpy(owner):
            """the owner object is a NumpyArray (only those have a byte offset into their buffer)"""
            if owner is None or owner[0] != "obj":
                return True
            if owner[1] == repr(("this",)):
                return (f.get("cls") or "") == "NumpyArray"
            for v, ds in fdecls.items():
                if owner[1] == repr(("var", v)):
                    return any("NumpyArray" in str(d[2]) for d in ds)
            for pn, pt in f["params"]:
                if owner[1] == repr(("var", pn)):
                    return "NumpyArray" in pt
            return False

        def whole_copy_source(pv):
            """a fresh buffer filled by copying from X.ptr_.get() (the base pointer, offset not applied) keeps X's offsets"""
            for c in find_all(f["body"], lambda k: k[0] == "call"):
                args = c[2]
                if any(find_all(x, lambda k: k == ("var", pv)) for x in args):
                    for x in args:
                        for mm in find_all(x, lambda k: k[0] == "member" and k[2] == "ptr_"):
                            return ("obj", repr(_noline(mm[1])))
            return None
        for m in find_all(f["body"], lambda k: k[0] in ("make", "ctor") and "NumpyArray" in str(k[1]) and "Form" not in str(k[1]) and len(k[2]) >= 8):
            a = m[2]
            P, B = a[2], a[5]
            cnt[0] += 1
            key = "%s#NumpyArray#%d" % (f["qual"], cnt[0])
            where = "%s:%d" % (f["file"], m[-1] if isinstance(m[-1], int) else f["line"])
            po, bo = _buf_owner(P, "ptr"), _buf_owner(B, "off")
            pv = P[1] if P[0] == "var" else None
            bv = B[1] if B[0] == "var" else None
            problems = []
            if not is_numpy(po):
                r.ok(key, "buffer owner is not a NumpyArray (no byte offset of its own)")
                continue
            if pv is None and bv is None:
                if not _compatible(po, bo):
                    problems.append("pointer of %s with byte offset of %s" % (po, bo))
            elif pv is not None:
                pdefs = defs_of(pv)
                bdefs = defs_of(bv) if bv else []
                if not pdefs:
                    r.ok(key, "pointer is a parameter")
                    continue
                for blk, pe, line in pdefs:
                    if pe is None:
                        continue
                    o = _buf_owner(pe, "ptr")
                    if o == ("fresh",):
                        o = whole_copy_source(pv) or o
                    if not is_numpy(o):
                        continue
                    if bv:
                        same = [be for bb, be, bl in bdefs if bb == blk and be is not None]
                        if not same:
                            # the offset variable is not touched where the pointer is (re)bound
                            init_owner = [_buf_owner(be, "off") for bb, be, bl in bdefs if be is not None]
                            if o is not None and not any(_compatible(o, x) for x in init_owner if x is not None) or (o == ("fresh",) and not any(x == ("zero",) for x in init_owner)):
                                problems.append("`%s` is bound to %s at line %d but `%s` is not re-bound in that block" % (pv, "a fresh buffer" if o == ("fresh",) else o, line, bv))
                            continue
                        if not any(_compatible(o, _buf_owner(be, "off")) for be in same):
                            problems.append("`%s` is bound to %s at line %d while `%s` is bound to %s" % (pv, o, line, bv, [_buf_owner(be, "off") for be in same]))
                    else:
                        if not _compatible(o, bo):
                            problems.append("`%s` is bound to %s at line %d but the byte offset argument is %s" % (pv, "a fresh buffer" if o == ("fresh",) else o, line, bo))
            r.check(not problems, key, where, "%s constructs a NumpyArray whose buffer pointer and byte offset come from different owners: %s" % (f["qual"], "; ".join(problems)[:300]),
                    detail="pointer and offset from one owner")
    return r.done()


# ------------------------------------------------------------------------------------------------
# L-10  arms of a dtype switch that call the same helper are clones of one another modulo the element type

def _abstract_type(x, ctypes):
    """replace the arm's own element type(s) by T in type strings / template arguments; drop line numbers"""
    if isinstance(x, tuple):
        if x and x[0] in ("call", "mcall", "ctor", "make") and isinstance(x[-1], int):
            x = x[:-1]
        if x and x[0] in ("break",):
            return ("break",)
        if x and x[0] in ("assign", "aug", "expr", "decl", "return", "throw", "if", "for", "while", "foreach", "switch") and isinstance(x[-1], int):
            x = x[:-1]
        return tuple(_abstract_type(y, ctypes) for y in x)
    if isinstance(x, str):
        y = x.replace("std::", "")
        for ct in sorted(ctypes, key=len, reverse=True):
            if ct and ct in y:
                y = y.replace(ct, "T")
        return y
    return x


def rule_dtype_arm_clones(rep, fb, floor=100, name="CLONE.dtype-arms"):
    r = rep.rule(name, "within one switch over util::dtype, the arms that call the same helper (name taken after abstracting the element type) are identical once the arm's element type is abstracted: "
                 "an arm that passes a different buffer, length or flag than its siblings is a copy-paste slip", floor=floor)
    for f in fb.lib_funcs(inst=False):
        nsw = [0]

        def visit(stmts, f=f):
            for s in stmts:
                if s[0] == "switch":
                    arms = []
                    for labels, body in s[2]:
                        dts = [l[1].split("::")[-1] for l in labels if isinstance(l, tuple) and l[0] == "enum" and "dtype::" in l[1]]
                        if not dts:
                            continue
                        cts = {_CTYPE.get(d) for d in dts} - {None}
                        if not cts or find_all(body, lambda k: k[0] == "switch"):
                            continue
                        if body and body[0][0] == "throw":
                            continue
                        calls = find_all(body, lambda k: (k[0] == "call" and k[1][0] == "fn") or (k[0] == "mcall" and k[1] not in ("data", "get", "ptr", "length", "size", "shape", "strides")))
                        if not calls:
                            continue
                        callee = _abstract_type(calls[0][1], cts) if calls[0][0] == "call" else ("m", calls[0][1])
                        arms.append((",".join(dts), repr(callee), repr(_abstract_type(tuple(body), cts))))
                    if arms:
                        nsw[0] += 1
                        groups = {}
                        for dt, callee, nf in arms:
                            groups.setdefault(callee, []).append((dt, nf))
                        for callee, members in groups.items():
                            if len(members) < 3:
                                continue
                            forms = {}
                            for dt, nf in members:
                                forms.setdefault(nf, []).append(dt)
                            major = max(forms.items(), key=lambda kv: len(kv[1]))
                            for nf, dts in forms.items():
                                for dt in dts:
                                    key = "%s#switch%d#case %s" % (f["qual"], nsw[0], dt)
                                    r.check(nf == major[0] or len(major[1]) < 2 * len(dts), key, "%s:%d" % (f["file"], s[-1]),
                                            "%s: the arm `case util::dtype::%s` of the switch at line %d differs from its %d sibling arms (%s ...) beyond the element type" % (f["qual"], dt, s[-1], len(major[1]), ",".join(major[1][:3])),
                                            detail="clone of its siblings modulo element type")
                for b in cs.sub_blocks(s):
                    visit(b)
        visit(f["body"])
    return r.done()


# ------------------------------------------------------------------------------------------------
# L-11  NumpyArray hands its raw data pointer to stride-unaware code only after establishing contiguity

_CONTIG_TABLE = {
    "NumpyArray::sort_data": "referenced from nowhere (dead code); NumpyArray::sort_next, which tests iscontiguous(), is what sorting uses",
    "NumpyArray::as_unique_strings": "only caller is ListOffsetArray64::is_unique on string content, which reads only the outer length of the result; string content is a 1-d contiguous uint8 buffer by the string behaviour's contract",
    "NumpyArray::deep_copy": "the call sits in the branch `ptr_.get() == contiguous().ptr().get()`, i.e. contiguous() returned this very buffer: the array is contiguous there",
}


def rule_contiguous_guard(rep, fb, floor=40, name="CONTIG.data-guard"):
    r = rep.rule(name, "in NumpyArray methods, data() of the array itself is passed to a helper or kernel that does not also receive the strides only on paths that have tested iscontiguous() "
                 "(non-contiguous arrays are first converted with contiguous() / toRegularArray()): otherwise consecutive buffer items are read instead of the view's items", floor=floor)

    def isdata(k):
        return k[0] == "mcall" and k[1] == "data" and k[3] == ("this",)

    def contig_test(e):
        return bool(find_all(e, lambda k: k[0] == "mcall" and k[1] == "iscontiguous" and k[3] == ("this",)))
    for f in fb.lib_funcs(inst=False):
        if (f.get("cls") or "") != "NumpyArray":
            continue
        cnt = {}

        # locals bound to the raw pointer:  T* array = reinterpret_cast<T*>(data());
        rawlocals = {d[1] for d in find_all(f["body"], lambda k: k[0] == "decl" and k[3] is not None and "*" in str(k[2]) and find_all((k[3],), isdata))}

        def single_item(e):
            return bool(find_all((e,), lambda k: (k[0] == "mcall" and k[1] == "isscalar") or (k[0] == "bin" and k[1] == "==" and find_all((k,), lambda m: m[0] == "mcall" and m[1] == "ndim") and ("const", 0) in (k[2], k[3]))))

        def onblock(stmts, cont, f=f, cnt=cnt):
            for i, s in enumerate(stmts):
                for c in find_all(tuple(cs.head_exprs(s)), lambda k: k[0] in ("call", "mcall")):
                    args = c[2] if c[0] == "call" else c[4]
                    if c[0] == "mcall" and c[1] == "data":
                        continue
                    if not any(find_all(a, isdata) for a in args) and not any(a[0] == "var" and a[1] in rawlocals for a in args):
                        continue
                    child, scalar = stmts, False
                    for pb, pi, pk in cont:
                        if pb[pi][0] == "if" and single_item(pb[pi][1]) and child is pb[pi][2]:
                            scalar = True      # in the then-branch of `if (ndim() == 0)`
                        child = pb
                    if scalar:
                        r.ok("%s#scalar@%d" % (f["qual"], c[-1]), "zero-dimensional: a single item")
                        continue
                    nm = (c[1] if c[0] == "mcall" else str(c[1][1])).replace("kernel::", "")
                    if nm.endswith("getitem_at0"):
                        continue   # reads exactly one item at the pointer it is given
                    cnt[nm] = cnt.get(nm, 0) + 1
                    key = "%s#%s#%d" % (f["qual"], nm, cnt[nm])
                    where = "%s:%d" % (f["file"], c[-1])
                    strideaware = any(find_all(a, lambda k: k == ("member", ("this",), "strides_") or (k[0] == "mcall" and k[1] == "strides") or (k[0] == "var" and k[1].startswith("stride"))) for a in args)
                    if strideaware:
                        r.ok(key, "strides are passed along")
                        continue
                    guarded = False
                    for blk, idx in [(stmts, i)] + [(pb, pi) for pb, pi, pk in cont]:
                        for p in blk[:idx]:
                            if p[0] == "if" and contig_test(p[1]) and (cs.has_exit(p) or p[3]):
                                guarded = True
                        if blk is not stmts and blk[idx][0] == "if" and contig_test(blk[idx][1]):
                            guarded = True
                    if not guarded and f["qual"] in _CONTIG_TABLE:
                        r.excepted(key, _CONTIG_TABLE[f["qual"]])
                        r.ok(key)
                        continue
                    r.check(guarded, key, where, "%s passes data() of a possibly strided array to %s (which receives no strides) on a path that has not tested iscontiguous()" % (f["qual"], nm),
                            detail="dominated by an iscontiguous() test")
        cs.each_block_cont(f["body"], onblock)
    return r.done()


# ------------------------------------------------------------------------------------------------
# L-12  dimensions of one NumpyArray vs nesting levels of the whole layout

def rule_shape_subscript(rep, fb, floor=60, name="DIM.shape-subscript"):
    r = rep.rule(name, "a subscript of shape_/strides_ (or of a local copy named shape/strides) is a dimension number of this array: it never consists of a layout nesting level (depth, axis, posaxis) alone - "
                 "only a difference of two levels is a dimension", floor=floor)
    levels_d = {"depth"}
    levels_a = {"axis", "posaxis", "negaxis"}
    for f in fb.lib_funcs(inst=False):
        if (f.get("cls") or "") not in ("NumpyArray", "NumpyForm"):
            continue
        cnt = [0]
        for ix in find_all(f["body"], lambda k: k[0] == "idx"):
            base = ix[1]
            while base[0] in ("cast", "deref"):
                base = base[3] if base[0] == "cast" else base[1]
            nm = base[2] if base[0] == "member" else (base[1] if base[0] == "var" else None)
            if nm not in ("shape_", "strides_", "shape", "strides", "inner_shape_", "flatshape", "flatstrides", "nextshape", "nextstrides", "outshape", "outstrides"):
                continue
            cnt[0] += 1
            vs = {v[1] for v in find_all(ix[2], lambda k: k[0] == "var")}
            hasd, hasa = bool(vs & levels_d), bool(vs & levels_a)
            key = "%s#%s[%d]" % (f["qual"], nm, cnt[0])
            r.check(not (hasd or hasa) or (hasd and hasa), key, "%s:%d" % (f["file"], f["line"]),
                    "%s subscripts %s with the layout nesting level %s (not a dimension of this array)" % (f["qual"], nm, sorted(vs & (levels_d | levels_a))), detail="subscript is a dimension number")
    return r.done()


# ------------------------------------------------------------------------------------------------
# L-13  regular dimensions are wrapped from the innermost (last) to the outermost (first)

def rule_regular_nesting(rep, fb, floor=3, name="NEST.regular-order"):
    r = rep.rule(name, "a loop that wraps a node/type in one Regular* per dimension (out = Regular*(..., out, shape[i])) visits the dimensions from the last to the first, so that the first dimension ends up outermost", floor=floor)
    for f in fb.lib_funcs(inst=False):
        cnt = [0]
        for lp in find_all(f["body"], lambda k: k[0] in ("for", "foreach", "while")):
            body = lp[4] if lp[0] == "foreach" else lp[2]
            wraps = [a for a in body if a[0] == "assign" and a[1][0] == "var" and a[2][0] in ("make", "ctor") and str(a[2][1]).replace("awkward::", "") in ("RegularType", "RegularArray", "RegularForm")
                     and any(x == a[1] for x in a[2][2])]
            wraps = [a for a in wraps if not any(d[0] == "decl" and d[1] == a[1][1] for d in body)]   # the wrapped value accumulates across iterations
            if not wraps:
                continue
            cnt[0] += 1
            key = "%s#wrap%d" % (f["qual"], cnt[0])
            where = "%s:%d" % (f["file"], lp[-1])
            if lp[0] != "for":
                r.fail(key, where, "%s wraps %s per dimension in a %s loop, which visits the dimensions first-to-last: the nesting comes out reversed" % (f["qual"], wraps[0][2][1], "range-for" if lp[0] == "foreach" else lp[0]))
                continue
            incs = lp[3]
            down = bool(incs) and all((x[0] == "aug" and x[1] == "-") or (x[0] == "un" and "--" in str(x[1])) or (x[0] == "expr" and "--" in repr(x)) for x in incs)
            r.check(down, key, where, "%s wraps %s per dimension in a loop that does not count the dimension index down" % (f["qual"], wraps[0][2][1]), detail="dimension index counts down")
    return r.done()


# ------------------------------------------------------------------------------------------------
# L-14  bit-assembly state is reset for every item

def _loop_body(lp):
    return lp[4] if lp[0] == "foreach" else lp[2]


def rule_bit_accumulator_reset(rep, fb, floor=4, name="LOOP.bit-accumulator-reset", kernels=True):
    r = rep.rule(name, "a value assembled bit by bit in an inner loop (v |= ..., together with the shift count used in `<< s` and advanced there) and consumed once per iteration of the enclosing loop is "
                 "re-initialised inside the enclosing loop before the inner loop starts: otherwise item k is OR-ed on top of items 0..k-1", floor=floor)
    funcs = list(fb.lib_funcs(inst=False))
    if kernels:
        for p, tu in sorted(fb.kernel_tus().items()):
            funcs += [f for f in tu["funcs"] if not f["inst"]]
    for f in funcs:
        cnt = {}
        for L1 in find_all(f["body"], lambda k: k[0] in ("for", "foreach", "while", "dowhile")):
            b1 = _loop_body(L1)
            for j, st in enumerate(b1):
                if st[0] not in ("for", "foreach", "while", "dowhile"):
                    continue
                L2 = st
                acc = set()
                inner = [x for x in find_all(tuple(_loop_body(L2)), lambda k: k[0] in ("for", "foreach", "while", "dowhile"))]

                def direct(node):
                    return not any(find_all(x, lambda k: k is node) for x in inner)
                for a in find_all(L2, lambda k: k[0] == "aug" and k[1] == "|" and k[2][0] == "var"):
                    if direct(a):
                        acc.add(a[2][1])
                if not acc:
                    continue
                # shift counts: s in `<< s` inside L2 that L2 itself advances
                for sh in find_all(L2, lambda k: k[0] == "bin" and k[1] == "<<"):
                    for v in find_all(sh[3], lambda k: k[0] == "var"):
                        if find_all(L2, lambda k: k[0] == "aug" and k[2] == ("var", v[1])):
                            acc.add(v[1])
                for v in sorted(acc):
                    # declared inside L1's body (fresh per iteration) -> nothing to reset
                    if any(d[0] == "decl" and d[1] == v for d in b1[:j]):
                        declared_in = [d for d in b1[:j] if d[0] == "decl" and d[1] == v]
                        cnt[v] = cnt.get(v, 0) + 1
                        key = "%s#%s#%d" % (f["qual"], v, cnt[v])
                        r.check(declared_in[0][3] is not None or any(t[0] == "assign" and t[1] == ("var", v) for t in b1[:j]), key, "%s:%d" % (f["file"], L2[-1]),
                                "%s: `%s` is declared per item without an initial value before the bit-assembly loop at line %d" % (f["qual"], v, L2[-1]), detail="initialised per item")
                        continue
                    if find_all(tuple(b1[:j]), lambda k: k[0] == "decl" and k[1] == v):
                        continue
                    cnt[v] = cnt.get(v, 0) + 1
                    key = "%s#%s#%d" % (f["qual"], v, cnt[v])
                    reset = any(t[0] == "assign" and t[1] == ("var", v) for t in b1[:j])
                    r.check(reset, key, "%s:%d" % (f["file"], L2[-1]),
                            "%s: `%s` is assembled in the inner loop at line %d but is not re-initialised inside the enclosing loop at line %d - each item continues from the previous item's bits" % (f["qual"], v, L2[-1], L1[-1]),
                            detail="reset inside the enclosing loop")
    return r.done()


# ------------------------------------------------------------------------------------------------
# L-15  string equality tests compare whole strings

def rule_string_equality(rep, fb, floor=3, name="STR.exact-compare"):
    r = rep.rule(name, "a C-string equality test (`strcmp/strncmp/memcmp(...) == 0`) compares the whole strings: strcmp, or a length-limited comparison whose condition also tests that the two lengths are equal - "
                 "strncmp(a, b, len(a)) alone accepts every prefix of b (including the empty string)", floor=floor)
    for f in fb.lib_funcs(inst=False):
        cnt = [0]

        def onblock(stmts, cont, f=f, cnt=cnt):
            for s in stmts:
                for e in cs.head_exprs(s):
                    for c in find_all((e,), lambda k: k[0] == "call" and k[1][0] == "fn" and str(k[1][1]).split("::")[-1] in ("strcmp", "strncmp", "memcmp")):
                        cnt[0] += 1
                        nm = str(c[1][1]).split("::")[-1]
                        key = "%s#%s#%d" % (f["qual"], nm, cnt[0])
                        where = "%s:%d" % (f["file"], c[-1])
                        if nm == "strcmp":
                            r.ok(key, "strcmp")
                            continue
                        # length-limited: the enclosing condition must also compare lengths (an == between two length-like expressions)
                        lens_eq = find_all((e,), lambda k: k[0] == "bin" and k[1] == "==" and all(find_all((x,), lambda m: (m[0] == "mcall" and m[1] in ("length", "size")) or (m[0] == "call" and "strlen" in str(m[1][1])) or (m[0] == "var" and "len" in m[1].lower())) for x in (k[2], k[3])))
                        r.check(bool(lens_eq), key, where, "%s tests string equality with %s limited to the length of one operand and no test that the lengths are equal: every prefix (and the empty string) compares equal" % (f["qual"], nm),
                                detail="lengths compared too")
        cs.each_block_cont(f["body"], onblock)
    # kernels never see NUL-terminated strings: every string is an offset-delimited byte range that may contain NUL
    for p, tu in sorted(fb.kernel_tus().items()):
        for f in tu["funcs"]:
            if f["inst"]:
                continue
            k = 0
            for c in find_all(f["body"], lambda k: k[0] == "call" and k[1][0] == "fn" and str(k[1][1]).split("::")[-1] in ("strcmp", "strncmp", "memcmp")):
                k += 1
                nm = str(c[1][1]).split("::")[-1]
                r.check(nm == "memcmp", "%s#%s#%d" % (f["name"], nm, k), "%s:%d" % (f["file"], c[-1]),
                        "kernel %s compares offset-delimited byte ranges with %s, which stops at an embedded NUL byte (use memcmp)" % (f["name"], nm), detail="memcmp on byte ranges")
    return r.done()


# ------------------------------------------------------------------------------------------------
# L-16  parallel vectors built by sibling loops get their elements in the same order

def _push_shape(body):
    """shape of a loop body made only of (possibly guarded) push_back statements: ('P',) / ('G', cond, (...)) items, or None"""
    out = []
    for s in body:
        if s[0] == "expr" and s[1][0] == "mcall" and s[1][1] in ("push_back", "emplace_back"):
            out.append(("P",))
        elif s[0] == "if" and not s[3]:
            inner = _push_shape(s[2])
            if inner is None:
                return None
            out.append(("G", repr(_noline(s[1])), tuple(inner)))
        else:
            return None
    return tuple(out) if out else None


def _push_target(body):
    t = set()
    for m in find_all(tuple(body), lambda k: k[0] == "mcall" and k[1] in ("push_back", "emplace_back")):
        t.add(repr(_norm_len(m[3], {})))
    return t


def rule_parallel_build(rep, fb, floor=1, name="PAIR.parallel-build"):
    r = rep.rule(name, "when one function fills two different vectors with loops over the same range whose bodies are the same set of guarded/unguarded push_back steps (contents and their field names, contents and "
                 "their forms ...), the steps come in the same order in both loops: the vectors are read back by position", floor=floor)
    for f in fb.lib_funcs(inst=False):
        loops = []
        for lp in find_all(f["body"], lambda k: k[0] in ("for", "foreach")):
            body = _loop_body(lp)
            sh = _push_shape(body)
            if sh is None or len(sh) < 2:
                continue
            hdr = repr(_noline(lp[1])) if lp[0] == "for" else repr(_noline(lp[3]))
            loops.append((hdr, sh, _push_target(body), lp))
        n = 0
        for i in range(len(loops)):
            for j in range(i + 1, len(loops)):
                a, b = loops[i], loops[j]
                if a[0] != b[0] or a[2] == b[2]:
                    continue
                if sorted(map(repr, a[1])) != sorted(map(repr, b[1])):
                    continue
                n += 1
                key = "%s#loops%d" % (f["qual"], n)
                r.check(a[1] == b[1], key, "%s:%d" % (f["file"], b[3][-1]),
                        "%s fills two vectors with loops over the same range (lines %d and %d) made of the same guarded/unguarded push_back steps, but in a different order: the element inserted under the guard lands at different positions in the two vectors"
                        % (f["qual"], a[3][-1], b[3][-1]), detail="same step order")
    return r.done()


# ------------------------------------------------------------------------------------------------
# L-17  a derived VirtualArray caches the depths of the form its generator was given

def rule_virtual_depths(rep, fb, floor=6, name="FORWARD.virtual-depths"):
    r = rep.rule(name, "when a VirtualArray method builds a derived VirtualArray around a SliceGenerator, the depth cache (purelist_depth / minmax_depth / branch_depth answered without materialising) is filled from "
                 "the form given to that generator whenever that form is a projection (getitem_field/getitem_fields) of the original's - only a form-preserving slice may copy the original's cache (`this`)", floor=floor)
    fs = [f for f in fb.lib_funcs(inst=False) if (f.get("cls") or "") == "VirtualArray"]
    if len(fs) < 30:
        raise AnalysisError("VirtualArray methods not found")
    for f in fs:
        gens = find_all(f["body"], lambda k: k[0] in ("make", "ctor") and "SliceGenerator" in str(k[1]) and k[2])
        sets = find_all(f["body"], lambda k: k[0] == "mcall" and k[1] == "set_cache_depths_from" and k[4])
        if not gens or not sets:
            continue
        decls = cs.local_decls(f)
        for n, g in enumerate(gens, 1):
            F = g[2][0]
            projected = False
            if F[0] == "var":
                defs = [d[3] for d in decls.get(F[1]) or [] if d[3] is not None] + [a[2] for a in find_all(f["body"], lambda k: k[0] == "assign" and k[1] == F)]
                projected = any(find_all((d,), lambda k: k[0] == "mcall" and k[1] in ("getitem_field", "getitem_fields")) for d in defs)
            key = "%s#generator%d" % (f["qual"], n)
            where = "%s:%d" % (f["file"], g[-1] if isinstance(g[-1], int) else f["line"])
            if not projected:
                r.ok(key, "form-preserving slice")
                continue
            good = all(_noline(s[4][0]) == _noline(F) for s in sets)
            r.check(good, key, where, "%s gives its SliceGenerator the projected form `%s` but fills the derived array's depth cache from %s: the lazily picked field then reports the record's depths instead of its own"
                    % (f["qual"], F[1], [str(_noline(s[4][0]))[:30] for s in sets if _noline(s[4][0]) != _noline(F)]), detail="depth cache from the projected form")
    return r.done()


# ------------------------------------------------------------------------------------------------
# L-18  rpad never clips, rpad_and_clip always does

def rule_clip_flag(rep, fb, floor=14, name="FORWARD.clip-flag"):
    r = rep.rule(name, "every node class's rpad calls rpad_axis0(target, false) and its rpad_and_clip calls rpad_axis0(target, true): the flag is the only difference between the two operations at axis 0", floor=floor)
    for f in fb.lib_funcs(inst=False):
        if f["name"] not in ("rpad", "rpad_and_clip"):
            continue
        n = 0
        for m in find_all(f["body"], lambda k: k[0] == "mcall" and k[1] == "rpad_axis0" and len(k[4]) == 2):
            n += 1
            want = f["name"] == "rpad_and_clip"
            got = m[4][1]
            key = "%s#rpad_axis0#%d" % (f["qual"], n)
            r.check(got == ("const", want) or got == ("const", int(want)), key, "%s:%d" % (f["file"], m[-1]),
                    "%s calls rpad_axis0 with clip = %s (expected %s)" % (f["qual"], got[1] if got[0] == "const" else got, str(want).lower()), detail="clip = %s" % str(want).lower())
    return r.done()


# ------------------------------------------------------------------------------------------------
# L-19  a RecordArray rebuilt field by field keeps its own length

def rule_record_rebuild_length(rep, fb, floor=8, name="REBUILD.record-length"):
    r = rep.rule(name, "a RecordArray method that applies an (axis, depth) operation, fillna or a dtype conversion to each field and wraps the results in a new RecordArray passes an explicit length "
                 "(length_ or the operation's own output length), unless every field was first trimmed to length() and a record array without fields is refused: the 4-argument constructor takes the minimum field length (0 for no fields), and fields may be longer than the record array", floor=floor)
    names = ("num", "rpad", "rpad_and_clip", "localindex", "combinations", "offsets_and_flattened", "fillna", "numbers_to_type", "reduce_next", "sort_next", "argsort_next", "getitem_next")
    for f in fb.lib_funcs(inst=False):
        if (f.get("cls") or "") != "RecordArray" or f["name"] not in names:
            continue
        n = 0
        trimmed = bool(find_all(f["body"], lambda k: k[0] == "mcall" and k[1] in ("getitem_range", "getitem_range_nowrap") and len(k[4]) == 2 and k[4][0] == ("const", 0)
                                and find_all((k[4][1],), lambda m: (m[0] == "mcall" and m[1] == "length") or m == ("member", ("this",), "length_"))))
        # the minimum over zero fields is 0: the 4-argument form is right only where a record array without fields has been refused
        nofields = bool(find_all(f["body"], lambda k: k[0] == "if" and find_all((k[1],), lambda m: m[0] == "mcall" and m[1] == "empty" and "contents" in repr(m[3]))
                                 and find_all(k[2], lambda m: m[0] == "throw")))
        trimmed = trimmed and nofields
        for m in find_all(f["body"], lambda k: k[0] in ("make", "ctor") and str(k[1]) == "RecordArray"):
            n += 1
            key = "%s#RecordArray#%d" % (f["qual"], n)
            explicit = len(m[2]) >= 5
            r.check(explicit or trimmed, key, "%s:%d" % (f["file"], m[-1] if isinstance(m[-1], int) else f["line"]),
                    "%s wraps per-field results in a RecordArray without an explicit length although the fields are not trimmed to length(): fields longer than the record array leak extra records" % f["qual"],
                    detail="explicit length" if explicit else "fields trimmed to length(), zero fields refused")
    return r.done()


# ------------------------------------------------------------------------------------------------
# L-20  an Index view is built around (ptr, offset) of ONE Index

def rule_index_ptr_offset(rep, fb, floor=8, name="INDEX.ptr-offset"):
    import re as _re
    r = rep.rule(name, "an Index constructed around the buffer pointer of an existing Index X (X.ptr() / ptr_) takes its offset from X's offset (X.offset() / offset_, possibly plus a start): a literal or foreign offset "
                 "is right only for an Index allocated in the same function", floor=floor)
    cs.load_field_types(fb)
    isidx_t = _re.compile(r"\b(Index(Of<.*>|8|U8|32|U32|64))(?!\w)")
    for f in fb.lib_funcs(inst=False):
        decls = cs.local_decls(f)
        n = 0
        for m in find_all(f["body"], lambda k: k[0] in ("ctor", "make") and _re.match(r"(const )?Index(Of<.*>|8|U8|32|U32|64)$", str(k[1])) and len(k[2]) >= 3):
            P, O = m[2][0], m[2][1]
            pown = None
            if P[0] == "mcall" and P[1] == "ptr":
                pown = P[3]
            elif P[0] == "member" and P[2] == "ptr_":
                pown = P[1]
            if pown is None:
                continue
            while pown[0] == "deref":
                pown = pown[1]
            # type of the owner
            t = None
            fresh = False
            if pown == ("this",):
                t = f.get("cls") or ""
                t = "IndexOf<T>" if t.startswith("IndexOf") else t
            elif pown[0] == "var":
                ds = decls.get(pown[1]) or []
                t = " ".join(str(d[2]) for d in ds) or " ".join(pt for pn, pt in f["params"] if pn == pown[1])
                fresh = bool(ds) and all(d[3] is not None and d[3][0] == "ctor" and d[3][2] and cs._is_lengthlike(d[3][2][0], f, decls) for d in ds)
            elif pown[0] == "member" and pown[1] == ("this",):
                t = cs.FIELD_TYPES.get((f.get("cls") or f["qual"].split("::")[0], pown[2]), "")
            if not t or not isidx_t.search(str(t)):
                continue
            n += 1
            key = "%s#Index#%d" % (f["qual"], n)
            where = "%s:%d" % (f["file"], m[-1] if isinstance(m[-1], int) else f["line"])
            own = _noline(pown)
            from_owner = bool(find_all((O,), lambda k: (k[0] == "mcall" and k[1] == "offset" and _noline(k[3] if k[3][0] != "deref" else k[3][1]) == own) or (k[0] == "member" and k[2] == "offset_" and _noline(k[1]) == own)))
            if fresh:
                r.check(from_owner or O == ("const", 0), key, where, "%s views the Index `%s` it has just allocated with an offset that is neither 0 nor that Index's own" % (f["qual"], pown[1]), detail="fresh Index, offset 0")
            else:
                r.check(from_owner, key, where, "%s builds an Index around the buffer of `%s` with offset `%s`, which is not derived from that Index's own offset: a view of a sliced Index starts at the wrong element"
                        % (f["qual"], str(own)[:40], str(_noline(O))[:50]), detail="offset derived from the owner's offset")
    return r.done()


# ------------------------------------------------------------------------------------------------
# L-21  a pointer that a test has just found to be null is not dereferenced in that branch

def rule_null_branch_deref(rep, fb, floor=300, name="NULL.deref-in-else"):
    r = rep.rule(name, "in `if (T* p = dynamic_cast<T*>(x)) {...} else {...}` (and `if (p != nullptr)` / `if (p == nullptr)` on a local pointer) the branch in which p is null does not dereference p: "
                 "the code has just stated that p may be null there", floor=floor)
    for f in fb.lib_funcs(inst=False):
        cnt = {}
        for s in find_all(f["body"], lambda k: k[0] == "if" and k[1][0] == "declcond" and k[1][3] is not None and "*" in str(k[1][2])):
            p = s[1][1]
            cnt[p] = cnt.get(p, 0) + 1
            key = "%s#%s#%d" % (f["qual"], p, cnt[p])
            els = s[3]
            # stop at a nested re-declaration of the same name (else-if chains re-bind `raw`)
            bad = []

            def uses(x):
                return find_all((x,), lambda k: (k[0] == "mcall" and k[3] in (("var", p), ("deref", ("var", p)))) or (k[0] == "member" and k[1] in (("var", p), ("deref", ("var", p)))))

            def scan(block):
                """dereferences of p in this block while p still denotes the null pointer (a re-declaration or assignment ends that)"""
                for st in block:
                    if st[0] == "decl" and st[1] == p:
                        return False
                    if st[0] == "assign" and st[1] == ("var", p):
                        return False
                    if st[0] == "if" and st[1][0] == "declcond" and st[1][1] == p:
                        bad.extend(uses(st[1][3]))
                        scan(st[3])          # then-branch: p re-bound and non-null; else-branch: still the pattern of the inner if
                        continue
                    for e in cs.head_exprs(st):
                        bad.extend(uses(e))
                    for blk in cs.sub_blocks(st):
                        scan(blk)
                return True
            scan(els)
            r.check(not bad, key, "%s:%d" % (f["file"], bad[0][-1] if bad and isinstance(bad[0][-1], int) else s[-1]),
                    "%s dereferences `%s` in the else-branch of `if (%s %s = dynamic_cast...)`, i.e. exactly when the cast failed and %s is null" % (f["qual"], p, s[1][2], p, p), detail="not dereferenced where null")
    return r.done()


# ------------------------------------------------------------------------------------------------
# L-22  comparators handed to std::sort / stable_sort are strict

def rule_strict_comparator(rep, fb, floor=6, name="CMP.strict-weak"):
    r = rep.rule(name, "a comparator passed to std::sort / std::stable_sort / std::nth_element never returns the negation of a less-than result nor a non-strict comparison (!x, >=, <=): "
                 "that is not a strict weak ordering - stable_sort then reverses ties and std::sort has undefined behaviour on equal elements; descending order is obtained by swapping the operands", floor=floor)
    funcs = list(fb.lib_funcs(inst=False))
    for p, tu in sorted(fb.kernel_tus().items()):
        funcs += [f for f in tu["funcs"] if not f["inst"]]
    sorts = ("std::sort", "std::stable_sort", "std::nth_element", "std::partial_sort", "std::lower_bound", "std::upper_bound", "sort", "stable_sort")
    for f in funcs:
        n = 0
        lambdas = {d[1]: d[3] for d in find_all(f["body"], lambda k: k[0] == "decl" and k[3] is not None and k[3][0] == "lambda")}
        for c in find_all(f["body"], lambda k: k[0] == "call" and k[1][0] == "fn" and str(k[1][1]) in sorts and len(k[2]) >= 3):
            cmpa = c[2][-1]
            lam = cmpa if cmpa[0] == "lambda" else (lambdas.get(cmpa[1]) if cmpa[0] == "var" else None)
            if lam is None:
                continue
            n += 1
            key = "%s#comparator%d" % (f["qual"], n)
            bad = []
            for ret in find_all(lam[2], lambda k: k[0] == "return" and k[1] is not None):
                e = ret[1]
                while e[0] == "cast":
                    e = e[3]
                if e[0] == "un" and e[1] == "!":
                    bad.append(("negation", ret[-1]))
                elif e[0] == "bin" and e[1] in (">=", "<="):
                    bad.append(("non-strict %s" % e[1], ret[-1]))
            r.check(not bad, key, "%s:%d" % (f["file"], bad[0][1] if bad else c[-1]),
                    "%s: the comparator given to %s returns a %s at line %d - not a strict weak ordering (ties compare 'less' both ways)" % (f["qual"], c[1][1], bad[0][0] if bad else "", bad[0][1] if bad else 0),
                    detail="every return is a strict comparison")
    return r.done()


# ------------------------------------------------------------------------------------------------
# L-23  text is accepted as a number only if all of it is a number

_STO_TABLE = {
    "util::datetime_data#stoi#1": "the argument is the substring between the first and the last digit of a NumPy datetime unit such as [10ns]; NumPy's own dtype strings have a single run of digits there",
}


def rule_whole_token(rep, fb, floor=4, name="STR.whole-token"):
    r = rep.rule(name, "std::stoi/stol/stoll/stoul/stoull/stod accept any string with a numeric prefix: wherever libawkward classifies a token with them, either the consumed length (second argument) is compared "
                 "with the token's size, or the token has been checked to consist of digits (find_first_not_of) beforehand", floor=floor)
    names = ("std::stoi", "std::stol", "std::stoll", "std::stoul", "std::stoull", "std::stod", "std::stof", "stoi", "stol", "stoul", "stoull", "stoll")
    for f in fb.lib_funcs(inst=False):
        cnt = {}
        for c in find_all(f["body"], lambda k: k[0] == "call" and k[1][0] == "fn" and str(k[1][1]) in names and k[2]):
            nm = str(c[1][1]).split("::")[-1]
            cnt[nm] = cnt.get(nm, 0) + 1
            key = "%s#%s#%d" % (f["qual"], nm, cnt[nm])
            where = "%s:%d" % (f["file"], c[-1])
            ok = False
            if len(c[2]) >= 2 and c[2][1][0] == "addr" and c[2][1][1][0] == "var":
                used = c[2][1][1][1]
                # `used` is compared with a size somewhere in the function
                ok = bool(find_all(f["body"], lambda k: k[0] == "bin" and k[1] in ("!=", "==", "<") and ("var", used) in (k[2], k[3]) and find_all((k,), lambda m: m[0] == "mcall" and m[1] in ("size", "length"))))
            if not ok:
                ok = bool(find_all(f["body"], lambda k: k[0] == "mcall" and k[1] == "find_first_not_of"))
            if not ok and key in _STO_TABLE:
                r.excepted(key, _STO_TABLE[key])
                r.ok(key)
                continue
            r.check(ok, key, where, "%s converts text with %s without checking that the whole text was consumed: any string with a numeric prefix is accepted as that number" % (f["qual"], nm),
                    detail="consumed length compared with the size, or digits-only check")
    return r.done()


# ------------------------------------------------------------------------------------------------
# L-24  a mask or size built by shifting the int literal 1 by a variable amount is not widened afterwards

def rule_shift_literal(rep, fb, floor=1, name="WIDTH.shift-literal"):
    r = rep.rule(name, "`1 << n` with a variable n is an int shift (undefined from n = 31): where its value initialises or is combined with a 64-bit quantity the literal is first given 64 bits "
                 "((uint64_t)1 << n, 1LL << n)", floor=floor)
    funcs = list(fb.lib_funcs(inst=False))
    for p, tu in sorted(fb.kernel_tus().items()):
        funcs += [f for f in tu["funcs"] if not f["inst"]]
    total = 0
    for f in funcs:
        n = 0

        def visit(x, wide, f=f):
            nonlocal n, total
            if not isinstance(x, tuple) or not x:
                return
            if x[0] == "decl":
                w = bool(x[2]) and ("64" in str(x[2]) or "long" in str(x[2]) or "size_t" in str(x[2]))
                visit(x[3], w)
                return
            if x[0] == "bin" and x[1] == "<<":
                total += 1
                lhs = x[2]
                if lhs[0] == "const" and lhs[1] == 1 and x[3][0] != "const":
                    n += 1
                    r.check(not wide, "%s#shift%d" % (f["qual"], n), "%s:%d" % (f["file"], f["line"]),
                            "%s computes `1 << %s` as an int and then uses it as a 64-bit value: wrong from a shift of 31" % (f["qual"], str(x[3])[:30]), detail="int shift used as int")
                    return
            if x[0] == "cast" and ("64" in str(x[2]) or "long" in str(x[2])):
                # (uint64_t)(1 << n) is still an int shift; (uint64_t)1 << n is handled by the lhs not being a bare const
                visit(x[3], True)
                return
            for y in x:
                if isinstance(y, tuple):
                    visit(y, wide)
        for s in f["body"]:
            visit(s, False)
    r.count("shift_expressions", total)
    if total < 20:
        raise AnalysisError("only %d shift expressions found (front end lost them?)" % total)
    r.ok("all-shifts", "%d shift expressions scanned" % total)
    return r.done()


# ------------------------------------------------------------------------------------------------
# L-25  geometric growth makes progress

def rule_growth_progress(rep, fb, floor=2, name="GROW.progress"):
    r = rep.rule(name, "a capacity computed as ceil(capacity * factor) is only used after being forced above the old capacity (compared with it, with capacity + 1 as the fallback): with capacity 0 or factor <= 1 "
                 "the product does not grow - the write that follows lands outside the allocation, or the sizing loop never ends", floor=floor)
    for f in fb.lib_funcs(inst=False):
        n = 0
        for st in find_all(f["body"], lambda k: k[0] in ("decl", "assign", "expr")):
            e = st[3] if st[0] == "decl" else (st[2] if st[0] == "assign" else st[1])
            if e is None:
                continue
            ceils = find_all((e,), lambda k: k[0] == "call" and k[1][0] == "fn" and str(k[1][1]).split("::")[-1] == "ceil" and k[2] and find_all((k[2][0],), lambda m: m[0] == "bin" and m[1] == "*"))
            if not ceils:
                continue
            mul = find_all((ceils[0][2][0],), lambda m: m[0] == "bin" and m[1] == "*")[0]
            caps = [x for x in (mul[2], mul[3]) if find_all((x,), lambda m: (m[0] == "member" and "reserv" in m[2]) or (m[0] == "var" and "reserv" in m[1]))]
            if not caps:
                continue
            n += 1
            key = "%s#growth%d" % (f["qual"], n)
            where = "%s:%d" % (f["file"], st[-1])
            # the grown value must be held in a variable that is then compared with the old capacity
            held = st[1] if st[0] == "decl" else (st[1][1] if st[0] == "assign" and st[1][0] == "var" else None)
            cap = caps[0]
            capname = cap[2] if cap[0] == "member" else (cap[1] if cap[0] == "var" else None)
            ok = False
            if held and held != capname:
                ok = bool(find_all(f["body"], lambda k: k[0] in ("cond", "bin") and find_all((k,), lambda m: m == ("var", held)) and find_all((k,), lambda m: m[0] == "bin" and m[1] in (">", "<", ">=", "<=") and ("var", held) in (m[2], m[3]))
                                   and find_all((k,), lambda m: m[0] == "bin" and m[1] == "+" and ("const", 1) in (m[2], m[3]))))
            r.check(ok, key, where, "%s takes ceil(capacity * factor) as the new capacity without forcing it above the old one: no growth from capacity 0 or with a factor <= 1" % f["qual"],
                    detail="compared with the old capacity, + 1 as fallback")
    return r.done()


# ------------------------------------------------------------------------------------------------
# L-26  call sites of one kernel (or of tabled sibling kernels) size a written buffer by the same kernel argument

_SIZING_SIBLINGS = {"kernel::RegularArray_combinations_64": "kernel::ListArray_combinations_64"}


def rule_sibling_sizing(rep, fb, floor=60, name="KBOUND.sibling-sizing"):
    import re as _re
    from . import kwrites
    from .kspec import cexpr, unparse
    r = rep.rule(name, "where KBOUND.affine cannot decide an allocation symbolically it is still cross-checked: over all call sites of one kernel (RegularArray_combinations_64 counted with its sibling ListArray_combinations_64), "
                 "a buffer the kernel writes is sized by the same kernel argument(s) - a site that sizes it by a different argument than its siblings has the wrong length for some inputs", floor=floor)
    api = cs.kernel_api(fb)
    kw = kwrites.kernel_api_writes(fb)
    sites = cs.kernel_sites(fb, api)

    def alloc_expr(arg, s):
        e = arg
        while True:
            if e[0] in ("deref", "addr"):
                e = e[1]
            elif e[0] == "cast":
                e = e[3]
            elif e[0] == "mcall" and e[1] in ("data", "get", "ptr"):
                e = e[3]
            else:
                break
        if e[0] != "var":
            return None
        ds = cs.scoped_defs(s).get(e[1]) or []
        if len(ds) != 1 or ds[0][3] is None:
            return None
        init = ds[0][3]
        if init[0] == "ctor" and _re.match(r"(const )?Index(Of<.*>|8|U8|32|U32|64)(?!\w)", str(ds[0][2])) and init[2]:
            return init[2][0]
        if init[0] == "call" and init[1][0] == "fn" and init[1][1] == "kernel::malloc" and len(init[2]) == 2:
            n = init[2][1]
            while n[0] == "cast":
                n = n[3]
            if n[0] == "bin" and n[1] == "*":
                for a, b in ((n[2], n[3]), (n[3], n[2])):
                    bb = b
                    while bb[0] == "cast":
                        bb = bb[3]
                    if bb[0] == "sizeof":
                        return a
        return None
    groups = {}
    for key, s in cs.keyed(sites):
        names = api[s.name]["overloads"][0][0]
        args = s.call[2]
        if len(names) != len(args):
            continue
        wr = kw.get(s.name, set())
        byval = {}
        for n_, a in zip(names, args):
            byval.setdefault(repr(_norm_len(a, {})), set()).add(n_)
        for pn, a in zip(names, args):
            if pn not in wr:
                continue
            ae = alloc_expr(a, s)
            if ae is None:
                continue
            labels = byval.get(repr(_norm_len(ae, {})), set())
            if not labels:
                if s.name not in _SIZING_SIBLINGS and s.name not in _SIZING_SIBLINGS.values():
                    continue   # sized by an expression that is not itself a kernel argument: left to KBOUND.affine
                labels = {"<" + unparse(cexpr(ae))[:40] + ">"}   # tabled sibling kernels share their scratch-buffer contract: compare the expression too
            groups.setdefault((_SIZING_SIBLINGS.get(s.name, s.name), pn), []).append((key, s, frozenset(labels), unparse(cexpr(ae))[:40]))
    for (k, pn), members in sorted(groups.items()):
        if len(members) < 2:
            continue
        common = frozenset.intersection(*[m[2] for m in members])
        # majority label set
        counts = {}
        for m in members:
            for l in m[2]:
                counts[l] = counts.get(l, 0) + 1
        best = max(counts.items(), key=lambda kv: kv[1])[0]
        for key, s, labels, txt in members:
            r.check(bool(common) or best in labels, "%s:%s" % (key, pn), "%s:%d" % (s.func["file"], s.line),
                    "%s sizes the buffer bound to '%s' of %s by its argument %s (%s), while the other call sites of this kernel family size it by '%s'" % (s.func["qual"], pn, s.name, sorted(labels), txt, best),
                    detail="sized by %s like its siblings" % (sorted(common) or best))
    return r.done()


# ------------------------------------------------------------------------------------------------
# L-27  an operand is classified by class only after VirtualArrays have been unwrapped

def rule_virtual_unwrap_first(rep, fb, floor=2, name="VIRTUAL.unwrap-first"):
    r = rep.rule(name, "a chain of class tests (dynamic_casts) on an operand that also has a VirtualArray arm uses the generated array only after classifying it: the arm re-binds the operand or re-dispatches, "
                 "or the operand was unwrapped (x = virt->array()) before the chain - otherwise an option/indexed/union array inside a VirtualArray takes the branch meant for plain arrays", floor=floor)
    for f in fb.lib_funcs(inst=False):
        n = [0]

        def onblock(stmts, cont, f=f):
            for i, s in enumerate(stmts):
                if s[0] != "if":
                    continue
                arms, el = _chain(s)
                if len(arms) < 2:
                    continue
                for c, blk in arms:
                    if not (c[0] == "declcond" and "VirtualArray" in str(c[2]) and c[3] is not None):
                        continue
                    subj = {v[1] for v in find_all((c[3],), lambda k: k[0] == "var")}
                    # the other arms test the same subject against other classes
                    others = [c2 for c2, _b in arms if c2 is not c and find_all((c2,), lambda k: k[0] == "cast" and k[1] == "dynamic" and {v[1] for v in find_all((k[3],), lambda m: m[0] == "var")} & subj)]
                    if not others:
                        continue
                    n[0] += 1
                    key = "%s#chain%d" % (f["qual"], n[0])
                    rebinds = bool(find_all(blk, lambda k: k[0] == "assign" and k[1][0] == "var" and k[1][1] in subj))
                    redispatch = bool(find_all(blk, lambda k: k[0] == "mcall" and k[1] == f["name"]))
                    pre = False
                    for t in stmts[:i]:
                        if t[0] in ("while", "if") and t[1][0] == "declcond" and "VirtualArray" in str(t[1][2]) and find_all(t[2], lambda k: k[0] == "assign" and k[1][0] == "var" and k[1][1] in subj):
                            pre = True
                    r.check(rebinds or redispatch or pre, key, "%s:%d" % (f["file"], s[-1]),
                            "%s classifies `%s` by class and, in the VirtualArray arm, uses the generated array without classifying it: a virtual option/indexed/union array is treated like a plain one" % (f["qual"], sorted(subj)[0] if subj else "?"),
                            detail="unwrapped before the class tests")
        cs.each_block_cont(f["body"], onblock)
    return r.done()


# ------------------------------------------------------------------------------------------------
# L-28  a node's own identities_/parameters_ go only onto a rebuilt node of its own kind

_NODE_KIND = (("IndexedOptionArray", "option"), ("ByteMaskedArray", "option"), ("BitMaskedArray", "option"), ("UnmaskedArray", "option"), ("IndexedArray", "indexed"), ("ListOffsetArray", "list"),
              ("ListArray", "list"), ("RegularArray", "list"), ("NumpyArray", "numpy"), ("UnionArray", "union"), ("RecordArray", "record"), ("EmptyArray", "empty"))
_OWN_META_TABLE = {
    "EmptyArray::toNumpyArray": "a conversion of the node itself into its NumpyArray equivalent: same position in the tree, same metadata",
    "IndexedArrayOf::fillna": "the option node is replaced, at the same position, by the union of its content and the fill value: the replacement keeps the node's parameters",
}


def _node_kind(c):
    c = re.sub(r"Of(?=$|<)", "", str(c))     # IndexedArrayOf<...> -> IndexedArray; not the "Of" inside ListOffsetArray
    for n, k in _NODE_KIND:
        if c.startswith(n):
            return k
    return None


def rule_own_metadata(rep, fb, floor=150, name="REBUILD.own-metadata"):
    r = rep.rule(name, "identities_ and parameters_ describe the node that holds them: they are passed to a constructor only when the constructed node is the same kind of node "
                 "(list, option, indexed, union, record, numpy), never to a node of another kind inserted below or above it - there they have the wrong length and change the item type", floor=floor)
    for f in fb.lib_funcs(inst=False):
        ck = _node_kind(f.get("cls") or "")
        if not ck:
            continue
        kinds = {ck, "option"} if (f.get("cls") or "").startswith("IndexedArrayOf") else {ck}
        n = 0
        for m in find_all(f["body"], lambda k: k[0] in ("make", "ctor") and _node_kind(k[1]) and len(k[2]) >= 3):
            a0, a1 = m[2][0], m[2][1]
            own = (a0 == ("member", ("this",), "identities_")) or (a1 == ("member", ("this",), "parameters_"))
            if not own:
                continue
            n += 1
            key = "%s#%s#%d" % (f["qual"], m[1], n)
            tk = _node_kind(m[1])
            if tk not in kinds and f["qual"] in _OWN_META_TABLE:
                r.excepted(key, _OWN_META_TABLE[f["qual"]])
                r.ok(key)
                continue
            r.check(tk in kinds, key, "%s:%d" % (f["file"], m[-1] if isinstance(m[-1], int) else f["line"]),
                    "%s gives its own identities_/parameters_ to a %s, a node of another kind (%s, not %s)" % (f["qual"], m[1], tk, "/".join(sorted(kinds))), detail="same kind of node")
    return r.done()


# ------------------------------------------------------------------------------------------------
# L-29  option and union nodes rebuilt around per-content results are simplified

def rule_rebuilt_simplified(rep, fb, floor=25, name="CANON.rebuilt-simplified"):
    r = rep.rule(name, "in the (axis, depth) operations, fillna and combinations of the option and union classes, a node of the class's own kind built around the result of an operation on its content(s) has "
                 "simplify_optiontype() / simplify_uniontype() applied before it is returned: the operation may return an option or union (\"the operation that made it might have forgotten to call simplify\", as the validity check puts it)", floor=floor)
    methods = ("num", "offsets_and_flattened", "rpad", "rpad_and_clip", "localindex", "combinations", "fillna")
    for f in fb.lib_funcs(inst=False):
        ck = _node_kind(f.get("cls") or "")
        if ck not in ("option", "union", "indexed") or f["name"] not in methods:
            continue
        simplified = set()
        for m in find_all(f["body"], lambda k: k[0] == "mcall" and k[1] in ("simplify_optiontype", "simplify_uniontype")):
            for x in find_all((m[3],), lambda k: k[0] in ("make", "ctor")):
                simplified.add(id(x))
            for v in find_all((m[3],), lambda k: k[0] == "var"):
                simplified.add(("var", v[1]))
        n = 0
        # locals that hold (a part of) the result of the operation on the content: `pair = next.offsets_and_flattened(..)`, `flattened = pair.second`
        opvars = set()
        decls = find_all(f["body"], lambda k: k[0] == "decl" and k[3] is not None and "ContentPtr" in str(k[2]) or (k[0] == "decl" and k[3] is not None and "pair" in str(k[2])))
        grew = True
        while grew:
            grew = False
            for d in decls:
                if d[1] in opvars:
                    continue
                if find_all((d[3],), lambda k: (k[0] == "mcall" and k[1] in methods) or (k[0] == "var" and k[1] in opvars)):
                    opvars.add(d[1])
                    grew = True
        for m in find_all(f["body"], lambda k: k[0] in ("make", "ctor") and _node_kind(k[1]) in ("option", "union", "indexed") and len(k[2]) >= 3):
            ops = find_all(tuple(m[2]), lambda k: k[0] == "mcall" and k[1] in methods + ("project", "carry"))
            cvars = [a for a in m[2] if a[0] == "var" and (a[1] in ("contents", "next", "out", "content", "nextcontent") or a[1] in opvars)]
            if not ops and not cvars:
                continue
            n += 1
            ok = id(m) in simplified
            if not ok:
                for d in find_all(f["body"], lambda k: k[0] == "decl" and k[3] is not None and find_all((k[3],), lambda x: x is m)):
                    if ("var", d[1]) in simplified:
                        ok = True
            r.check(ok, "%s#%s#%d" % (f["qual"], m[1], n), "%s:%d" % (f["file"], m[-1] if isinstance(m[-1], int) else f["line"]),
                    "%s wraps the result of an operation on its content in a %s without simplifying it" % (f["qual"], m[1]), detail="simplify_*type() applied")
    # methods of the base class run for every node class: an IndexedArray / IndexedOptionArray wrapped around `this` (shallow_copy()) may wrap an option
    for f in fb.lib_funcs(inst=False):
        if (f.get("cls") or "") != "Content":
            continue
        simplified = set()
        for m in find_all(f["body"], lambda k: k[0] == "mcall" and k[1] in ("simplify_optiontype", "simplify_uniontype")):
            for x in find_all((m[3],), lambda k: k[0] in ("make", "ctor")):
                simplified.add(id(x))
            for v in find_all((m[3],), lambda k: k[0] == "var"):
                simplified.add(("var", v[1]))
        n = 0
        for m in find_all(f["body"], lambda k: k[0] in ("make", "ctor") and _node_kind(k[1]) in ("option", "indexed") and len(k[2]) >= 3):
            if not find_all(tuple(m[2]), lambda k: k[0] == "mcall" and k[1] == "shallow_copy"):
                continue
            n += 1
            viavar = any(("var", d[1]) in simplified for d in find_all(f["body"], lambda k: k[0] == "decl" and k[3] is not None and find_all((k[3],), lambda x: x is m)))
            r.check(id(m) in simplified or viavar, "%s#%s(shallow_copy)#%d" % (f["qual"], m[1], n), "%s:%d" % (f["file"], m[-1] if isinstance(m[-1], int) else f["line"]),
                    "%s wraps the array itself (shallow_copy()) in a %s without simplify_optiontype(): for an option or indexed array this nests two index nodes, which the validity check rejects" % (f["qual"], m[1]), detail="simplify_optiontype() applied")
    return r.done()


# ------------------------------------------------------------------------------------------------
# L-30  identities of the min / max reducers

def rule_reducer_identity(rep, fb, floor=20, name="REDUCER.identity"):
    r = rep.rule(name, "ReducerMin::apply_<T> and ReducerMax::apply_<T> start from the largest / smallest value of T (numeric_limits<...>::max / min / infinity, negated for max): "
                 "a literal such as 0 as the starting value wins against every group whose items all lie on the other side of it", floor=floor)
    for f in fb.lib_funcs(inst=False):
        if (f.get("cls") or "") not in ("ReducerMin", "ReducerMax") or not f["name"].startswith("apply_") or f["name"] in ("apply_bool",):
            continue
        ds = [d for d in find_all(f["body"], lambda k: k[0] == "decl" and k[1] == "initial")]
        if not ds:
            continue
        d = ds[0]
        uses_limits = d[3] is not None and bool(find_all((d[3],), lambda k: (k[0] == "call" and ("numeric_limits" in str(k[1][1]) or str(k[1][1]).split("::")[-1] in ("infinity", "max", "min", "lowest"))) or (k[0] == "mcall" and k[1] in ("infinity", "max", "min", "lowest"))))
        r.check(uses_limits, "%s#initial" % f["qual"], "%s:%d" % (f["file"], d[-1]), "%s starts from the literal %s instead of the extreme value of its type" % (f["qual"], str(d[3])[:30]), detail="numeric_limits")
    return r.done()


# ------------------------------------------------------------------------------------------------
# L-31  the depth queries of a record agree on the zero-field case

def rule_zero_field_depths(rep, fb, floor=4, name="DEPTH.zero-field"):
    r = rep.rule(name, "for a record with no fields, purelist_depth() is 1, and minmax_depth(), branch_depth() of RecordArray and RecordForm answer the same depth 1 in their `contents_.empty()` branch: "
                 "the negative-axis wrap combines these queries and is off by one level when they disagree", floor=floor)
    for f in fb.lib_funcs(inst=False):
        if (f.get("cls") or "") not in ("RecordArray", "RecordForm") or f["name"] not in ("minmax_depth", "branch_depth"):
            continue
        found = False
        for s in find_all(f["body"], lambda k: k[0] == "if" and find_all((k[1],), lambda m: m[0] == "mcall" and m[1] == "empty")):
            rets = find_all(s[2], lambda k: k[0] == "return" and k[1] is not None)
            if not rets:
                continue
            found = True
            consts = [c[1] for c in find_all((rets[0][1],), lambda k: k[0] == "const" and isinstance(k[1], int) and not isinstance(k[1], bool))]
            r.check(bool(consts) and all(c == 1 for c in consts), "%s#empty" % f["qual"], "%s:%d" % (f["file"], rets[0][-1]),
                    "%s answers depth %s for a record without fields (purelist_depth says 1)" % (f["qual"], consts), detail="depth 1")
        if not found:
            r.fail("%s#empty" % f["qual"], "%s:%d" % (f["file"], f["line"]), "%s has no branch for a record without fields" % f["qual"])
    return r.done()


# ------------------------------------------------------------------------------------------------
# L-32  copying a JSON value: each type test is paired with its own getter and writer

def rule_copyjson_pairs(rep, fb, floor=5, name="TABLE.copyjson"):
    r = rep.rule(name, "in copyjson (parameters into Form JSON) every arm `value.IsX()` writes with `writer.X'(value.GetX())` of the same type family (Bool, Int/Int64, Uint64, Double, String), and the integer arms cover "
                 "64 bits: a Double arm that writes Int64, or an Int-only integer arm, changes or rejects parameter values", floor=floor)
    fs = [f for f in fb.lib_funcs(inst=False) if f["name"] == "copyjson"]
    if not fs:
        raise AnalysisError("copyjson not found in io/json.cpp")
    fam = {"Bool": "Bool", "Int": "Int", "Int64": "Int", "Uint": "Int", "Uint64": "Int", "Double": "Double", "String": "String"}
    f = fs[0]
    tests = set()
    n = 0
    for s in find_all(f["body"], lambda k: k[0] == "if"):
        t = [m for m in find_all((s[1],), lambda k: k[0] == "mcall" and k[1].startswith("Is") and k[1][2:] in fam)]
        if not t:
            continue
        x = t[0][1][2:]
        tests.add(x)
        n += 1
        gets = [m[1][3:] for m in find_all(s[2], lambda k: k[0] == "mcall" and k[1].startswith("Get"))]
        writes = [m[1] for m in find_all(s[2], lambda k: k[0] == "mcall" and k[1] in fam and k[3] == ("var", "writer"))]
        ok = bool(gets) and bool(writes) and all(g == x for g in gets) and all(fam[w] == fam[x] for w in writes)
        r.check(ok, "copyjson#Is%s" % x, "%s:%d" % (f["file"], s[-1]), "copyjson: the arm for Is%s() reads with Get%s and writes with %s" % (x, gets, writes), detail="same type family")
    r.check("Int64" in tests, "copyjson#int64", "%s:%d" % (f["file"], f["line"]), "copyjson has no IsInt64() arm: integers beyond 32 bits are not copied", detail="64-bit integers covered")
    return r.done()


# ------------------------------------------------------------------------------------------------
# L-33  the base pointer of a NumpyArray's buffer is not element 0 of the array

def rule_raw_base_pointer(rep, fb, floor=2, name="NUMPY.raw-base"):
    r = rep.rule(name, "ptr_.get() is the start of the (possibly shared) buffer, not of this array: in NumpyArray methods it is passed to element-processing code only together with byteoffset_ "
                 "(or to a constructor / whole-buffer copy that receives byteoffset_ separately); everything else uses data()", floor=floor)
    for f in fb.lib_funcs(inst=False):
        if (f.get("cls") or "") != "NumpyArray":
            continue
        n = 0
        for c in find_all(f["body"], lambda k: k[0] in ("call", "mcall", "make", "ctor")):
            args = c[2] if c[0] in ("call", "make", "ctor") else c[4]
            raw = [a for a in args if find_all((a,), lambda k: (k[0] == "mcall" and k[1] == "get" and k[3] == ("member", ("this",), "ptr_")) or (k[0] == "cast" and k[3] == ("member", ("this",), "ptr_")) or (k[0] == "deref" and k[1] == ("member", ("this",), "ptr_")))]
            if not raw:
                continue
            n += 1
            nm = str(c[1] if c[0] in ("mcall", "make", "ctor") else c[1][1])
            withoff = any(find_all((a,), lambda k: k == ("member", ("this",), "byteoffset_") or (k[0] == "mcall" and k[1] == "byteoffset")) for a in args)
            whole = "copy_to" in nm or nm.endswith("lib_tostring")   # whole-buffer copy; lib_tostring only reports which device owns the allocation
            r.check(withoff or whole, "%s#%s#%d" % (f["qual"], nm.replace("kernel::", ""), n), "%s:%d" % (f["file"], c[-1] if isinstance(c[-1], int) else f["line"]),
                    "%s passes ptr_.get() - the start of the shared buffer, byteoffset_ not applied - to %s" % (f["qual"], nm), detail="byteoffset_ applied or whole-buffer copy")
    return r.done()


# ------------------------------------------------------------------------------------------------
# L-34  the advanced index is projected together with the content it indexes into

def rule_advanced_projected(rep, fb, floor=3, name="ORIGIN.advanced-projected"):
    r = rep.rule(name, "in getitem_next of the classes that drop items before descending (option types project away the missing values with nextcarry_outindex, unions project each content), the `advanced` index "
                 "handed to the projected content is projected too, never the caller's `advanced` itself: it has one entry per item of the unprojected node", floor=floor)
    for f in fb.lib_funcs(inst=False):
        if f["name"] != "getitem_next" or "advanced" not in [p[0] for p in f["params"]]:
            continue
        projects = bool(find_all(f["body"], lambda k: k[0] == "mcall" and k[1] in ("nextcarry_outindex", "project")))
        if not projects:
            continue
        n = [0]

        def onblock(stmts, cont, f=f):
            for i, st in enumerate(stmts):
                for m in find_all(tuple(cs.head_exprs(st)), lambda k: k[0] == "mcall" and k[1] == "getitem_next" and len(k[4]) == 3):
                    decls = cs.scoped_defs(cs._PseudoSite(f, stmts, i, cont))
                    rv = [v[1] for v in find_all((m[3],), lambda k: k[0] == "var")]
                    derived = False
                    for v in rv:
                        for d in decls.get(v) or []:
                            if d[3] is None:
                                continue
                            if find_all((d[3],), lambda k: k[0] == "mcall" and k[1] == "project"):
                                derived = True
                            for c in find_all((d[3],), lambda k: k[0] == "mcall" and k[1] == "carry" and k[4]):
                                for x in [x[1] for x in find_all((c[4][0],), lambda k: k[0] == "var")]:
                                    for dd in decls.get(x) or []:
                                        if dd[3] is not None and find_all((dd[3],), lambda k: (k[0] == "mcall" and k[1] == "nextcarry_outindex") or (k[0] == "member" and k[2] == "first")):
                                            derived = True
                    if not derived:
                        continue
                    n[0] += 1
                    r.check(m[4][2] != ("var", "advanced"), "%s#getitem_next#%d" % (f["qual"], n[0]), "%s:%d" % (f["file"], m[-1]),
                            "%s hands the caller's `advanced` unchanged to content from which items have been projected away: below this node index k is paired with the wrong row" % f["qual"], detail="projected advanced index")
        cs.each_block_cont(f["body"], onblock)
    return r.done()


# ------------------------------------------------------------------------------------------------
# L-35  constructor arguments carry the role of the parameter they are bound to

_CTOR_STEMS = ("start", "stop", "offset", "index", "tag", "mask", "content", "identit", "parameter", "shape", "stride", "itemsize", "format", "dtype")


def rule_ctor_roles(rep, fb, floor=200, name="ROLE.ctor-args"):
    r = rep.rule(name, "where a node class is constructed (make_shared<X>(...), X(...)), an argument whose identifier names the role of a *different* parameter of that constructor (stops passed for starts, "
                 "size for zeros_length, index for tags ...) is a swapped or mistaken argument: role stems of argument and parameter intersect whenever the argument carries one of the constructor's own role stems", floor=floor)
    classes = fb.classes()
    ctors = {}
    for cn, c in classes.items():
        base = cn.split("<")[0]
        for m in c["methods"]:
            if m[0].split("<")[0] == base and len(m) >= 5:
                ctors.setdefault(base, []).append(m[4])

    def stems(n):
        n = (n or "").lower()
        return {s for s in _CTOR_STEMS if s in n}
    alias = {"ListArray32": "ListArrayOf", "ListArrayU32": "ListArrayOf", "ListArray64": "ListArrayOf", "ListOffsetArray32": "ListOffsetArrayOf", "ListOffsetArrayU32": "ListOffsetArrayOf",
             "ListOffsetArray64": "ListOffsetArrayOf", "IndexedArray32": "IndexedArrayOf", "IndexedArrayU32": "IndexedArrayOf", "IndexedArray64": "IndexedArrayOf", "IndexedOptionArray32": "IndexedArrayOf",
             "IndexedOptionArray64": "IndexedArrayOf", "UnionArray8_32": "UnionArrayOf", "UnionArray8_U32": "UnionArrayOf", "UnionArray8_64": "UnionArrayOf"}
    for f in fb.lib_funcs(inst=False):
        n = 0
        for m in find_all(f["body"], lambda k: k[0] in ("make", "ctor") and len(k[2]) >= 3):
            base = str(m[1]).split("<")[0]
            base = alias.get(base, base)
            cands = [p for p in ctors.get(base, []) if len(p) == len(m[2])]
            if not cands:
                continue
            params = cands[0]
            allstems = set()
            for p in params:
                allstems |= stems(p)
            for p, a in zip(params, m[2]):
                ps = stems(p)
                rid = cs.root_ident(a)
                asx = stems(rid) & allstems
                if not ps or not asx:
                    continue
                n += 1
                key = "%s#%s#%d:%s<-%s" % (f["qual"], base, n, p, rid)
                r.check(bool(ps & asx), key, "%s:%d" % (f["file"], m[-1] if isinstance(m[-1], int) else f["line"]),
                        "%s passes '%s' as the '%s' argument of %s's constructor (roles %s vs %s)" % (f["qual"], rid, p, base, sorted(asx), sorted(ps)), detail="%s <- %s" % (p, rid))
    return r.done()


# ------------------------------------------------------------------------------------------------
# L-36  the same for calls of libawkward's own functions and methods

_CALL_STEMS = ("start", "stop", "offset", "index", "tag", "mask", "parent", "carry", "advanced", "shift", "content", "identit", "parameter", "shape", "stride", "ascending", "stable", "keepdims", "negaxis", "outlength", "target", "depth", "axis")


def rule_call_roles(rep, fb, floor=1500, name="ROLE.call-args"):
    r = rep.rule(name, "at a call of a libawkward function or method whose parameter names are known (all definitions of that name and arity agree on them), an argument whose identifier names the role of a "
                 "different parameter of the callee (stops for start, parents for starts, stable for ascending, depth for axis ...) is a swapped or mistaken argument", floor=floor)
    sig = {}
    for f in fb.lib_funcs(inst=False):
        names = tuple(p[0] for p in f["params"])
        sig.setdefault((f["name"], len(names)), set()).add(names)
    # per (name, arity, position): the parameter name if unanimous
    unanimous = {}
    for (nm, ar), variants in sig.items():
        for i in range(ar):
            pn = {v[i] for v in variants}
            if len(pn) == 1:
                unanimous[(nm, ar, i)] = next(iter(pn))

    def stems(n):
        n = (n or "").lower()
        return {s for s in _CALL_STEMS if s in n}
    for f in fb.lib_funcs(inst=False):
        if "kernel-dispatch" in f["file"]:
            continue
        n = 0
        for c in find_all(f["body"], lambda k: k[0] in ("mcall", "call")):
            if c[0] == "call":
                if c[1][0] != "fn":
                    continue
                nm = str(c[1][1]).split("::")[-1]
                if str(c[1][1]).startswith("kernel::") or str(c[1][1]).startswith("awkward_"):
                    continue
                args = c[2]
            else:
                nm, args = c[1], c[4]
            ar = len(args)
            if (nm, ar) not in sig:
                continue
            callee_stems = set()
            for i in range(ar):
                callee_stems |= stems(unanimous.get((nm, ar, i)))
            for i, a in enumerate(args):
                pn = unanimous.get((nm, ar, i))
                ps = stems(pn)
                if not ps:
                    continue
                rid = cs.root_ident(a)
                if rid and "len" in rid.lower():
                    continue   # offsets_length, lenstarts ...: a length of X, not X
                asx = stems(rid) & callee_stems
                if not asx:
                    continue
                n += 1
                r.check(bool(ps & asx), "%s#%s#%d:%s<-%s" % (f["qual"], nm, n, pn, rid), "%s:%d" % (f["file"], c[-1] if isinstance(c[-1], int) else f["line"]),
                        "%s passes '%s' as the '%s' argument of %s (roles %s vs %s)" % (f["qual"], rid, pn, nm, sorted(asx), sorted(ps)), detail="%s <- %s" % (pn, rid))
    return r.done()
