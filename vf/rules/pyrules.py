"""Python-side rule families: K FORWARD (delegation, keyword agreement), E.3 category dispatch, I borrowed buffers."""
import ast
import re
from .. import pyfront as pf
from ..core import AnalysisError, load_table


# ------------------------------------------------------------------------------------------------
# K: same-name delegation forwards every parameter, in order, on every branch

def _is_none_guarded(call, pname):
    """call lies on the branch where `pname is None` holds"""
    for test, inbody in pf.enclosing_tests(call):
        for t in ast.walk(test):
            if isinstance(t, ast.Compare) and isinstance(t.left, ast.Name) and t.left.id == pname and len(t.ops) == 1 and isinstance(t.comparators[0], ast.Constant) and t.comparators[0].value is None:
                if isinstance(t.ops[0], ast.Is) and inbody:
                    return True
                if isinstance(t.ops[0], ast.IsNot) and not inbody:
                    return True
    return False


def rule_py_delegation(rep, modrel, classname, floor=10):
    r = rep.rule("FORWARD.py-delegation:" + classname, "a method of %s that delegates to the same-named method of its partitions / of toContent() "
                 "(directly or through getattr(x, name)) passes every one of its own parameters, in order, on every branch; a parameter may be omitted only on the branch where it is None" % classname, floor=floor)
    m = pf.module(modrel)
    cls = m.classes.get(classname)
    if cls is None:
        raise AnalysisError("class %s not found in %s" % (classname, modrel))
    for f in cls.body:
        if not isinstance(f, ast.FunctionDef):
            continue
        pos, kwo, var, kw = pf.params_of(f)
        if not pos and not (var and kw):
            continue
        ncalls = 0
        for c in ast.walk(f):
            if not isinstance(c, ast.Call):
                continue
            expected = None
            if isinstance(c.func, ast.Attribute) and c.func.attr == f.name and not (isinstance(c.func.value, ast.Name) and c.func.value.id in ("super",)):
                expected = list(pos)
            elif isinstance(c.func, ast.Call) and isinstance(c.func.func, ast.Name) and c.func.func.id == "getattr" and len(c.func.args) >= 2 and isinstance(c.func.args[1], ast.Name) and c.func.args[1].id in pos:
                expected = [p for p in pos if p != c.func.args[1].id]
            if expected is None:
                continue
            if any(isinstance(a, ast.Starred) for a in c.args) or any(k.arg is None for k in c.keywords):
                recv = ast.unparse(c.func.value) if isinstance(c.func, ast.Attribute) else ""
                if recv.endswith("._ext"):
                    # callers are written against the Content binding of the same name: the extension class behind _ext must accept the same keywords
                    from . import pybind
                    bs = pybind.bindings()
                    mine = {a for b in bs if b.file.endswith("partition.cpp") and b.name == f.name for a in b.args}
                    theirs = {a for b in bs if b.file.endswith("content.cpp") and b.cls == "make_Content" and b.name == f.name for a in b.args}
                    missing = sorted(theirs - mine)
                    r.check(not missing, "%s.%s@star" % (classname, f.name), m.where(c), "%s.%s forwards *args/**kwargs to %s.%s, whose binding in src/python/partition.cpp lacks the keyword(s) %s that Content.%s accepts: "
                            "a caller written against a layout (ak.to_json) raises TypeError for a partitioned array" % (classname, f.name, recv, f.name, missing, f.name), detail="extension binding accepts the keywords of Content.%s" % f.name)
                    continue
                r.ok("%s.%s@star" % (classname, f.name), "forwards *args/**kwargs")
                continue
            ncalls += 1
            got = []
            for a in c.args:
                got.append(a.id if isinstance(a, ast.Name) else None)
            kws = {k.arg: (k.value.id if isinstance(k.value, ast.Name) else None) for k in c.keywords}
            key = "%s.%s#%d" % (classname, f.name, ncalls)
            where = m.where(c)
            problems = []
            # positional arguments that are bare parameters must be in their own position
            for i, g in enumerate(got):
                if g in pos and (i >= len(expected) or expected[i] != g):
                    problems.append("argument %d is parameter '%s' (expected '%s')" % (i, g, expected[i] if i < len(expected) else "nothing"))
            for k, v in kws.items():
                if v in pos and k in pos and k != v:
                    problems.append("keyword %s=%s" % (k, v))
            # every parameter must be passed, unless it is None on this branch or it was rebound/transformed locally
            passed = set(g for g in got if g) | set(v for v in kws.values() if v) | set(kws)
            rebound = {t.id for n in ast.walk(f) for t in (n.targets if isinstance(n, ast.Assign) else []) if isinstance(t, ast.Name)}
            for i, p in enumerate(expected):
                if p in passed:
                    continue
                if i < len(got) and got[i] is None:
                    continue  # a derived expression stands in this position
                if _is_none_guarded(c, p):
                    continue
                problems.append("parameter '%s' is dropped" % p)
            r.check(not problems, key, where, "%s.%s delegates with %s: %s" % (classname, f.name, ast.unparse(c)[:90], "; ".join(problems)),
                    detail="%s(%s) forwards %s" % (f.name, ", ".join(pos), ", ".join(expected)))
    return r.done()


# ------------------------------------------------------------------------------------------------
# K: high-level reducer -> layout method keyword agreement

def rule_py_reducers(rep, floor=10):
    r = rep.rule("FORWARD.py-reducers", "each ak.<reducer>(array, axis, keepdims, [initial,] mask_identity) calls layout.<same name>(axis=axis, mask=mask_identity, keepdims=keepdims[, initial=initial]) "
                 "and handles axis=None through completely_flatten", floor=floor)
    m = pf.module("operations/reducers.py")
    want = {"axis": "axis", "mask": "mask_identity", "keepdims": "keepdims", "initial": "initial"}
    for name in ("count", "count_nonzero", "sum", "prod", "any", "all", "min", "max", "argmin", "argmax"):
        f = m.func(name)
        pos, _, _, _ = pf.params_of(f, drop_self=False)
        calls = [c for c in ast.walk(f) if isinstance(c, ast.Call) and isinstance(c.func, ast.Attribute) and isinstance(c.func.value, ast.Name) and c.func.value.id == "layout"
                 and c.func.attr in ("count", "count_nonzero", "sum", "prod", "any", "all", "min", "max", "argmin", "argmax")]
        where = m.where(f)
        if not r.check(len(calls) >= 1, name + ":call", where, "ak.%s never calls a layout reducer" % name):
            continue
        for c in calls:
            key = "%s->layout.%s" % (name, c.func.attr)
            probs = []
            if c.func.attr != name:
                probs.append("calls layout.%s" % c.func.attr)
            kws = {k.arg: (k.value.id if isinstance(k.value, ast.Name) else ast.unparse(k.value)) for k in c.keywords}
            for k, v in kws.items():
                if k in want and v != want[k]:
                    probs.append("%s=%s (expected %s)" % (k, v, want[k]))
            for k in ("axis", "mask", "keepdims") + (("initial",) if "initial" in pos else ()):
                if k not in kws and not c.args:
                    probs.append("%s not forwarded" % k)
            r.check(not probs, key, m.where(c), "ak.%s: %s" % (name, "; ".join(probs)), detail=ast.unparse(c)[:100])
        hasflat = any(isinstance(c, ast.Call) and (pf.dotted(c.func) or "").endswith("completely_flatten") for c in ast.walk(f))
        r.check(hasflat, name + ":axis-none", where, "ak.%s does not route axis=None through completely_flatten" % name)
    return r.done()


# ------------------------------------------------------------------------------------------------
# E.3: layout categories

CATS = ["virtualtypes", "unknowntypes", "indexedtypes", "uniontypes", "optiontypes", "listtypes", "recordtypes"]
WIDTH_FAMILIES = {
    "ListArray": ["ListArray32", "ListArrayU32", "ListArray64"],
    "ListOffsetArray": ["ListOffsetArray32", "ListOffsetArrayU32", "ListOffsetArray64"],
    "IndexedArray": ["IndexedArray32", "IndexedArrayU32", "IndexedArray64"],
    "IndexedOptionArray": ["IndexedOptionArray32", "IndexedOptionArray64"],
    "UnionArray8": ["UnionArray8_32", "UnionArray8_U32", "UnionArray8_64"],
}
WMEMBER = {m: k for k, v in WIDTH_FAMILIES.items() for m in v}


def category_tables():
    m = pf.module("_util.py")
    cats = {}
    for n in m.tree.body:
        if isinstance(n, ast.Assign) and len(n.targets) == 1 and isinstance(n.targets[0], ast.Name) and n.targets[0].id.endswith("types") and isinstance(n.value, ast.Tuple):
            cats[n.targets[0].id] = [pf.dotted(e).split(".")[-1] for e in n.value.elts if pf.dotted(e)]
    lay = pf.module("layout.py")
    exported = []
    for n in lay.tree.body:
        if isinstance(n, ast.ImportFrom) and n.module == "awkward._ext":
            for a in n.names:
                exported.append(a.name)
    return cats, exported


def rule_py_categories(rep, floor=20):
    r = rep.rule("FAMILY.py-categories", "the tuples virtualtypes..recordtypes in _util.py put every Content node class exported by layout.py in exactly one category "
                 "(indexedoptiontypes is a subset of optiontypes; NumpyArray is the leaf)", floor=floor)
    cats, exported = category_tables()
    for c in CATS + ["indexedoptiontypes"]:
        if c not in cats:
            raise AnalysisError("category tuple %s not found in _util.py" % c)
    content_classes = [e for e in exported if (e.endswith("Array") or re.match(r".*Array(8_)?(U?32|64)$", e)) and e not in ("NumpyArray",)]
    where = "src/awkward/_util.py"
    for cl in content_classes:
        inn = [c for c in CATS if cl in cats[c]]
        r.check(len(inn) == 1, "category-of:" + cl, where, "layout class %s is in categories %s (expected exactly one)" % (cl, inn), detail="%s in %s" % (cl, inn))
    for c in CATS + ["indexedoptiontypes"]:
        for cl in cats[c]:
            r.check(cl in exported, "exported:" + c + ":" + cl, where, "%s lists %s which layout.py does not export" % (c, cl))
    r.check(set(cats["indexedoptiontypes"]) <= set(cats["optiontypes"]), "indexedoption-subset", where, "indexedoptiontypes is not a subset of optiontypes")
    return r.done()


def _isinstance_classes(call):
    """isinstance(x, C) / isinstance(x, (C1, C2)) -> (subject text, [class or category last-names])"""
    if not (isinstance(call, ast.Call) and isinstance(call.func, ast.Name) and call.func.id == "isinstance" and len(call.args) == 2):
        return None
    a = call.args[1]
    elts = a.elts if isinstance(a, ast.Tuple) else [a]
    names = []
    for e in elts:
        d = pf.dotted(e)
        if d:
            names.append(d.split(".")[-1])
        elif isinstance(e, ast.BinOp):
            # tuple concatenation: ak._util.listtypes + ak._util.optiontypes
            for x in ast.walk(e):
                d = pf.dotted(x) if isinstance(x, (ast.Attribute, ast.Name)) else None
                if d and d.split(".")[-1].endswith("types"):
                    names.append(d.split(".")[-1])
    if isinstance(a, ast.BinOp):
        for x in ast.walk(a):
            d = pf.dotted(x) if isinstance(x, (ast.Attribute, ast.Name)) else None
            if d and d.split(".")[-1].endswith("types"):
                names.append(d.split(".")[-1])
    return ast.unparse(call.args[0]), names


def _chains(func):
    """if/elif chains in func: list of (first_if, [tests], has_else, else_body)"""
    out = []
    seen = set()
    for n in ast.walk(func):
        if isinstance(n, ast.If) and id(n) not in seen:
            tests = []
            cur = n
            while True:
                seen.add(id(cur))
                tests.append(cur.test)
                if len(cur.orelse) == 1 and isinstance(cur.orelse[0], ast.If):
                    cur = cur.orelse[0]
                else:
                    break
            out.append((n, tests, bool(cur.orelse), cur.orelse))
    return out


def rule_py_dispatch(rep, modules=None, floor=20):
    r = rep.rule("FAMILY.py-dispatch", "(a) an isinstance test (or if/elif chain on one subject) that names one member of an index-width family names all of them; "
                 "(b) a chain that distinguishes >= 6 of the 7 layout categories distinguishes all 7 and ends in an else", floor=floor)
    table = load_table("py_dispatch_exceptions.json")
    mods = modules or pf.all_modules(exclude=("_v2", "_connect/_jax"))
    nchains = 0
    for rel in mods:
        m = pf.module(rel)
        for q, f in sorted(m.funcs.items()):
            # (a) single isinstance calls
            for c in ast.walk(f):
                ic = _isinstance_classes(c)
                if not ic:
                    continue
                subj, names = ic
                fams = sorted({WMEMBER[n] for n in names if n in WMEMBER})
                if not fams:
                    continue
                # union over the chain this test belongs to (same subject)
                allnames = set(names)
                else_covers = False
                for first, tests, has_else, _ in _chains(f):
                    if any(c is x for t in tests for x in ast.walk(t)):
                        if has_else:
                            else_covers = True
                        for t in tests:
                            for x in ast.walk(t):
                                ic2 = _isinstance_classes(x)
                                if ic2 and ic2[0] == subj:
                                    allnames |= set(ic2[1])
                for p_ in pf.parent_chain(c):
                    if isinstance(p_, ast.IfExp) and any(c is x for x in ast.walk(p_.test)):
                        else_covers = True
                for fam in fams:
                    miss = [x for x in WIDTH_FAMILIES[fam] if x not in allnames]
                    if else_covers and miss:
                        r.ok("%s:%s:%s:%s" % (rel, q, fam, subj), "remaining members %s fall to the else branch" % miss)
                        continue
                    key = "%s:%s:%s:%s" % (rel, q, fam, subj)
                    if miss and key in table:
                        r.excepted(key, table[key])
                        r.ok(key)
                        continue
                    r.check(not miss, key, m.where(c), "isinstance dispatch on %s in %s names %s but not %s" % (subj, q, sorted(n for n in allnames if WMEMBER.get(n) == fam), miss),
                            detail="%s complete" % fam)
            # (b) category chains
            for first, tests, has_else, else_body in _chains(f):
                bysubj = {}
                for t in tests:
                    for x in ast.walk(t):
                        ic = _isinstance_classes(x)
                        if ic:
                            for n in ic[1]:
                                if n in CATS or n == "indexedoptiontypes":
                                    bysubj.setdefault(ic[0], set()).add(n)
                for subj, cs in bysubj.items():
                    eff = set(cs)
                    if "indexedoptiontypes" in eff:
                        eff.discard("indexedoptiontypes")
                    if len(eff & set(CATS)) >= 6:
                        nchains += 1
                        miss = [c for c in CATS if c not in eff]
                        key = "%s:%s:categories:%s" % (rel, q, subj)
                        if first is not None and getattr(first, "_parent", None) is not None and q.split(".")[-1] == getattr(first._parent, "name", None) or True:
                            r.check(not miss and has_else, key, m.where(first), "category dispatch on %s in %s %s" % (subj, q, ("misses " + str(miss)) if miss else "has no final else"),
                                    detail="all 7 categories + else")
    r.count("category_chains", nchains)
    return r.done()


# ------------------------------------------------------------------------------------------------
# I: no in-place write into a buffer borrowed from a layout

ALLOCATING = {"empty", "zeros", "ones", "full", "arange", "array", "copy", "concatenate", "repeat", "cumsum", "logical_not", "logical_and", "logical_or",
              "bitwise_or", "bitwise_and", "where", "nonzero", "astype", "packbits", "unpackbits", "stack", "frombuffer_copy", "add", "subtract", "multiply",
              "equal", "not_equal", "searchsorted", "tile", "broadcast_to_copy", "empty_like", "zeros_like", "ones_like", "full_like", "sort", "argsort", "unique",
              "minimum", "maximum", "linspace", "ascontiguousarray_copy", "max", "min", "sum", "any", "all", "count_nonzero", "append", "diff", "abs"}
VIEWING = {"asarray", "view", "reshape", "ravel", "frombuffer", "broadcast_to", "transpose", "squeeze", "ascontiguousarray", "atleast_1d"}
INPLACE_METHODS = {"fill", "sort", "put", "itemset", "resize", "setfield", "partition", "byteswap_inplace"}


def _mentions_layout(e, layoutish):
    """expression reaches a layout object attribute/method (x.bytemask(), layout.offsets, x.mask ...)"""
    for n in ast.walk(e):
        if isinstance(n, ast.Attribute):
            return True
        if isinstance(n, ast.Name) and n.id in layoutish:
            return True
    return False


def _borrow_kind(e, env):
    """'borrowed' | 'fresh' | None for expression e under env: name -> kind"""
    if isinstance(e, ast.Name):
        return env.get(e.id)
    if isinstance(e, ast.Subscript):
        k = _borrow_kind(e.value, env)
        if k == "borrowed":
            # basic slicing keeps a view; fancy indexing copies.  Conservatively: slice objects / ints -> view
            s = e.slice
            basic = isinstance(s, (ast.Slice, ast.Constant)) or (isinstance(s, ast.UnaryOp)) or (isinstance(s, ast.Tuple) and all(isinstance(x, (ast.Slice, ast.Constant)) for x in s.elts))
            return "borrowed" if basic else "fresh"
        return k
    if isinstance(e, ast.Call):
        fn = e.func
        name = fn.attr if isinstance(fn, ast.Attribute) else (fn.id if isinstance(fn, ast.Name) else None)
        if name in VIEWING:
            # numpy.asarray(<layout thing>) / x.view(...)
            if isinstance(fn, ast.Attribute) and _borrow_kind(fn.value, env) == "borrowed":
                return "borrowed"
            if e.args:
                k = _borrow_kind(e.args[0], env)
                if k == "borrowed":
                    return "borrowed"
                if name in ("asarray", "frombuffer") and k is None and _is_layout_buffer_expr(e.args[0]):
                    return "borrowed"
            return None
        if name in ALLOCATING:
            # out= makes it in-place; handled by the sink check
            return "fresh"
        return None
    if isinstance(e, (ast.BinOp, ast.UnaryOp, ast.Compare, ast.BoolOp)):
        return "fresh"
    if isinstance(e, ast.IfExp):
        a, b = _borrow_kind(e.body, env), _borrow_kind(e.orelse, env)
        return "borrowed" if "borrowed" in (a, b) else (a or b)
    return None


LAYOUT_BUFFER_ATTRS = {"bytemask", "mask", "index", "offsets", "starts", "stops", "tags", "ptr", "identities"}


def _is_layout_buffer_expr(e):
    """x.bytemask(), layout.offsets, x.mask, self.index ... : an Index / buffer owned by a layout node"""
    if isinstance(e, ast.Call) and isinstance(e.func, ast.Attribute) and e.func.attr in LAYOUT_BUFFER_ATTRS:
        return True
    if isinstance(e, ast.Attribute) and e.attr in LAYOUT_BUFFER_ATTRS:
        return True
    if isinstance(e, ast.Name):
        return False
    return False


def rule_py_borrowed(rep, modules, floor=1):
    r = rep.rule("FRESH.py-borrowed", "a NumPy array obtained zero-copy from a layout buffer (nplike.asarray(x.bytemask()/x.mask/x.index/x.offsets/...), and views / basic slices / aliases of it) "
                 "is never written in place: no subscript store, augmented assignment, out= keyword or in-place method", floor=floor)
    nborrow = 0
    for rel in modules:
        m = pf.module(rel)
        for q, f in sorted(m.funcs.items()):
            # flow-insensitive-but-ordered walk of assignments in source order within the function (nested defs are separate)
            env = {}
            stmts = [n for n in ast.walk(f) if isinstance(n, (ast.Assign, ast.AugAssign, ast.Expr, ast.Return, ast.For, ast.If, ast.While)) and _owner_func(n) is f]
            stmts.sort(key=lambda n: (n.lineno, n.col_offset))
            for n in stmts:
                # sinks first (use env before this statement's own binding)
                for c in ([n.value] if isinstance(n, (ast.Assign, ast.AugAssign, ast.Expr, ast.Return)) and n.value is not None else []):
                    for call in ast.walk(c):
                        if isinstance(call, ast.Call):
                            for k in call.keywords:
                                if k.arg == "out" and _borrow_kind(k.value, env) == "borrowed":
                                    r.fail("%s:%s:out=%s" % (rel, q, ast.unparse(k.value)), m.where(call),
                                           "in-place NumPy operation writes into '%s', which aliases a buffer borrowed from a layout (%s)" % (ast.unparse(k.value), ast.unparse(call)[:80]))
                            if isinstance(call.func, ast.Attribute) and call.func.attr in INPLACE_METHODS and _borrow_kind(call.func.value, env) == "borrowed":
                                r.fail("%s:%s:%s.%s" % (rel, q, ast.unparse(call.func.value), call.func.attr), m.where(call), "in-place method %s on a borrowed layout buffer" % call.func.attr)
                if isinstance(n, ast.AugAssign):
                    tgt = n.target.value if isinstance(n.target, ast.Subscript) else n.target
                    if _borrow_kind(tgt, env) == "borrowed":
                        r.fail("%s:%s:aug:%s" % (rel, q, ast.unparse(n.target)), m.where(n), "augmented assignment writes into '%s', which aliases a buffer borrowed from a layout" % ast.unparse(n.target))
                if isinstance(n, ast.Assign):
                    for t in n.targets:
                        if isinstance(t, ast.Subscript) and _borrow_kind(t.value, env) == "borrowed":
                            r.fail("%s:%s:store:%s" % (rel, q, ast.unparse(t.value)), m.where(n), "subscript store into '%s', which aliases a buffer borrowed from a layout" % ast.unparse(t.value))
                    k = _borrow_kind(n.value, env)
                    for t in n.targets:
                        if isinstance(t, ast.Name):
                            if k == "borrowed":
                                nborrow += 1
                                r.ok("%s:%s:%s@%d" % (rel, q, t.id, nborrow), "%s = %s  (borrowed; every later use checked)" % (t.id, ast.unparse(n.value)[:60]))
                                env[t.id] = "borrowed"
                            elif k == "fresh":
                                env[t.id] = "fresh"
                            else:
                                # unknown value: keep 'borrowed' if it already was and this is conditional re-binding; else forget
                                if env.get(t.id) != "borrowed" or not pf.enclosing_tests(n):
                                    env.pop(t.id, None)
    r.count("borrowed_bindings", nborrow)
    return r.done()


def _owner_func(n):
    for p in pf.parent_chain(n):
        if isinstance(p, (ast.FunctionDef, ast.AsyncFunctionDef, ast.Lambda)):
            return p
    return None


# ------------------------------------------------------------------------------------------------
# contradiction lints on the Python layer

PY_MODULES_ALL = ["_util.py", "highlevel.py", "partition.py", "operations/structure.py", "operations/convert.py", "operations/reducers.py", "operations/describe.py",
                  "behaviors/string.py", "behaviors/categorical.py", "behaviors/mixins.py", "_connect/_numpy.py", "_connect/_numba/arrayview.py", "_connect/_numba/layout.py",
                  "_connect/_numba/builder.py", "_connect/_numexpr.py", "_connect/_autograd.py", "_connect/_jax/jax_utils.py", "nplike.py", "forms.py", "types.py"]


def _py_terminates(stmts):
    if not stmts:
        return False
    s = stmts[-1]
    if isinstance(s, (ast.Return, ast.Raise, ast.Continue, ast.Break)):
        return True
    if isinstance(s, ast.If):
        return bool(s.orelse) and _py_terminates(s.body) and _py_terminates(s.orelse)
    if isinstance(s, ast.With):
        return _py_terminates(s.body)
    return False


def rule_py_unreachable(rep, modules=None, floor=400):
    r = rep.rule("DEAD.py-unreachable", "no statement of the Python layer follows, in the same block, a statement after which control cannot continue (return / raise / an if-else that leaves on both sides): "
                 "an unreachable statement is the behaviour the author meant and the code does not have", floor=floor)
    import os
    for rel in (modules or [x for x in pf.all_modules() if "generated_parser" not in x]):
        m = pf.module(rel)
        for q, f in sorted(m.funcs.items()):
            bad = None
            for node in ast.walk(f):
                if _owner_func(node) is not f and node is not f:
                    continue
                for field in ("body", "orelse", "finalbody"):
                    blk = getattr(node, field, None)
                    if not isinstance(blk, list):
                        continue
                    for i in range(len(blk) - 1):
                        if _py_terminates(blk[:i + 1]):
                            bad = blk[i + 1]
                            break
            if bad is None:
                r.ok("%s:%s" % (rel, q))
            else:
                r.fail("%s:%s" % (rel, q), m.where(bad), "%s in %s: the statement `%s` can never execute (the statement before it leaves the block on every path)" % (q, rel, ast.unparse(bad)[:80]))
    return r.done()


def rule_py_callback_layout(rep, modules=None, floor=25):
    r = rep.rule("FORWARD.py-callback-layout", "a getfunction callback handed to ak._util.recursively_apply returns `lambda: <layout>`: recursively_apply splices the lambda's result into the layout tree as it is, "
                 "so its body is never a bare NumPy expression (arithmetic, nplike.*/numpy.* call) - those must be wrapped in ak.layout.NumpyArray", floor=floor)
    for rel in (modules or [x for x in pf.all_modules() if "generated_parser" not in x]):
        m = pf.module(rel)
        cbs = set()
        for n in ast.walk(m.tree):
            if isinstance(n, ast.Call) and isinstance(n.func, ast.Attribute) and n.func.attr == "recursively_apply" and len(n.args) >= 2 and isinstance(n.args[1], ast.Name):
                cbs.add(n.args[1].id)
        for q, f in sorted(m.funcs.items()):
            if f.name not in cbs:
                continue
            k = 0
            for ret in ast.walk(f):
                if not (isinstance(ret, ast.Return) and isinstance(ret.value, ast.Lambda)) or _owner_func(ret) is not f:
                    continue
                k += 1
                b = ret.value.body
                bare = isinstance(b, (ast.BinOp, ast.UnaryOp, ast.Compare)) or (isinstance(b, ast.Call) and re.match(r"^(nplike|numpy|np|ak\.nplike\.\w+)\.", ast.unparse(b.func)))
                r.check(not bare, "%s:%s#lambda%d" % (rel, q, k), m.where(ret), "%s in %s returns `lambda: %s` to recursively_apply: a bare NumPy value is spliced into the layout tree" % (q, rel, ast.unparse(b)[:70]),
                        detail="lambda yields a layout")
    return r.done()


def rule_py_call_signature(rep, floor=900):
    r = rep.rule("FORWARD.py-call-signature", "every call inside src/awkward that resolves statically to a module-level function of the package (same-module name, ak._util.f, ak.operations.<m>.f, ak.nplike.f, "
                 "ak.partition.f, or an exported ak.f defined once under operations/) matches that function's signature: no unknown keyword, no surplus positional argument, no missing required parameter, and a purely variadic f(*xs) is not handed a local list as its single argument", floor=floor)
    mods = {rel: pf.module(rel) for rel in pf.all_modules() if "generated_parser" not in rel}
    sigs, byname = {}, {}
    for rel, m in mods.items():
        for n in m.tree.body:
            if isinstance(n, ast.FunctionDef):
                sigs[(rel, n.name)] = n
                byname.setdefault(n.name, []).append((rel, n))

    def mismatch(call, fd):
        a = fd.args
        names = [x.arg for x in getattr(a, "posonlyargs", []) + a.args]
        kwonly = [x.arg for x in a.kwonlyargs]
        if any(isinstance(x, ast.Starred) for x in call.args) or any(k.arg is None for k in call.keywords):
            return None
        npos = len(call.args)
        if npos > len(names) and not a.vararg:
            return "%d positional arguments for %d parameters" % (npos, len(names))
        for k in call.keywords:
            if k.arg not in names + kwonly and not a.kwarg:
                return "unknown keyword '%s'" % k.arg
            if k.arg in names[:npos]:
                return "keyword '%s' also given positionally" % k.arg
        nreq = len(names) - len(a.defaults)
        given = set(names[:npos]) | {k.arg for k in call.keywords}
        missing = [x for x in names[:nreq] if x not in given]
        if missing:
            return "missing required %s" % missing
        return None
    cnt = {}
    for rel, m in sorted(mods.items()):
        listlocals = {}
        for fd in ast.walk(m.tree):
            if isinstance(fd, ast.FunctionDef):
                ls = {t.id for s_ in ast.walk(fd) if isinstance(s_, ast.Assign) and isinstance(s_.value, (ast.List, ast.ListComp)) for t in s_.targets if isinstance(t, ast.Name)}
                for c_ in ast.walk(fd):
                    if isinstance(c_, ast.Call):
                        listlocals[id(c_)] = ls
        for call in ast.walk(m.tree):
            if not isinstance(call, ast.Call):
                continue
            f = call.func
            target = None
            if isinstance(f, ast.Name) and (rel, f.id) in sigs:
                target = sigs[(rel, f.id)]
            elif isinstance(f, ast.Attribute):
                parts = pf.dotted(f).split(".") if pf.dotted(f) else []
                if parts and parts[0] == "ak" and len(parts) >= 2:
                    name = parts[-1]
                    cands = []
                    if parts[1] == "_util" and len(parts) == 3:
                        cands = [sigs.get(("_util.py", name))]
                    elif parts[1] == "operations" and len(parts) == 4:
                        cands = [sigs.get(("operations/%s.py" % parts[2], name))]
                    elif parts[1] in ("nplike", "partition") and len(parts) == 3:
                        cands = [sigs.get(("%s.py" % parts[1], name))]
                    elif len(parts) == 2:
                        c = [n for r0, n in byname.get(name, []) if r0.startswith("operations/")]
                        cands = c if len(c) == 1 else []
                    cands = [c for c in cands if c is not None]
                    if len(cands) == 1:
                        target = cands[0]
            if target is None:
                continue
            k0 = (rel, target.name)
            cnt[k0] = cnt.get(k0, 0) + 1
            key = "%s->%s#%d" % (rel, target.name, cnt[k0])
            msg = mismatch(call, target)
            ta = target.args
            if msg is None and ta.vararg and not ta.args and not ta.kwonlyargs and len(call.args) == 1 and not call.keywords:
                a0 = call.args[0]
                if isinstance(a0, (ast.List, ast.ListComp)) or (isinstance(a0, ast.Name) and a0.id in listlocals.get(id(call), ())):
                    msg = "the list `%s` is passed as ONE argument to the variadic %s(*%s); every other call unpacks it" % (ast.unparse(a0)[:30], target.name, ta.vararg.arg)
            r.check(msg is None, key, m.where(call), "call `%s(...)` in %s does not match the definition of %s: %s" % (ast.unparse(call.func), rel, target.name, msg), detail="signature matches")
    return r.done()


def rule_py_highlevel_returns(rep, floor=40):
    r = rep.rule("FORWARD.py-highlevel", "every function of src/awkward/operations that takes `highlevel` decides the kind of its result with it on every path: each return either goes through ak._util.maybe_wrap / maybe_wrap_like, "
                 "forwards highlevel= to another operation, or sits under an explicit test of highlevel - a path that returns a bare layout ignores both highlevel and behavior; "
                 "(b) the value handed to maybe_wrap is a layout: it is never assigned from another high-level operation called without highlevel=False; "
                 "(c) a helper nested in such a function never returns the result of a high-level operation called without highlevel=False", floor=floor)
    ops = {}
    for rel in [x for x in pf.all_modules() if x.startswith("operations/")]:
        for fd in pf.module(rel).tree.body:
            if isinstance(fd, ast.FunctionDef) and "highlevel" in [a.arg for a in fd.args.args + fd.args.kwonlyargs]:
                ops[fd.name] = fd

    def opcall(c):
        """name of the high-level operation c calls without deciding highlevel, else None"""
        if not isinstance(c, ast.Call):
            return None
        d = pf.dotted(c.func) if isinstance(c.func, (ast.Attribute, ast.Name)) else None
        if not d:
            return None
        nm = d.split(".")[-1]
        if nm not in ops or d not in (nm, "ak." + nm, "ak.operations.structure." + nm, "ak.operations.convert." + nm, "ak.operations.describe." + nm, "ak.operations.reducers." + nm):
            return None
        if any(k_.arg == "highlevel" or k_.arg is None for k_ in c.keywords):
            return None
        params = [a.arg for a in ops[nm].args.args]
        if "highlevel" in params and len(c.args) > params.index("highlevel"):
            return None
        return nm
    for rel in [x for x in pf.all_modules() if x.startswith("operations/")]:
        m = pf.module(rel)
        for fd in m.tree.body:
            if not isinstance(fd, ast.FunctionDef):
                continue
            params = [a.arg for a in fd.args.args + fd.args.kwonlyargs]
            if "highlevel" not in params:
                continue
            rets = []

            def visit(node, under):
                for ch in ast.iter_child_nodes(node):
                    if isinstance(ch, (ast.FunctionDef, ast.Lambda, ast.ClassDef)):
                        continue
                    u = under
                    if isinstance(ch, ast.If) and any(isinstance(x, ast.Name) and x.id == "highlevel" for x in ast.walk(ch.test)):
                        u = True
                    if isinstance(ch, ast.Return):
                        rets.append((ch, under))
                    visit(ch, u)
            visit(fd, False)
            k = 0
            for ret, under in rets:
                if ret.value is None:
                    continue
                k += 1
                s = ast.unparse(ret.value)
                ok = under or "maybe_wrap" in s or "highlevel" in s
                r.check(ok, "%s:%s#return%d" % (rel, fd.name, k), m.where(ret), "%s in %s returns `%s` without consulting highlevel (and behavior)" % (fd.name, rel, s[:70]), detail="maybe_wrap / highlevel= / under a highlevel test")
            # (b) what is handed to maybe_wrap is a layout
            k = 0
            for w in ast.walk(fd):
                if not (isinstance(w, ast.Call) and pf.dotted(w.func) in ("ak._util.maybe_wrap", "ak._util.maybe_wrap_like") and w.args):
                    continue
                srcs = [w.args[0]]
                if isinstance(w.args[0], ast.Name):
                    srcs = [s_.value for s_ in ast.walk(fd) if isinstance(s_, ast.Assign) and any(isinstance(t, ast.Name) and t.id == w.args[0].id for t in s_.targets)]
                for v in srcs:
                    while isinstance(v, ast.Subscript):
                        v = v.value
                    k += 1
                    nm = opcall(v)
                    r.check(nm is None, "%s:%s#wrapped%d" % (rel, fd.name, k), m.where(v), "%s in %s hands the result of `%s` to maybe_wrap: %s is called without highlevel=False, so with highlevel=False the caller still receives an ak.Array" % (
                        fd.name, rel, ast.unparse(v)[:60], nm), detail="wrapped value is a layout")
            # (c) helpers nested in the operation hand back layouts
            k = 0
            for inner in ast.walk(fd):
                if isinstance(inner, ast.FunctionDef) and inner is not fd:
                    for r_ in ast.walk(inner):
                        if isinstance(r_, ast.Return) and isinstance(r_.value, ast.Call):
                            d_ = pf.dotted(r_.value.func) if isinstance(r_.value.func, (ast.Attribute, ast.Name)) else None
                            if not d_ or d_.split(".")[-1] not in ops:
                                continue
                            k += 1
                            nm = opcall(r_.value)
                            r.check(nm is None, "%s:%s.%s#helper-return%d" % (rel, fd.name, inner.name, k), m.where(r_), "%s (nested in %s, %s) returns `%s`: %s is called without highlevel=False, so this path yields an ak.Array where its siblings yield layouts, and highlevel/behavior of %s are ignored" % (
                                inner.name, fd.name, rel, ast.unparse(r_.value)[:60], nm, fd.name), detail="helper returns a layout")
    return r.done()


def rule_py_defassign(rep, floor=800):
    """definite assignment + comprehension variables"""
    from . import pydefassign
    r = rep.rule("DEAD.py-unbound", "(a) in every function of the Python layer a local is read only where it is assigned on all paths, under the same condition it was assigned under, or after a loop that binds it "
                 "(tabled: loops over collections that are never empty); (b) the loop variable of a comprehension or generator expression is used in its element or condition - "
                 "`any(f(n) for x in xs)` tests something else than the items it iterates", floor=floor)
    table = load_table("py_unbound_exceptions.json")
    for rel in [x for x in pf.all_modules() if "generated_parser" not in x]:
        m = pf.module(rel)
        hits = {}
        for q, name, line in pydefassign.possibly_undefined(m.tree):
            hits[(q, name)] = line
        for q, f in sorted(m.funcs.items()):
            bad = [(n_, l) for (q2, n_), l in hits.items() if q2 == q]
            key0 = "%s:%s" % (rel, q)
            if not bad:
                r.ok(key0)
                continue
            for n_, l in bad:
                key = "%s:%s" % (key0, n_)
                if key in table:
                    r.excepted(key, table[key])
                    r.ok(key)
                else:
                    r.fail(key, "src/awkward/%s:%d" % (rel, l), "%s in %s reads local `%s` on a path on which it has not been assigned (UnboundLocalError)" % (q, rel, n_))
        k = 0
        for c in ast.walk(m.tree):
            if not isinstance(c, (ast.ListComp, ast.SetComp, ast.GeneratorExp, ast.DictComp)):
                continue
            for g in c.generators:
                names = {t.id for t in ast.walk(g.target) if isinstance(t, ast.Name)}
                parts = ([c.key, c.value] if isinstance(c, ast.DictComp) else [c.elt]) + [i for gg in c.generators for i in gg.ifs] + [gg.iter for gg in c.generators if gg is not g]
                used = {x.id for p_ in parts for x in ast.walk(p_) if isinstance(x, ast.Name)}
                k += 1
                un = sorted(v for v in names if v not in used and not v.startswith("_"))
                # a tuple target of which at least one component is used is a projection (`[a for a, b in pairs]`), not a slip
                partial = len(names) > 1 and len(un) < len(names)
                r.check(not un or partial, "%s#comprehension@%s" % (rel, ast.unparse(c)[:40]), m.where(c), "in %s the comprehension `%s` never uses its loop variable %s" % (rel, ast.unparse(c)[:70], un), detail="loop variable used")
    return r.done()


_BUILTIN_ARITY = {"hash": (1, 1), "len": (1, 1), "id": (1, 1), "isinstance": (2, 2), "issubclass": (2, 2), "callable": (1, 1), "iter": (1, 2), "next": (1, 2), "abs": (1, 1),
                  "repr": (1, 1), "ord": (1, 1), "chr": (1, 1), "getattr": (2, 3), "setattr": (3, 3), "hasattr": (2, 2), "delattr": (2, 2), "divmod": (2, 2), "bool": (0, 1), "reversed": (1, 1)}


def rule_py_call_shape(rep, floor=1500):
    r = rep.rule("SHAPE.py-call", "(a) every call of a fixed-arity builtin (hash, len, isinstance, getattr, ...) that the module does not rebind has an admissible number of arguments; "
                 "(b) `self.m(self, ...)` is never written for a plain method m of the enclosing class (the receiver is already bound: the call is a TypeError); "
                 "(c) a recursive function that forwards its own parameter p as p at three or more recursive calls forwards it at all of them: a constant (or the default) at one site makes the result depend on where the recursion passed; "
                 "(d) a generator expression handed to a function of the package only reaches code that iterates it once - the callee (followed through two levels of calls, by name) neither subscripts it nor takes its len() unless it first materialises it with list()/tuple(); "
                 "(e) a callable parameter (form_key, key_format, ...) that a function calls with keywords at several sites is given the same keyword set at all of them", floor=floor)
    rtable = load_table("py_recursion_exceptions.json")
    for rel in [x for x in pf.all_modules() if "generated_parser" not in x]:
        m = pf.module(rel)
        rebound = set()
        for n in ast.walk(m.tree):
            if isinstance(n, (ast.FunctionDef, ast.ClassDef)):
                rebound.add(n.name)
                if isinstance(n, ast.FunctionDef):
                    rebound.update(a.arg for a in n.args.args + n.args.kwonlyargs)
            elif isinstance(n, ast.Name) and isinstance(n.ctx, ast.Store):
                rebound.add(n.id)
        cnt = {}
        for c in ast.walk(m.tree):
            if isinstance(c, ast.Call) and isinstance(c.func, ast.Name) and c.func.id in _BUILTIN_ARITY and c.func.id not in rebound:
                if any(isinstance(a, ast.Starred) for a in c.args) or any(k.arg is None for k in c.keywords):
                    continue
                lo, hi = _BUILTIN_ARITY[c.func.id]
                n_ = len(c.args) + len(c.keywords)
                cnt[c.func.id] = cnt.get(c.func.id, 0) + 1
                r.check(lo <= n_ <= hi, "%s:%s#%d" % (rel, c.func.id, cnt[c.func.id]), m.where(c), "%s calls the builtin `%s` with %d arguments (it takes %s): TypeError at run time" % (
                    rel, ast.unparse(c)[:70], n_, lo if lo == hi else "%d-%d" % (lo, hi)), detail="builtin arity")
        for cls in [n for n in ast.walk(m.tree) if isinstance(n, ast.ClassDef)]:
            plain = set()
            for fd in cls.body:
                if isinstance(fd, ast.FunctionDef):
                    decs = {ast.unparse(d) for d in fd.decorator_list}
                    if not decs & {"staticmethod", "classmethod"} and fd.args.args and fd.args.args[0].arg == "self":
                        plain.add(fd.name)
            k = 0
            for fd in cls.body:
                if not isinstance(fd, ast.FunctionDef):
                    continue
                for c in ast.walk(fd):
                    if isinstance(c, ast.Call) and isinstance(c.func, ast.Attribute) and isinstance(c.func.value, ast.Name) and c.func.value.id == "self" and c.func.attr in plain:
                        k += 1
                        twice = bool(c.args) and isinstance(c.args[0], ast.Name) and c.args[0].id == "self"
                        r.check(not twice, "%s:%s.%s#%d" % (rel, cls.name, c.func.attr, k), m.where(c), "%s.%s in %s calls `%s`: self is passed twice to the bound method %s" % (
                            cls.name, fd.name, rel, ast.unparse(c)[:70], c.func.attr), detail="bound method called without a second self")
        for fd in [n for n in ast.walk(m.tree) if isinstance(n, ast.FunctionDef)]:
            names = [a.arg for a in fd.args.args]
            params = names + [a.arg for a in fd.args.kwonlyargs]
            calls = [c for c in ast.walk(fd) if isinstance(c, ast.Call) and isinstance(c.func, ast.Name) and c.func.id == fd.name]
            if len(calls) < 3:
                continue
            for p in params[1:]:
                fw, other = [], []
                for c in calls:
                    v = None
                    for kw in c.keywords:
                        if kw.arg == p:
                            v = kw.value
                    if v is None and p in names and len(c.args) > names.index(p):
                        v = c.args[names.index(p)]
                    if isinstance(v, ast.Name) and v.id == p:
                        fw.append(c)
                    elif v is None or isinstance(v, ast.Constant):
                        other.append((c, v))
                if len(fw) < 3:
                    continue
                key = "%s:%s(%s)" % (rel, fd.name, p)
                if not other:
                    r.ok(key, "%d recursive calls forward %s" % (len(fw), p))
                for c, v in other:
                    site = re.sub(r"\s+", "", ast.unparse(c))
                    ck = "%s@%s" % (key, site)
                    if key in rtable and site in rtable[key]["sites"]:
                        r.excepted(ck, rtable[key]["reason"])
                        r.ok(ck)
                        continue
                    r.fail(ck, m.where(c), "%s in %s forwards its parameter %s at %d recursive calls but passes %s at `%s`" % (
                        fd.name, rel, p, len(fw), "the default" if v is None else ast.unparse(v), ast.unparse(c)[:60]))
    # (d) generator expressions handed to package functions
    defs = {}
    for rel in [x for x in pf.all_modules() if "generated_parser" not in x]:
        t = pf.module(rel).tree
        for cls in ast.walk(t):
            if isinstance(cls, ast.ClassDef):
                for fd in cls.body:
                    if isinstance(fd, ast.FunctionDef):
                        defs.setdefault(cls.name if fd.name == "__init__" else fd.name, []).append((rel, fd, True))
        for fd in t.body:
            if isinstance(fd, ast.FunctionDef):
                defs.setdefault(fd.name, []).append((rel, fd, False))

    def materialised(fd, p):
        return any(isinstance(s_, ast.Assign) and any(isinstance(t_, ast.Name) and t_.id == p for t_ in s_.targets) and isinstance(s_.value, ast.Call)
                   and isinstance(s_.value.func, ast.Name) and s_.value.func.id in ("list", "tuple") for s_ in ast.walk(fd))

    def indexed(fd, p, depth=0):
        if materialised(fd, p):
            return None
        for n in ast.walk(fd):
            if isinstance(n, ast.Subscript) and isinstance(n.value, ast.Name) and n.value.id == p:
                return "%s subscripts it (`%s`)" % (fd.name, ast.unparse(n)[:30])
            if isinstance(n, ast.Call) and isinstance(n.func, ast.Name) and n.func.id == "len" and n.args and isinstance(n.args[0], ast.Name) and n.args[0].id == p:
                return "%s takes len(%s)" % (fd.name, p)
        if depth < 2:
            for n in ast.walk(fd):
                if isinstance(n, ast.Call):
                    nm = n.func.attr if isinstance(n.func, ast.Attribute) else n.func.id if isinstance(n.func, ast.Name) else None
                    for i, a in enumerate(n.args):
                        if isinstance(a, ast.Name) and a.id == p and nm in defs:
                            for rel2, fd2, meth in defs[nm]:
                                ps = [x.arg for x in fd2.args.args][1 if meth else 0:]
                                if i < len(ps):
                                    w = indexed(fd2, ps[i], depth + 1)
                                    if w:
                                        return "%s passes it on as %s(%s): %s" % (fd.name, nm, ps[i], w)
        return None
    import builtins
    for rel in [x for x in pf.all_modules() if "generated_parser" not in x]:
        m = pf.module(rel)
        k = 0
        for c in ast.walk(m.tree):
            if not isinstance(c, ast.Call):
                continue
            nm = c.func.attr if isinstance(c.func, ast.Attribute) else c.func.id if isinstance(c.func, ast.Name) else None
            if nm not in defs:
                continue
            if isinstance(c.func, ast.Name):
                cands = [(r2, f2, me) for r2, f2, me in defs[nm] if (r2 == rel and not me) or f2.name == "__init__"]
            elif hasattr(builtins, nm):
                cands = []   # np.any(...), nplike.sum(...): NumPy-like namespaces, not the package function of that name
            else:
                cands = defs[nm]
            if not cands:
                continue
            for i, a in enumerate(c.args):
                if not isinstance(a, ast.GeneratorExp):
                    continue
                k += 1
                why = None
                for rel2, fd2, meth in cands:
                    ps = [x.arg for x in fd2.args.args][1 if meth else 0:]
                    if i < len(ps):
                        why = why or indexed(fd2, ps[i])
                r.check(why is None, "%s:%s(<generator>)#%d" % (rel, nm, k), m.where(c), "%s passes a generator expression to %s, but %s: a generator can be iterated once and neither sliced nor measured" % (rel, nm, why), detail="generator argument is only iterated")
    # (e) callable parameters are called the same way everywhere in a function
    for rel in [x for x in pf.all_modules() if "generated_parser" not in x]:
        m = pf.module(rel)
        for fd in m.tree.body:
            if not isinstance(fd, ast.FunctionDef):
                continue
            params = set()
            for f2 in ast.walk(fd):
                if isinstance(f2, ast.FunctionDef):
                    params |= {a.arg for a in f2.args.args + f2.args.kwonlyargs}
            calls = {}
            for c in ast.walk(fd):
                if isinstance(c, ast.Call) and isinstance(c.func, ast.Name) and c.func.id in params and c.keywords and not any(kw.arg is None for kw in c.keywords):
                    calls.setdefault(c.func.id, []).append(c)
            for nm, cs in sorted(calls.items()):
                if len(cs) < 2:
                    continue
                shapes = {}
                for c in cs:
                    shapes.setdefault((len(c.args), tuple(sorted(kw.arg for kw in c.keywords))), []).append(c)
                major = max(shapes.values(), key=len)
                key = "%s:%s:callback %s" % (rel, fd.name, nm)
                if len(shapes) == 1:
                    r.ok(key, "%d calls, one shape" % len(cs))
                for shp, lst in shapes.items():
                    if lst is not major:
                        for c in lst:
                            r.fail(key, m.where(c), "%s in %s calls its callable parameter %s as `%s` here but with keywords %s at %d other sites: a callback written to the documented signature raises TypeError on this path" % (
                                fd.name, rel, nm, ast.unparse(c)[:60], sorted(kw.arg for kw in major[0].keywords), len(major)))
    return r.done()


def rule_py_dead_attr(rep, floor=20):
    r = rep.rule("DEAD.py-attr-store", "every private attribute (`obj._name = ...`) the Python layer stores is read somewhere in the package (as an attribute or through its name as a string): "
                 "a value stored under a name nothing reads - `out._partitions = copies` next to the real field `_ext` - is work thrown away, and the object keeps its old state", floor=floor)
    table = load_table("py_deadattr_exceptions.json")
    reads, writes = set(), {}
    for rel in [x for x in pf.all_modules() if "generated_parser" not in x]:
        m = pf.module(rel)
        for n in ast.walk(m.tree):
            if isinstance(n, ast.Attribute):
                if isinstance(n.ctx, ast.Store):
                    if n.attr.startswith("_") and not n.attr.startswith("__"):
                        writes.setdefault(n.attr, []).append((rel, m.where(n)))
                else:
                    reads.add(n.attr)
            elif isinstance(n, ast.Constant) and isinstance(n.value, str):
                reads.add(n.value)
    for a, ws in sorted(writes.items()):
        if a in reads:
            r.ok(a, "%d stores, read in the package" % len(ws))
        elif a in table:
            r.excepted(a, table[a])
            r.ok(a)
        else:
            r.fail(a, ws[0][1], "attribute `%s` is stored (%s) but never read anywhere in src/awkward" % (a, ", ".join(w for _, w in ws[:3])))
    return r.done()


_NP_INT = {"np.int8", "np.int16", "np.int32", "np.int64", "np.uint8", "np.uint16", "np.uint32", "np.uint64", "np.integer", "np.intc", "np.intp", "np.longlong", "np.ulonglong", "int", "bool"}
_NP_FLT = {"np.float16", "np.float32", "np.float64", "np.floating", "float", "np.longdouble"}
_NP_CPX = {"np.complex64", "np.complex128", "np.complexfloating", "complex"}
_SUBSUMES = {
    "numbers.Integral": _NP_INT, "np.integer": _NP_INT - {"int", "bool"},
    "numbers.Real": _NP_INT | _NP_FLT | {"numbers.Integral"}, "np.floating": _NP_FLT - {"float"},
    "numbers.Complex": _NP_INT | _NP_FLT | _NP_CPX | {"numbers.Integral", "numbers.Real"},
    "numbers.Number": _NP_INT | _NP_FLT | _NP_CPX | {"numbers.Integral", "numbers.Real", "numbers.Complex"},
    "np.number": (_NP_INT | _NP_FLT | _NP_CPX) - {"int", "bool", "float", "complex"},
    "np.generic": {x for x in (_NP_INT | _NP_FLT | _NP_CPX) if x.startswith("np.")} | {"np.bool_", "np.datetime64", "np.timedelta64", "np.number", "np.integer", "np.floating"},
    "awkward0.MaskedArray": {"awkward0.BitMaskedArray", "awkward0.IndexedMaskedArray"}, "awkward0.ChunkedArray": {"awkward0.AppendableArray"},
    "Iterable": {"list", "tuple", "dict", "set", "str", "bytes", "np.ndarray"}, "collections.abc.Iterable": {"list", "tuple", "dict", "set", "str", "bytes", "np.ndarray"},
}


def _isinstance_exact(test):
    """(subject text, [dotted class names]) when test is exactly isinstance(subject, C | (C, ...)); else None"""
    if not (isinstance(test, ast.Call) and isinstance(test.func, ast.Name) and test.func.id == "isinstance" and len(test.args) == 2):
        return None
    a = test.args[1]
    elts = a.elts if isinstance(a, ast.Tuple) else [a]
    names = []
    for e in elts:
        d = pf.dotted(e) if isinstance(e, (ast.Attribute, ast.Name)) else None
        if d is None:
            return None
        names.append(d.replace("numpy.", "np."))
    return ast.unparse(test.args[0]), names


def rule_py_isinstance_shadow(rep, floor=100):
    r = rep.rule("DEAD.py-isinstance-shadow", "in an if/elif chain of isinstance tests on one subject, no class tested in a later arm is already captured by an earlier unconditional arm - the same class again, "
                 "or a concrete class behind its abstract base (numbers.Integral captures every np.int*/np.uint*, numbers.Real every np.float*): the later arm is dead for that class and the earlier, coarser answer is given", floor=floor)
    table = load_table("py_shadow_exceptions.json")
    for rel in [x for x in pf.all_modules() if "generated_parser" not in x]:
        m = pf.module(rel)
        done = set()
        for q, f in sorted(m.funcs.items(), key=lambda kv: -len(kv[0])):    # innermost qualified name first: a chain is reported once, under the function that owns it
            k = 0
            for first, tests, has_else, _ in _chains(f):
                if id(first) in done:
                    continue
                done.add(id(first))
                earlier = {}    # subject -> [(class, test node)]
                for t in tests:
                    # positive conjuncts of this arm
                    conj = t.values if isinstance(t, ast.BoolOp) and isinstance(t.op, ast.And) else [t]
                    for c in conj:
                        ie = _isinstance_exact(c)
                        if not ie:
                            continue
                        subj, names = ie
                        k += 1
                        dead = []
                        for n_ in names:
                            for e_, _t in earlier.get(subj, []):
                                if n_ == e_ or n_ in _SUBSUMES.get(e_, ()):
                                    dead.append((n_, e_))
                                    break
                        tk = "%s:%s:%s:%s" % (rel, q, subj, ",".join(sorted({d for d, _ in dead})))
                        if dead and tk in table:
                            r.excepted(tk, table[tk])
                            r.ok(tk)
                            continue
                        r.check(not dead, "%s:%s:%s#%d" % (rel, q, subj, k), m.where(c), "in %s (%s) the arm `isinstance(%s, ...)` tests %s after an earlier arm already captured %s: for these classes the arm can never be taken" % (
                            q, rel, subj, sorted({d for d, _ in dead}), sorted({e for _, e in dead})), detail="no class shadowed by an earlier arm")
                    # only an unconditional isinstance arm (or a disjunct of an `or`) captures its classes for the rest of the chain
                    for d_ in (t.values if isinstance(t, ast.BoolOp) and isinstance(t.op, ast.Or) else [t]):
                        ie = _isinstance_exact(d_)
                        if ie:
                            for n_ in ie[1]:
                                earlier.setdefault(ie[0], []).append((n_, t))
    return r.done()


def rule_py_none_guard(rep, floor=200):
    r = rep.rule("DEAD.py-none-guard", "a test `v is None` / `v is not None` is never applied to a local whose reaching definition in the same block is an arithmetic, comparison or display expression: "
                 "such a value is never None - either the guard is dead and the None case (`None - None`) has already raised on the line above, or the wrong variable is tested", floor=floor)
    never = (ast.BinOp, ast.Compare, ast.List, ast.Tuple, ast.Dict, ast.ListComp, ast.JoinedStr)
    for rel in [x for x in pf.all_modules() if "generated_parser" not in x]:
        m = pf.module(rel)
        k = 0
        for fd in ast.walk(m.tree):
            if not isinstance(fd, ast.FunctionDef):
                continue
            for n in ast.walk(fd):
                for fld in ("body", "orelse", "finalbody"):
                    b = getattr(n, fld, None)
                    if not (isinstance(b, list) and b and isinstance(b[0], ast.stmt)):
                        continue
                    last = {}
                    for st in b:
                        hdr = [st.test] if isinstance(st, (ast.If, ast.While)) else [st] if not hasattr(st, "body") else []
                        for h in hdr:
                            for c in ast.walk(h):
                                if (isinstance(c, ast.Compare) and len(c.ops) == 1 and isinstance(c.ops[0], (ast.Is, ast.IsNot)) and isinstance(c.comparators[0], ast.Constant)
                                        and c.comparators[0].value is None and isinstance(c.left, ast.Name)):
                                    k += 1
                                    d = last.get(c.left.id)
                                    r.check(d is None, "%s:%s:%s#%d" % (rel, fd.name, c.left.id, k), m.where(c), "%s in %s tests `%s` although %s was just assigned `%s`, which is never None: if an operand was None the expression has already raised" % (
                                        fd.name, rel, ast.unparse(c), c.left.id, ast.unparse(d)[:60] if d is not None else ""), detail="guarded value may be None")
                        if isinstance(st, ast.Assign) and len(st.targets) == 1 and isinstance(st.targets[0], ast.Name) and isinstance(st.value, never):
                            last[st.targets[0].id] = st.value
                        else:
                            for x in ast.walk(st):
                                if isinstance(x, ast.Name) and isinstance(x.ctx, ast.Store):
                                    last.pop(x.id, None)
    return r.done()


def rule_py_keepdims_recombine(rep, floor=3):
    r = rep.rule("REDUCE.py-keepdims-recombine", "in operations/reducers.py a statistic `v = R(a, ..., axis=axis, keepdims=K)` that is later combined arithmetically with the unreduced array a (`a - v`, `f(a) / v`) "
                 "is computed with keepdims=True: with the caller's keepdims the reduced dimension disappears and Awkward's left-broadcasting pairs the statistic with the wrong elements for every axis but the innermost", floor=floor)
    m = pf.module("operations/reducers.py")
    reducers = {fd.name for fd in m.tree.body if isinstance(fd, ast.FunctionDef)}
    for fd in m.tree.body:
        if not isinstance(fd, ast.FunctionDef):
            continue
        stats = {}   # var -> (call, array root names)
        derived = {}  # local -> root array names it is computed from elementwise (expx = exp(x))
        params = {a.arg for a in fd.args.args}
        for s_ in ast.walk(fd):
            if not (isinstance(s_, ast.Assign) and len(s_.targets) == 1 and isinstance(s_.targets[0], ast.Name)):
                continue
            v, val = s_.targets[0].id, s_.value
            if isinstance(val, ast.Call) and isinstance(val.func, ast.Name) and val.func.id in reducers and val.args and any(k.arg == "axis" for k in val.keywords):
                roots = {n.id for n in ast.walk(val.args[0]) if isinstance(n, ast.Name)}
                stats[v] = (val, roots)
            elif isinstance(val, (ast.BinOp, ast.Call)):
                derived[v] = {n.id for n in ast.walk(val) if isinstance(n, ast.Name) and n.id in params}

        def roots_of(e):
            out = set()
            for n in ast.walk(e):
                if isinstance(n, ast.Name):
                    out.add(n.id)
                    out |= derived.get(n.id, set())
            return out
        k = 0
        for b in ast.walk(fd):
            if isinstance(b, ast.BinOp):
                pair = (b.left, b.right)
            elif isinstance(b, ast.Call) and isinstance(b.func, ast.Attribute) and b.func.attr in ("true_divide", "divide", "subtract", "add", "multiply", "floor_divide") and len(b.args) == 2:
                pair = tuple(b.args)
            else:
                continue
            for side, other in (pair, pair[::-1]):
                if isinstance(side, ast.Name) and side.id in stats:
                    call, roots = stats[side.id]
                    oroots = roots_of(other)
                    if not (oroots & (roots | {x for r0 in roots for x in derived.get(r0, ())})) or any(isinstance(n, ast.Name) and n.id in stats for n in ast.walk(other)):
                        continue   # statistic combined with another statistic (sumwx / sumw), not with the unreduced array
                    k += 1
                    kd = [kw.value for kw in call.keywords if kw.arg == "keepdims"]
                    good = bool(kd) and isinstance(kd[0], ast.Constant) and kd[0].value is True
                    r.check(good, "%s:%s#%d" % (fd.name, side.id, k), m.where(b), "%s combines `%s` with the unreduced array in `%s`, but %s was computed with keepdims=%s: for axis != -1 the statistic of one group is paired with the elements of another" % (
                        fd.name, side.id, ast.unparse(b)[:50], side.id, ast.unparse(kd[0]) if kd else "<default False>"), detail="statistic keeps the reduced dimension")
    return r.done()


def rule_py_record_field_trim(rep, floor=4):
    r = rep.rule("TRIM.py-record-field", "(a) wherever the Python layer takes `R.field(k)` of a layout R known to be a RecordArray (under isinstance(R, recordtypes / RecordArray)) the result is cut to the record array's own length "
                 "(`R.field(k)[: len(R)]`): field() hands out the stored content, which may be longer than the array; (b) a division or modulo by `X.size` sits under a test of `X.size`: a RegularArray may have size 0; "
                 "(c) a `while isinstance(v, RegularArray)` descent steps with `v = v.content[: len(v) * v.size]`; (d) a RegularArray is never measured by len(v.content); "
                 "(e) a comprehension over `R.contents` of a RecordArray trims each item to len(R) or feeds a RecordArray constructor that is given the length explicitly", floor=floor)
    table = load_table("py_recordfield_exceptions.json")
    for rel in [x for x in pf.all_modules() if "generated_parser" not in x]:
        m = pf.module(rel)
        k = 0
        for c in ast.walk(m.tree):
            if isinstance(c, ast.Call) and isinstance(c.func, ast.Attribute) and c.func.attr == "field" and len(c.args) == 1:
                recv = ast.unparse(c.func.value)
                isrec = False
                for t, inbody in pf.enclosing_tests(c):
                    if not inbody:
                        continue
                    for x in ast.walk(t):
                        ic = _isinstance_classes(x)
                        if ic and ic[0] == recv and any(n_ in ("recordtypes", "RecordArray") for n_ in ic[1]):
                            isrec = True
                if not isrec:
                    continue
                k += 1
                fn = getattr(_owner_func(c), 'name', '<module>')
                key = "%s:%s:%s" % (rel, fn, recv)
                par = getattr(c, "_parent", None)
                trimmed = (isinstance(par, ast.Subscript) and par.value is c and isinstance(par.slice, ast.Slice) and par.slice.lower is None and par.slice.upper is not None
                           and ast.unparse(par.slice.upper) == "len(%s)" % recv)
                if not trimmed and key in table:
                    r.excepted(key, table[key])
                    r.ok(key)
                    continue
                r.check(trimmed, "%s#%d" % (key, k), m.where(c), "%s in %s uses `%s` untrimmed: the stored content of a RecordArray field may be longer than the array (unreachable tail becomes visible)" % (fn, rel, ast.unparse(c)), detail="[: len(%s)]" % recv)
            if isinstance(c, ast.BinOp) and isinstance(c.op, (ast.FloorDiv, ast.Mod, ast.Div)) and isinstance(c.right, ast.Attribute) and c.right.attr == "size":
                recv = ast.unparse(c.right)
                k += 1
                guarded = any(recv in ast.unparse(t) for t, _ in pf.enclosing_tests(c))
                r.check(guarded, "%s:%s:%s#%d" % (rel, getattr(_owner_func(c), "name", "<module>"), recv, k), m.where(c), "%s in %s divides by `%s` without testing it: a RegularArray of size 0 raises ZeroDivisionError" % (getattr(_owner_func(c), "name", "<module>"), rel, recv), detail="under a test of %s" % recv)
    # (e) comprehensions over the contents of a RecordArray
    for rel in [x for x in pf.all_modules() if "generated_parser" not in x and not x.startswith("_connect/_numba")]:
        m = pf.module(rel)
        k = 0
        for c in ast.walk(m.tree):
            if not (isinstance(c, (ast.ListComp, ast.GeneratorExp)) and len(c.generators) == 1 and isinstance(c.generators[0].iter, ast.Attribute) and c.generators[0].iter.attr == "contents"
                    and isinstance(c.generators[0].iter.value, ast.Name) and isinstance(c.generators[0].target, ast.Name)):
                continue
            L, x = c.generators[0].iter.value.id, c.generators[0].target.id
            if not any(inb and ("RecordArray" in ast.unparse(t_) or "recordtypes" in ast.unparse(t_)) and L in ast.unparse(t_) for t_, inb in pf.enclosing_tests(c)):
                continue
            k += 1
            fn = getattr(_owner_func(c), "name", "<module>")
            key = "%s:%s:%s.contents" % (rel, fn, L)
            trimmed = ("%s[:len(%s)]" % (x, L)) in ast.unparse(c.elt).replace(" ", "")
            par = getattr(c, "_parent", None)
            rebuilt = isinstance(par, ast.Call) and (pf.dotted(par.func) or "").endswith("RecordArray") and len(par.args) >= 3
            if not (trimmed or rebuilt) and key in table:
                r.excepted(key, table[key])
                r.ok(key)
                continue
            r.check(trimmed or rebuilt, "%s#%d" % (key, k), m.where(c), "%s in %s converts every item of `%s.contents` (`%s`) without cutting it to len(%s) and without rebuilding a RecordArray of explicit length: fields may be longer than the record array" % (
                fn, rel, L, ast.unparse(c.elt)[:40], L), detail="trimmed, or rebuilt with an explicit length")
    # (c), (d) RegularArray: the reachable part of the content is len(X) * X.size
    for rel in [x for x in pf.all_modules() if "generated_parser" not in x and not x.startswith("_connect/_numba")]:
        m = pf.module(rel)
        k = 0
        for n in ast.walk(m.tree):
            if isinstance(n, ast.While) and "isinstance(" in ast.unparse(n.test) and "RegularArray" in ast.unparse(n.test):
                mm = re.search(r"isinstance\((\w+), ak\.layout\.RegularArray\)", ast.unparse(n.test))
                if not mm:
                    continue
                v = mm.group(1)
                for a_ in ast.walk(n):
                    if isinstance(a_, ast.Assign) and len(a_.targets) == 1 and isinstance(a_.targets[0], ast.Name) and a_.targets[0].id == v and ".content" in ast.unparse(a_.value):
                        k += 1
                        want = "%s.content[:len(%s) * %s.size]" % (v, v, v)
                        r.check(ast.unparse(a_.value) == want, "%s:%s:descent#%d" % (rel, getattr(_owner_func(n), "name", "<module>"), k), m.where(a_), "%s descends through RegularArrays with `%s`: the content may be longer than length * size, so what is reshaped or measured below includes unreachable items" % (
                            rel, ast.unparse(a_)), detail=want)
            if isinstance(n, ast.Call) and isinstance(n.func, ast.Name) and n.func.id == "len" and n.args and isinstance(n.args[0], ast.Attribute) and n.args[0].attr == "content" and isinstance(n.args[0].value, ast.Name):
                v = n.args[0].value.id
                if any(inb and ("isinstance(%s, ak.layout.RegularArray)" % v) in ast.unparse(t_) for t_, inb in pf.enclosing_tests(n)):
                    k += 1
                    r.fail("%s:%s:len(%s.content)#%d" % (rel, getattr(_owner_func(n), "name", "<module>"), v, k), m.where(n), "%s measures a RegularArray by `len(%s.content)`: its extent is len(%s) * %s.size (the content may be longer)" % (rel, v, v, v))
    return r.done()


def rule_py_enumerate_index(rep, floor=10):
    r = rep.rule("INDEX.py-enumerate", "in `for i, v in enumerate(xs)` a list that grows by one entry per iteration (L.append(...) in the loop body) is subscripted with the position i, never with the enumerated value v: "
                 "L has as many entries as iterations so far, whatever the values of xs are (offsets[row_group] with row_groups=[1] is out of range)", floor=floor)
    for rel in [x for x in pf.all_modules() if "generated_parser" not in x]:
        m = pf.module(rel)
        k = 0
        for lp in ast.walk(m.tree):
            if not (isinstance(lp, ast.For) and isinstance(lp.iter, ast.Call) and isinstance(lp.iter.func, ast.Name) and lp.iter.func.id == "enumerate" and isinstance(lp.target, ast.Tuple)
                    and len(lp.target.elts) == 2 and all(isinstance(e, ast.Name) for e in lp.target.elts)):
                continue
            i, v = lp.target.elts[0].id, lp.target.elts[1].id
            grown = {ast.unparse(c.func.value) for st in lp.body for c in ast.walk(st) if isinstance(c, ast.Call) and isinstance(c.func, ast.Attribute) and c.func.attr == "append"}
            k += 1
            bad = [s_ for s_ in ast.walk(lp) if isinstance(s_, ast.Subscript) and ast.unparse(s_.value) in grown and v in {x.id for x in ast.walk(s_.slice) if isinstance(x, ast.Name)}]
            r.check(not bad, "%s:%s#enumerate%d" % (rel, getattr(_owner_func(lp), "name", "<module>"), k), m.where(bad[0] if bad else lp), "in %s the loop `for %s, %s in %s` subscripts the list it grows with the enumerated value: `%s`" % (
                rel, i, v, ast.unparse(lp.iter)[:40], ast.unparse(bad[0]) if bad else ""), detail="grown lists are indexed by position")
    return r.done()


def rule_py_form_parameters(rep, floor=10):
    r = rep.rule("META.py-form-parameters", "every layout node that from_buffers rebuilds from a Form (each `return <constructor>(...)` of _form_to_layout under an isinstance(form, ...) arm) is given the identities and the parameters read from that Form: "
                 "a constructor that omits them drops __record__/__array__ and every user parameter of that node on the round trip", floor=floor)
    m = pf.module("operations/convert.py")
    fd = m.funcs.get("_form_to_layout")
    if fd is None:
        raise AnalysisError("operations/convert.py: _form_to_layout not found")
    k = 0
    for r_ in ast.walk(fd):
        if not (isinstance(r_, ast.Return) and isinstance(r_.value, ast.Call) and _owner_func(r_) is fd):
            continue
        if not any(inb and "isinstance(form" in ast.unparse(t) for t, inb in pf.enclosing_tests(r_)):
            continue
        k += 1
        names = {n.id for n in ast.walk(r_.value) if isinstance(n, ast.Name)}
        missing = [x for x in ("identities", "parameters") if x not in names]
        r.check(not missing, "_form_to_layout#return%d:%s" % (k, ast.unparse(r_.value.func)[:40]), m.where(r_), "_form_to_layout returns `%s(...)` without %s" % (ast.unparse(r_.value.func)[:50], missing), detail="identities and parameters passed")
    return r.done()


def rule_py_scatter_size(rep, floor=50):
    r = rep.rule("BOUND.py-scatter-size", "a NumPy buffer that is written through an index array (`B[I] = ...`) is not allocated with a size computed from len(I): I holds positions, whose values are bounded by the length of what they point into, "
                 "not by how many of them there are (tabled: boolean masks, where len(I) is the right size)", floor=floor)
    table = load_table("py_scatter_exceptions.json")
    for rel in [x for x in pf.all_modules() if "generated_parser" not in x]:
        m = pf.module(rel)
        k = 0
        for s_ in ast.walk(m.tree):
            if not isinstance(s_, ast.Assign):
                continue
            fd = _owner_func(s_)
            if not isinstance(fd, ast.FunctionDef):
                continue
            for t in s_.targets:
                if not (isinstance(t, ast.Subscript) and isinstance(t.value, ast.Name) and isinstance(t.slice, ast.Name)):
                    continue
                B, I = t.value.id, t.slice.id
                def other_arm(a_):
                    for p_ in pf.parent_chain(s_):
                        if isinstance(p_, ast.If):
                            inb = any(s_ is x for b_ in p_.body for x in ast.walk(b_))
                            mine, theirs = (p_.body, p_.orelse) if inb else (p_.orelse, p_.body)
                            if any(a_ is x for o in theirs for x in ast.walk(o)):
                                return True
                    return False
                defs = {}
                for a_ in ast.walk(fd):
                    if isinstance(a_, ast.Assign) and len(a_.targets) == 1 and isinstance(a_.targets[0], ast.Name) and not other_arm(a_):
                        defs.setdefault(a_.targets[0].id, []).append(a_.value)

                def mentions_len(e, depth=0):
                    for x in ast.walk(e):
                        if isinstance(x, ast.Call) and isinstance(x.func, ast.Name) and x.func.id == "len" and x.args and ast.unparse(x.args[0]) == I:
                            return True
                        if isinstance(x, ast.Name) and depth < 2 and x.id in defs and x.id != I and any(mentions_len(v, depth + 1) for v in defs[x.id]):
                            return True
                    return False
                allocs = [v for v in defs.get(B, []) if isinstance(v, ast.Call) and isinstance(v.func, ast.Attribute) and v.func.attr in ("zeros", "empty", "ones", "full") and v.args]
                if not allocs:
                    continue
                k += 1
                bad = [a_ for a_ in allocs if mentions_len(a_.args[0])]
                key = "%s:%s:%s[%s]" % (rel, fd.name, B, I)
                if bad and key in table:
                    r.excepted(key, table[key])
                    r.ok(key)
                    continue
                r.check(not bad, "%s#%d" % (key, k), m.where(s_), "%s in %s writes `%s` but allocates %s as `%s`: the positions in %s are bounded by the content they index, not by len(%s)" % (
                    fd.name, rel, ast.unparse(s_)[:50], B, ast.unparse(bad[0])[:50] if bad else "", I, I), detail="target not sized by the number of indices")
    return r.done()


def rule_py_arrow_option_wrap(rep, floor=4):
    r = rep.rule("WRAP.py-arrow-option", "every return of _from_arrow.popbuffers hands back an option-type wrapper (BitMaskedArray / UnmaskedArray, possibly simplified or sliced) - its callers strip one level with `.content` when the Arrow field is not nullable, "
                 "so an arm that returns its bare result loses that result's own top node (the index of a dictionary)", floor=floor)
    m = pf.module("operations/convert.py")
    fd = m.funcs.get("_from_arrow.popbuffers") or m.funcs.get("popbuffers")
    if fd is None:
        cands = [f for q, f in m.funcs.items() if q.endswith("popbuffers")]
        if not cands:
            raise AnalysisError("operations/convert.py: popbuffers not found")
        fd = cands[0]
    wrapped = set()
    k = 0
    for st in fd.body:   # top-level tail: `out = BitMaskedArray(...)` / `out = UnmaskedArray(out)` make `out` a wrapper from here on
        for a_ in ast.walk(st):
            if isinstance(a_, ast.Assign) and len(a_.targets) == 1 and isinstance(a_.targets[0], ast.Name) and isinstance(a_.value, ast.Call) and (pf.dotted(a_.value.func) or "").endswith(("BitMaskedArray", "UnmaskedArray", "ByteMaskedArray")) and st is not a_ and isinstance(st, ast.If) and st in fd.body:
                wrapped.add((a_.targets[0].id, fd.body.index(st)))
    for r_ in ast.walk(fd):
        if not (isinstance(r_, ast.Return) and r_.value is not None and _owner_func(r_) is fd):
            continue
        k += 1
        v = r_.value
        while isinstance(v, ast.Subscript) or (isinstance(v, ast.Call) and isinstance(v.func, ast.Attribute) and v.func.attr == "simplify"):
            v = v.value if isinstance(v, ast.Subscript) else v.func.value
        ok = isinstance(v, ast.Call) and (pf.dotted(v.func) or "").endswith(("BitMaskedArray", "UnmaskedArray", "ByteMaskedArray"))
        if not ok and isinstance(v, ast.Name):
            # a top-level return after the wrapping block
            top = [i for i, st in enumerate(fd.body) if any(r_ is x for x in ast.walk(st))]
            ok = bool(top) and any(nm == v.id and i < top[0] for nm, i in wrapped)
        if not ok and isinstance(v, ast.Call) and isinstance(v.func, ast.Name) and v.func.id == "popbuffers":
            ok = True    # the recursive result is already wrapped
        r.check(ok, "popbuffers#return%d" % k, m.where(r_), "popbuffers returns `%s`, which is not an option-type wrapper: a caller for a non-nullable field strips `.content` and loses this node" % ast.unparse(r_.value)[:60], detail="returns an option-type wrapper")
    return r.done()


def rule_py_filtered_concatenate(rep, floor=2):
    r = rep.rule("SENTINEL.py-filtered-concatenate", "a list built by a filtering comprehension (`[f(x) for x in xs if len(x) > 0]`) is only handed to concatenate / stack after a test of its length: "
                 "when every item is filtered out, concatenating nothing raises instead of giving the empty result of the right type", floor=floor)
    for rel in [x for x in pf.all_modules() if "generated_parser" not in x]:
        m = pf.module(rel)
        k = 0
        for c in ast.walk(m.tree):
            if not (isinstance(c, ast.Call) and c.args and isinstance(c.args[0], ast.Name)):
                continue
            nm = c.func.attr if isinstance(c.func, ast.Attribute) else getattr(c.func, "id", "")
            if nm not in ("concatenate", "stack", "hstack", "vstack"):
                continue
            fd = _owner_func(c)
            if not isinstance(fd, ast.FunctionDef):
                continue
            L = c.args[0].id
            src = [s_ for s_ in ast.walk(fd) if isinstance(s_, ast.Assign) and len(s_.targets) == 1 and isinstance(s_.targets[0], ast.Name) and s_.targets[0].id == L
                   and isinstance(s_.value, ast.ListComp) and any(g.ifs for g in s_.value.generators) and s_.lineno < c.lineno]
            if not src:
                continue
            k += 1
            tests = [t for t in ast.walk(fd) if isinstance(t, (ast.If, ast.IfExp)) and any((pat % L) in ast.unparse(t.test) for pat in ("len(%s) == 0", "len(%s) > 0", "len(%s) != 0", "len(%s) >= 1", "len(%s) < 1", "not %s")) and src[-1].lineno < t.lineno <= c.lineno]
            r.check(bool(tests), "%s:%s:%s(%s)#%d" % (rel, fd.name, nm, L, k), m.where(c), "%s in %s passes the filtered list %s (`%s`) to %s without testing len(%s): if every item is filtered out there is nothing to concatenate" % (
                fd.name, rel, L, ast.unparse(src[-1].value)[:50], nm, L), detail="len(%s) tested first" % L)
    return r.done()


def rule_py_numba_view_start(rep, floor=5):
    r = rep.rule("VIEW.py-numba-start", "in the Numba lowering of element access (functions lower_getitem_at* of _connect/_numba/layout.py) the index into a buffer is derived from viewproxy.start + atval: "
                 "no division, remainder or multiplication is applied to the view-relative atval itself - a view produced by slicing or by nesting in a list has start != 0 (BitMaskedArray: bit start+at, not byte start + at//8)", floor=floor)
    m = pf.module("_connect/_numba/layout.py")
    k = 0
    for q, fd in sorted(m.funcs.items()):
        if not q.split(".")[-1].startswith("lower_getitem_at"):
            continue
        uses_at = False
        for c in ast.walk(fd):
            if isinstance(c, ast.Call) and isinstance(c.func, ast.Attribute) and isinstance(c.func.value, ast.Name) and c.func.value.id == "builder" and c.func.attr in ("sdiv", "srem", "udiv", "urem", "mul", "shl", "lshr", "ashr"):
                uses_at = True
                k += 1
                bare = [a for a in c.args if isinstance(a, ast.Name) and a.id == "atval"]
                r.check(not bare, "%s#%s%d" % (q, c.func.attr, k), m.where(c), "%s computes `%s` on the view-relative atval: the position in the buffer is viewproxy.start + atval, so the quotient/remainder must be taken of that sum" % (q, ast.unparse(c)[:60]), detail="arithmetic on start + atval")
        if not uses_at:
            k += 1
            r.ok("%s#none" % q, "no scaled index")
    return r.done()


def rule_py_numba_lowering(rep, floor=20):
    r = rep.rule("VIEW.py-numba-lowering", "in the Numba lowering code (_connect/_numba/*.py): (a) a Python variable computed from builder.load(slot) is not used after a later builder.store(..., slot) in the same function without being recomputed - "
                 "it describes the slot's old content (the length of the previous partition); (b) the element index handed to ArrayBuilder_append_nowrap is absolute: it is derived from <view>.start or from a loop over start..stop; "
                 "(c) a half-open interval test built from two icmp_signed on the same value uses opposite directions for the two bounds (lo <= x and x < hi); "
                 "(d) a lower_getitem_at that forwards the caller's untouched atval declares it with the caller's attype (numba.intp only for an index it computed itself); "
                 "(e) a new reference taken through pyapi (object_getattr_string, unserialize, call_*...) is decref'd or returned by the function that took it; "
                 "(f) every *Type.tolayout consumes its `fields` argument (forwards it, applies it or asserts it empty); "
                 "(g) for each node type, tolookup and form_fill extract the same buffers with the same NumPy call (asarray vs ascontiguousarray)", floor=floor)
    for rel in [x for x in pf.all_modules() if x.startswith("_connect/_numba")]:
        m = pf.module(rel)
        for fd in ast.walk(m.tree):
            if not isinstance(fd, ast.FunctionDef):
                continue
            loads = {}
            for s_ in ast.walk(fd):
                if isinstance(s_, ast.Assign) and len(s_.targets) == 1 and isinstance(s_.targets[0], ast.Name):
                    for c in ast.walk(s_.value):
                        if isinstance(c, ast.Call) and isinstance(c.func, ast.Attribute) and c.func.attr == "load" and isinstance(c.func.value, ast.Name) and c.func.value.id == "builder" and c.args:
                            loads.setdefault(s_.targets[0].id, []).append((ast.unparse(c.args[0]), s_.lineno))
            stores = [(ast.unparse(c.args[1]), c.lineno) for c in ast.walk(fd) if isinstance(c, ast.Call) and isinstance(c.func, ast.Attribute) and c.func.attr == "store"
                      and isinstance(c.func.value, ast.Name) and c.func.value.id == "builder" and len(c.args) == 2]
            for v, ls in sorted(loads.items()):
                for slot, l0 in ls:
                    key = "%s:%s:%s<-load(%s)" % (rel, fd.name, v, slot)
                    stale = None
                    for st, l1 in stores:
                        if st == slot and l1 > l0:
                            uses = sorted(n.lineno for n in ast.walk(fd) if isinstance(n, ast.Name) and n.id == v and isinstance(n.ctx, ast.Load) and n.lineno > l1)
                            redef = [a_.lineno for a_ in ast.walk(fd) if isinstance(a_, ast.Assign) and any(isinstance(t, ast.Name) and t.id == v for t in a_.targets) and a_.lineno > l0]
                            if uses and not [x for x in redef if x <= uses[0]]:
                                stale = (l1, uses[0])
                    r.check(stale is None, key, "src/awkward/%s:%d" % (rel, l0), "%s in %s computes %s from builder.load(%s), stores a new value into that slot at line %s and still uses %s at line %s" % (
                        fd.name, rel, v, slot, stale and stale[0], v, stale and stale[1]), detail="not used after the slot is overwritten")
            # (b)
            k = 0
            for c in ast.walk(fd):
                if isinstance(c, ast.Call) and any(isinstance(a, ast.Attribute) and a.attr == "ArrayBuilder_append_nowrap" for a in c.args):
                    tup = [a for a in c.args if isinstance(a, ast.Tuple)]
                    if not tup or not isinstance(tup[0].elts[-1], ast.Name):
                        continue
                    k += 1
                    at = tup[0].elts[-1].id
                    srcs = [ast.unparse(a_.value) for a_ in ast.walk(fd) if isinstance(a_, ast.Assign) and any(isinstance(t, ast.Name) and t.id == at for t in a_.targets)]
                    ok = any(".start" in s0 or "loop.index" in s0 for s0 in srcs)
                    r.check(ok, "%s:%s:append_nowrap#%d" % (rel, fd.name, k), m.where(c), "%s in %s passes `%s` to ArrayBuilder_append_nowrap together with the whole node at view.pos, but %s is never offset by the view's start: the element of another list/slice is appended" % (
                        fd.name, rel, at, at), detail="index offset by view.start")
            # (c)
            k = 0
            for c in ast.walk(fd):
                if isinstance(c, ast.Call) and isinstance(c.func, ast.Attribute) and c.func.attr == "and_" and len(c.args) == 2 and all(
                        isinstance(a, ast.Call) and isinstance(a.func, ast.Attribute) and a.func.attr == "icmp_signed" and len(a.args) == 3 and isinstance(a.args[0], ast.Constant) for a in c.args):
                    a, b = c.args
                    # normalise to (value op bound): which operand is shared?
                    ta, tb = [ast.unparse(x) for x in a.args[1:]], [ast.unparse(x) for x in b.args[1:]]
                    shared = set(ta) & set(tb)
                    if len(shared) != 1:
                        continue
                    x = shared.pop()

                    def direction(op, operands):
                        # True when the comparison bounds x from above (x < hi / hi > x)
                        lt = op in ("<", "<=")
                        return lt if operands[0] == x else not lt
                    k += 1
                    da, db = direction(a.args[0].value, ta), direction(b.args[0].value, tb)
                    r.check(da != db, "%s:%s:interval#%d" % (rel, fd.name, k), m.where(c), "%s in %s tests `%s` and `%s` together: both bound %s from the same side, so this is not the interval test it is written as" % (
                        fd.name, rel, ast.unparse(a)[:50], ast.unparse(b)[:50], x), detail="one lower and one upper bound")
    # (d) index type and index value travel together
    m = pf.module("_connect/_numba/layout.py")
    for q, fd in sorted(m.funcs.items()):
        if not q.split(".")[-1].startswith("lower_getitem_at"):
            continue
        k = 0
        for c in ast.walk(fd):
            if isinstance(c, ast.Call) and isinstance(c.func, ast.Attribute) and c.func.attr.startswith("lower_getitem_at") and len(c.args) >= 8:
                ty, val = c.args[6], c.args[7]
                k += 1
                local = isinstance(val, ast.Name) and any(isinstance(a_, ast.Assign) and a_.lineno < c.lineno and any(isinstance(t_, ast.Name) and t_.id == val.id for t_ in a_.targets) for a_ in ast.walk(fd))
                ok = ast.unparse(ty) == "attype" or local or not isinstance(val, ast.Name)
                r.check(ok, "%s:forward#%d" % (q, k), m.where(c), "%s forwards the caller's `%s` to %s but declares its type as %s instead of attype: an int32/uint8 index is then mixed with intp arithmetic (LLVM type error) and unsignedness is lost" % (
                    q, ast.unparse(val), c.func.attr, ast.unparse(ty)), detail="attype with the caller's value, intp only with a locally computed one")
    # (e) new references obtained from the C API are released
    newref = ("object_getattr_string", "unserialize", "call_function_objargs", "call_method", "import_module_noblock", "long_from_ssize_t", "long_from_longlong", "tuple_pack", "list_new", "dict_new",
              "from_native_value", "string_from_constant_string", "bool_from_long", "float_from_double")
    for rel in [x for x in pf.all_modules() if x.startswith("_connect/_numba")]:
        m = pf.module(rel)
        for fd in ast.walk(m.tree):
            if not isinstance(fd, ast.FunctionDef):
                continue
            for s_ in ast.walk(fd):
                if not (isinstance(s_, ast.Assign) and len(s_.targets) == 1 and isinstance(s_.targets[0], ast.Name) and isinstance(s_.value, ast.Call) and isinstance(s_.value.func, ast.Attribute)
                        and s_.value.func.attr in newref and "pyapi" in ast.unparse(s_.value.func.value)):
                    continue
                v = s_.targets[0].id
                dec = any(isinstance(c, ast.Call) and isinstance(c.func, ast.Attribute) and c.func.attr == "decref" and c.args and isinstance(c.args[-1], ast.Name) and c.args[-1].id == v for c in ast.walk(fd))
                ret = any(isinstance(r_, ast.Return) and r_.value is not None and v in {n.id for n in ast.walk(r_.value) if isinstance(n, ast.Name)} for r_ in ast.walk(fd))
                r.check(dec or ret, "%s:%s:newref %s" % (rel, fd.name, v), m.where(s_), "%s in %s obtains a new reference `%s = %s` and neither decrefs nor returns it: one Python reference leaks per call" % (fd.name, rel, v, ast.unparse(s_.value)[:50]), detail="decref or returned")
    # (f) parameters every implementation of a method must honour
    m = pf.module("_connect/_numba/layout.py")
    for meth, param in (("tolayout", "fields"),):
        for c in ast.walk(m.tree):
            if isinstance(c, ast.ClassDef):
                for fd in c.body:
                    if isinstance(fd, ast.FunctionDef) and fd.name == meth and param in [a.arg for a in fd.args.args]:
                        trivial = len(fd.body) == 1 and isinstance(fd.body[0], (ast.Raise, ast.Pass))
                        used = any(isinstance(n, ast.Name) and n.id == param and isinstance(n.ctx, ast.Load) for n in ast.walk(fd))
                        r.check(used or trivial, "%s.%s(%s)" % (c.name, meth, param), m.where(fd), "%s.%s never looks at its parameter %s: the pending field selection of a view (a.x on a list of records) is dropped when the array is boxed" % (c.name, meth, param), detail="parameter consumed")
    # (g) tolookup and form_fill extract the same buffers the same way
    m = pf.module("_connect/_numba/layout.py")

    def _extract(fd):
        return {(x.func.attr, ast.unparse(x.args[0])) for x in ast.walk(fd) if isinstance(x, ast.Call) and isinstance(x.func, ast.Attribute) and x.func.attr in ("asarray", "ascontiguousarray", "array") and x.args}
    for c in ast.walk(m.tree):
        if isinstance(c, ast.ClassDef):
            fs = {fd.name: fd for fd in c.body if isinstance(fd, ast.FunctionDef)}
            if "tolookup" in fs and "form_fill" in fs:
                a, b = _extract(fs["tolookup"]), _extract(fs["form_fill"])
                r.check(a == b, "%s:tolookup~form_fill" % c.name, m.where(fs["form_fill"]), "%s.tolookup extracts %s but form_fill (the path taken when a VirtualArray materialises) extracts %s: the compiled code steps through the buffer by itemsize in both cases" % (
                    c.name, sorted(a), sorted(b)), detail="same buffer extraction")
    return r.done()


def _walk_own(cls):
    """nodes of a class body without the bodies of classes nested in it (their `self` is another object)"""
    stack = [n for n in cls.body if not isinstance(n, ast.ClassDef)]
    while stack:
        n = stack.pop()
        yield n
        for ch in ast.iter_child_nodes(n):
            if isinstance(ch, ast.ClassDef):
                continue
            stack.append(ch)


def rule_py_self_attrs(rep, floor=500):
    r = rep.rule("ATTR.py-self-defined", "(a) every attribute a method reads on `self` is defined somewhere in the class's family inside the package - assigned on self/cls, defined as a method, property or class attribute in the class, an ancestor or a descendant "
                 "(tabled: names supplied by a base class outside the package); (b) every attribute read or written on a variable named `lookup` in the Numba connector is one the class Lookup defines", floor=floor)
    table = load_table("py_selfattr_exceptions.json")
    mods = [x for x in pf.all_modules() if "generated_parser" not in x]
    classes = {}
    for rel in mods:
        for c in ast.walk(pf.module(rel).tree):
            if isinstance(c, ast.ClassDef):
                classes.setdefault(c.name, []).append((rel, c))

    def own(c):
        out = set()
        for n in c.body:
            if isinstance(n, (ast.FunctionDef, ast.ClassDef)):
                out.add(n.name)
            if isinstance(n, (ast.Assign, ast.AnnAssign)):
                for t_ in (n.targets if isinstance(n, ast.Assign) else [n.target]):
                    for x in ast.walk(t_):
                        if isinstance(x, ast.Name):
                            out.add(x.id)
        for n in _walk_own(c):
            if isinstance(n, ast.Attribute) and isinstance(n.ctx, ast.Store) and isinstance(n.value, ast.Name) and n.value.id in ("self", "cls", "out"):
                out.add(n.attr)
        return out

    def ancestors(c, seen):
        out = set()
        for b in c.bases:
            bn = ast.unparse(b).split(".")[-1]
            if bn in classes and bn not in seen:
                for _, bc in classes[bn]:
                    out |= own(bc) | ancestors(bc, seen | {bn})
        return out

    def descendants(name, seen):
        out = set()
        for nm, lst in classes.items():
            for _, c in lst:
                if nm not in seen and any(ast.unparse(b).split(".")[-1] == name for b in c.bases):
                    out |= own(c) | descendants(nm, seen | {nm})
        return out
    for rel in mods:
        m = pf.module(rel)
        for c in ast.walk(m.tree):
            if not isinstance(c, ast.ClassDef):
                continue
            d = own(c) | ancestors(c, {c.name}) | descendants(c.name, {c.name})
            seen = set()
            for n in _walk_own(c):
                if isinstance(n, ast.Attribute) and isinstance(n.ctx, ast.Load) and isinstance(n.value, ast.Name) and n.value.id == "self" and not n.attr.startswith("__") and n.attr not in seen:
                    seen.add(n.attr)
                    key = "%s:%s.%s" % (rel, c.name, n.attr)
                    if n.attr not in d and key in table:
                        r.excepted(key, table[key])
                        r.ok(key)
                        continue
                    r.check(n.attr in d, key, m.where(n), "%s (%s) reads self.%s, which no class of its family in the package defines: AttributeError when this line runs" % (c.name, rel, n.attr), detail="defined in the class family")
    # (b)
    lk = [c for rel, c in classes.get("Lookup", []) if rel.startswith("_connect/_numba")]
    if not lk:
        raise AnalysisError("class Lookup not found in _connect/_numba")
    ld = own(lk[0])
    for rel in [x for x in mods if x.startswith("_connect/_numba")]:
        m = pf.module(rel)
        seen = set()
        for n in ast.walk(m.tree):
            if isinstance(n, ast.Attribute) and isinstance(n.value, ast.Name) and n.value.id == "lookup" and (rel, n.attr) not in seen:
                seen.add((rel, n.attr))
                r.check(n.attr in ld, "%s:lookup.%s" % (rel, n.attr), m.where(n), "%s uses lookup.%s, but the class Lookup defines no such attribute (it has %s)" % (rel, n.attr, sorted(x for x in ld if not x.startswith("_"))[:8]), detail="defined by Lookup")
    return r.done()


def rule_py_behaviorof_args(rep, floor=60):
    r = rep.rule("FORWARD.py-behaviorof", "ak._util.behaviorof(...) is given the caller's own arguments, never a local that was assigned from to_layout(...): behaviorof only looks at high-level ak.Array / ak.Record / ArrayBuilder objects, "
                 "so on layouts it always answers None and the behavior of the inputs is silently dropped from the result", floor=floor)
    for rel in [x for x in pf.all_modules() if "generated_parser" not in x]:
        m = pf.module(rel)
        for fd in [n for n in ast.walk(m.tree) if isinstance(n, ast.FunctionDef)]:
            params = {a.arg for a in fd.args.args + fd.args.kwonlyargs} | ({fd.args.vararg.arg} if fd.args.vararg else set())
            layouts = {}
            for s_ in ast.walk(fd):
                if isinstance(s_, ast.Assign):
                    v = s_.value
                    is_tl = any(isinstance(c, ast.Call) and (pf.dotted(c.func) or "").endswith("to_layout") for c in ast.walk(v))
                    if is_tl:
                        for t in s_.targets:
                            for n in ast.walk(t):
                                if isinstance(n, ast.Name):
                                    layouts.setdefault(n.id, s_.lineno)
            k = 0
            for c in ast.walk(fd):
                if isinstance(c, ast.Call) and (pf.dotted(c.func) or "").endswith("behaviorof"):
                    k += 1
                    names = [a for a in c.args if isinstance(a, ast.Name)] + [a.value for a in c.args if isinstance(a, ast.Starred) and isinstance(a.value, ast.Name)]
                    bad = [a.id for a in names if a.id in layouts and layouts[a.id] < c.lineno and not (a.id in params and layouts[a.id] > c.lineno)]
                    # a parameter rebound to its own layout (array = to_layout(array)) before the call is a layout too
                    r.check(not bad, "%s:%s#behaviorof%d" % (rel, fd.name, k), m.where(c), "%s in %s calls `%s` on %s, which %s assigned from to_layout(...): the answer is always None" % (
                        fd.name, rel, ast.unparse(c)[:60], bad, "were" if len(bad) > 1 else "was"), detail="called on the original arguments")
    return r.done()


def rule_py_simplify_recheck(rep, floor=5):
    r = rep.rule("FAMILY.py-simplify-recheck", "after `v = v.simplify()` the Python layer tests the class of v again before using class-specific attributes: simplify() of a Byte/BitMasked/Union array may hand back a node of another class "
                 "(IndexedOptionArray64, a merged content), which has neither .mask nor .tags", floor=floor)
    for rel in [x for x in pf.all_modules() if "generated_parser" not in x]:
        m = pf.module(rel)
        k = 0
        for n in ast.walk(m.tree):
            for fld in ("body", "orelse"):
                b = getattr(n, fld, None)
                if not (isinstance(b, list) and b and isinstance(b[0], ast.stmt)):
                    continue
                for i, st in enumerate(b):
                    if not (isinstance(st, ast.Assign) and len(st.targets) == 1 and isinstance(st.targets[0], ast.Name) and isinstance(st.value, ast.Call) and isinstance(st.value.func, ast.Attribute)
                            and st.value.func.attr == "simplify" and not st.value.args and not st.value.keywords and isinstance(st.value.func.value, ast.Name) and st.value.func.value.id == st.targets[0].id):
                        continue
                    v = st.targets[0].id
                    k += 1
                    nxt = b[i + 1] if i + 1 < len(b) else None
                    if nxt is None:
                        # last statement of an arm: the re-test follows the enclosing if
                        par = getattr(n, "_parent", None)
                        sib = getattr(par, "body", None) if par is not None else None
                        if isinstance(sib, list) and n in sib and sib.index(n) + 1 < len(sib):
                            nxt = sib[sib.index(n) + 1]
                    ok = isinstance(nxt, ast.If) and ("isinstance(%s," % v) in ast.unparse(nxt.test)
                    ok = ok or isinstance(nxt, ast.Return)
                    r.check(ok, "%s:%s#simplify%d" % (rel, getattr(_owner_func(st), "name", "<module>"), k), m.where(st), "in %s `%s` is not followed by a test of isinstance(%s, ...): the code below uses attributes of the class %s had before simplify()" % (
                        rel, ast.unparse(st), v, v), detail="class re-tested")
    return r.done()


def rule_py_numpy_rebuild(rep, floor=4):
    r = rep.rule("META.py-numpy-rebuild", "a recursively_apply callback that replaces a NumpyArray leaf (an `ak.layout.NumpyArray(...)` built under `isinstance(layout, ak.layout.NumpyArray)`) passes identities and parameters explicitly "
                 "(layout.parameters, or a deliberate None): a leaf rebuilt from the buffer alone loses __array__='char', which makes every string in the array invalid", floor=floor)
    for rel in [x for x in pf.all_modules() if "generated_parser" not in x and not x.startswith("_connect/_jax")]:   # the experimental JAX connector only handles numeric leaves
        m = pf.module(rel)
        k = 0
        for c in ast.walk(m.tree):
            if isinstance(c, ast.Call) and (pf.dotted(c.func) or "") == "ak.layout.NumpyArray":
                under = [t for t, inb in pf.enclosing_tests(c) if inb and "isinstance(layout, ak.layout.NumpyArray)" in ast.unparse(t)]
                if not under:
                    continue
                k += 1
                ok = len(c.args) >= 3 or any(kw.arg == "parameters" for kw in c.keywords)
                r.check(ok, "%s:%s#rebuild%d" % (rel, getattr(_owner_func(c), "name", "<module>"), k), m.where(c), "%s rebuilds a NumpyArray leaf as `%s` without identities/parameters" % (rel, ast.unparse(c)[:70]), detail="identities and parameters given")
    return r.done()


def rule_py_union_content_index(rep, floor=1):
    r = rep.rule("INDEX.py-union-content", "inside `for tag, content in enumerate(u.contents)` a per-content array (content.bytemask(), a conversion of content) that is scattered into the union's slots `B[tags == tag] = ...` "
                 "is first taken through the union's index (`...[index[tags == tag]]`): slot i of the union refers to content[index[i]], not to the i-th item of the content", floor=floor)
    for rel in [x for x in pf.all_modules() if "generated_parser" not in x]:
        m = pf.module(rel)
        k = 0
        for lp in ast.walk(m.tree):
            if not (isinstance(lp, ast.For) and isinstance(lp.iter, ast.Call) and isinstance(lp.iter.func, ast.Name) and lp.iter.func.id == "enumerate" and lp.iter.args
                    and isinstance(lp.iter.args[0], ast.Attribute) and lp.iter.args[0].attr == "contents" and isinstance(lp.target, ast.Tuple) and len(lp.target.elts) == 2
                    and all(isinstance(e, ast.Name) for e in lp.target.elts)):
                continue
            T, C = lp.target.elts[0].id, lp.target.elts[1].id
            sels = {a_.targets[0].id for a_ in ast.walk(lp) if isinstance(a_, ast.Assign) and len(a_.targets) == 1 and isinstance(a_.targets[0], ast.Name) and isinstance(a_.value, ast.Compare)
                    and T in {n.id for n in ast.walk(a_.value) if isinstance(n, ast.Name)}}
            for a_ in ast.walk(lp):
                if not (isinstance(a_, ast.Assign) and len(a_.targets) == 1 and isinstance(a_.targets[0], ast.Subscript)):
                    continue
                sl = a_.targets[0].slice
                is_sel = (isinstance(sl, ast.Compare) and T in {n.id for n in ast.walk(sl) if isinstance(n, ast.Name)}) or (isinstance(sl, ast.Name) and sl.id in sels)
                if not is_sel or C not in {n.id for n in ast.walk(a_.value) if isinstance(n, ast.Name)}:
                    continue
                k += 1
                via = any(isinstance(s_, ast.Subscript) and "index" in {n.id for n in ast.walk(s_.slice) if isinstance(n, ast.Name)} for s_ in ast.walk(a_.value))
                r.check(via, "%s:%s#scatter%d" % (rel, getattr(_owner_func(lp), "name", "<module>"), k), m.where(a_), "in %s `%s` scatters a per-content array into the slots of tag %s by position: the slots refer to the content through the union's index" % (
                    rel, ast.unparse(a_)[:70], T), detail="taken through index[...]")
    return r.done()


def rule_py_regular_length(rep, floor=20):
    r = rep.rule("ROLE.py-regular-length", "the third argument of ak.layout.RegularArray(content, size, zeros_length) in the Python layer is the number of lists of the node being built: when it is a local variable, that variable is not computed from the "
                 "lengths of contents (`.content`, the `nextinputs` handed to the next level) - for size 0 the C++ constructor takes it as the array's length", floor=floor)
    for rel in [x for x in pf.all_modules() if "generated_parser" not in x]:
        m = pf.module(rel)
        k = 0
        for c in ast.walk(m.tree):
            if not (isinstance(c, ast.Call) and (pf.dotted(c.func) or "") == "ak.layout.RegularArray" and len(c.args) >= 3):
                continue
            k += 1
            a = c.args[2]
            bad = None
            if isinstance(a, ast.Name):
                fd = _owner_func(c)
                while fd is not None and not isinstance(fd, ast.FunctionDef):
                    fd = _owner_func(fd)
                defs = [s_.value for s_ in ast.walk(fd) if isinstance(s_, ast.Assign) and any(isinstance(t, ast.Name) and t.id == a.id for t in s_.targets)] if fd is not None else []
                for d_ in defs:
                    txt = ast.unparse(d_)
                    if "nextinputs" in txt or ".content" in txt:
                        bad = txt
            r.check(bad is None, "%s:%s#regular%d" % (rel, getattr(_owner_func(c), "name", "<module>"), k), m.where(c), "%s builds `%s` with zeros_length %s = `%s`: that measures the flattened contents, not the number of lists" % (
                rel, ast.unparse(c)[:60], ast.unparse(a), (bad or "")[:70]), detail="outer length")
    return r.done()


def rule_py_index_extent(rep, floor=4):
    r = rep.rule("BOUND.py-index-extent", "in the converters (operations/convert.py) the extent of content needed by a selection of index values V (`V = index[tags == i]`, `V = array_index[...]`) is max(V) + 1: "
                 "an expression that sizes or slices the content with `len(V)` or `V[-1]` is accepted only in a comparison, in an arm that first projects the content through V (`content = content[V]`), or, for V[-1], under a test of the sparse mode (where the index is arange and therefore increasing) - "
                 "index values of a sliced, repeated or reordered union are not 0..n-1", floor=floor)
    m = pf.module("operations/convert.py")
    for q, fd in sorted(m.funcs.items()):
        if "." in q and q.split(".")[0] in m.funcs and False:
            continue
        sel = {}
        for s_ in ast.walk(fd):
            if isinstance(s_, ast.Assign) and len(s_.targets) == 1 and isinstance(s_.targets[0], ast.Name) and _owner_func(s_) is fd:
                v = s_.value
                if isinstance(v, ast.Subscript) and isinstance(v.value, ast.Name) and "index" in v.value.id and not isinstance(v.slice, (ast.Slice, ast.Constant)):
                    sel[s_.targets[0].id] = s_
        if not sel:
            continue
        k = 0
        for V in sorted(sel):
            for n in ast.walk(fd):
                bad = None
                if isinstance(n, ast.Call) and isinstance(n.func, ast.Name) and n.func.id == "len" and n.args and isinstance(n.args[0], ast.Name) and n.args[0].id == V:
                    bad = "len(%s)" % V
                elif isinstance(n, ast.Subscript) and isinstance(n.value, ast.Name) and n.value.id == V and isinstance(n.slice, ast.UnaryOp) and isinstance(n.slice.op, ast.USub):
                    bad = "%s[-1]" % V
                if bad is None or _owner_func(n) is not fd:
                    continue
                par = getattr(n, "_parent", None)
                if isinstance(par, ast.Compare):
                    continue    # `len(V) == 0`: an emptiness test, not an extent
                k += 1
                ok = False
                # the content is projected through V in the same arm (`content = content[V]`): afterwards its length IS len(V)
                for p_ in pf.parent_chain(n):
                    for fld in ("body", "orelse"):
                        b_ = getattr(p_, fld, None)
                        if isinstance(b_, list) and any(n is x for st in b_ for x in ast.walk(st)):
                            if any(isinstance(a_, ast.Assign) and isinstance(a_.value, ast.Subscript) and isinstance(a_.value.slice, ast.Name) and a_.value.slice.id == V for st in b_ for a_ in ast.walk(st)):
                                ok = True
                    if isinstance(p_, (ast.FunctionDef, ast.For)):
                        break
                if bad.endswith("[-1]"):
                    ok = ok or any("sparse" in ast.unparse(t) and inb for t, inb in pf.enclosing_tests(n))
                r.check(ok, "%s:%s#%d" % (q, bad, k), m.where(n), "%s sizes content with `%s`, where %s = `%s` is a selection of index values: the content must reach max(%s) + 1" % (q, bad, V, ast.unparse(sel[V].value)[:40], V), detail="max + 1, or increasing by construction")
            k += 1
            uses_max = any(isinstance(n, ast.Call) and ((isinstance(n.func, ast.Attribute) and n.func.attr in ("max", "unique")) or (isinstance(n.func, ast.Name) and n.func.id == "max")) and V in {x.id for x in ast.walk(n) if isinstance(x, ast.Name)} for n in ast.walk(fd))
            r.check(uses_max, "%s:%s:max" % (q, V), m.where(sel[V]), "%s selects index values `%s = %s` but never takes their maximum: nothing bounds the content by max(%s) + 1" % (q, V, ast.unparse(sel[V].value)[:40], V), detail="max(V) taken")
    return r.done()


def rule_py_byte_lengths(rep, floor=2):
    r = rep.rule("UNIT.py-byte-lengths", "where the Python layer builds a ListArray over a byte buffer (`ListArray64(starts, stops, NumpyArray(B.view('u1')))` with `stops = starts + <lengths of X>`), "
                 "the lengths are measured on the stored buffer itself (X is B): starts are byte offsets into B, so lengths taken from the un-encoded text (characters, not UTF-8 bytes) cut every non-ASCII string short", floor=floor)
    for rel in [x for x in pf.all_modules() if "generated_parser" not in x]:
        m = pf.module(rel)
        k = 0
        for c in ast.walk(m.tree):
            if not (isinstance(c, ast.Call) and (pf.dotted(c.func) or "").startswith("ak.layout.ListArray") and len(c.args) >= 3):
                continue
            views = [x for x in ast.walk(c.args[2]) if isinstance(x, ast.Call) and isinstance(x.func, ast.Attribute) and x.func.attr == "view" and isinstance(x.func.value, ast.Name)]
            stops = [x.id for x in ast.walk(c.args[1]) if isinstance(x, ast.Name) and x.id not in ("ak", "np", "numpy")]
            if not views or not stops:
                continue
            B = views[0].func.value.id
            fd = _owner_func(c)
            # the reaching definition of stops: the last assignment before the constructor
            defs = [s_ for s_ in ast.walk(fd) if isinstance(s_, ast.Assign) and any(isinstance(t, ast.Name) and t.id == stops[-1] for t in s_.targets) and s_.lineno < c.lineno]
            if not defs:
                continue
            d = max(defs, key=lambda s_: s_.lineno).value
            if not isinstance(d, ast.BinOp):
                continue
            measured = [x.args[0].id for x in ast.walk(d) if isinstance(x, ast.Call) and x.args and isinstance(x.args[0], ast.Name) and isinstance(x.func, ast.Attribute) and x.func.attr in ("str_len", "len")]
            k += 1
            r.check(measured == [B] or not measured, "%s:%s#listarray%d" % (rel, getattr(fd, "name", "<module>"), k), m.where(c), "%s stores the bytes of `%s` but measures the item lengths on `%s`: offsets and lengths are in different units" % (rel, B, measured), detail="lengths of the stored buffer")
    return r.done()


def rule_py_offset_units(rep, floor=2):
    r = rep.rule("UNIT.py-offset-accumulator", "a running offset that is added to a position found inside a buffer T (`best = start + out`, out = argmin/argmax/searchsorted(T, ...)) advances by len(T), the buffer the position was found in: "
                 "advancing by the length of something else (the partition's number of lists instead of its flattened buffer) shifts every later position", floor=floor)
    for rel in [x for x in pf.all_modules() if "generated_parser" not in x]:
        m = pf.module(rel)
        for fd in ast.walk(m.tree):
            if not isinstance(fd, ast.FunctionDef):
                continue
            found = {}    # out var -> buffer name
            for s_ in ast.walk(fd):
                if isinstance(s_, ast.Assign) and len(s_.targets) == 1 and isinstance(s_.targets[0], ast.Name) and isinstance(s_.value, ast.Call) and isinstance(s_.value.func, ast.Attribute) \
                        and s_.value.func.attr in ("argmin", "argmax", "searchsorted", "nonzero", "argsort") and s_.value.args and isinstance(s_.value.args[0], ast.Name):
                    found[s_.targets[0].id] = s_.value.args[0].id
            if not found:
                continue
            k = 0
            for b in ast.walk(fd):
                if not (isinstance(b, ast.BinOp) and isinstance(b.op, ast.Add)):
                    continue
                sides = [b.left, b.right]
                outs = [x for x in sides if isinstance(x, ast.Name) and x.id in found]
                accs = [x for x in sides if x not in outs]
                if len(outs) != 1 or len(accs) != 1:
                    continue
                acc = ast.unparse(accs[0])
                T = found[outs[0].id]
                # the loop that binds T
                loop = next((p_ for p_ in pf.parent_chain(b) if isinstance(p_, ast.For) and T in {x.id for x in ast.walk(p_.target) if isinstance(x, ast.Name)}), None)
                if loop is None:
                    continue
                outer = next((p_ for p_ in pf.parent_chain(loop) if isinstance(p_, ast.For)), loop)
                for a_ in ast.walk(outer):
                    if isinstance(a_, ast.AugAssign) and isinstance(a_.op, ast.Add) and ast.unparse(a_.target) == acc:
                        k += 1
                        inc = ast.unparse(a_.value)
                        r.check(inc == "len(%s)" % T, "%s:%s:%s#%d" % (rel, fd.name, acc, k), m.where(a_), "%s in %s adds %s to a position found in %s but advances it by `%s`, not len(%s)" % (fd.name, rel, acc, T, inc, T), detail="advances by len(%s)" % T)
                        # ... and on every iteration of the loop that binds T, not only under a condition on the data
                        chain = []
                        for p_ in pf.parent_chain(a_):
                            if p_ is loop:
                                break
                            chain.append(p_)
                        cond = [p_ for p_ in chain if isinstance(p_, (ast.If, ast.Try, ast.While))]
                        r.check(not cond, "%s:%s:%s#%d:every-iteration" % (rel, fd.name, acc, k), m.where(a_), "%s in %s advances the running offset %s only under a condition (line %d): when the condition fails, every later position is short by len(%s)" % (
                            fd.name, rel, acc, cond[0].lineno if cond else 0, T), detail="advanced on every iteration")
    return r.done()


def rule_py_numfields_sentinel(rep, floor=3):
    r = rep.rule("SENTINEL.py-numfields", "`numfields` is -1 for a layout that contains no record and 0 for a record array without fields: a comparison of `.numfields` with a constant keeps the two apart "
                 "(`< 0`, `>= 0`, `== -1`, `== 0`, `!= 0`, or a positive count) and never merges them (`<= 0`, `> 0`, `< 1`, `>= 1`)", floor=floor)
    for rel in [x for x in pf.all_modules() if "generated_parser" not in x]:
        m = pf.module(rel)
        k = 0
        for c in ast.walk(m.tree):
            if isinstance(c, ast.Compare) and len(c.ops) == 1 and isinstance(c.left, ast.Attribute) and c.left.attr == "numfields" and isinstance(c.comparators[0], (ast.Constant, ast.UnaryOp)):
                try:
                    v = ast.literal_eval(c.comparators[0])
                except Exception:
                    continue
                k += 1
                op = type(c.ops[0]).__name__
                merges = (op, v) in (("LtE", 0), ("Gt", 0), ("Lt", 1), ("GtE", 1), ("LtE", -1) if False else ("Gt", -2))
                r.check(not merges, "%s:%s#%d" % (rel, getattr(_owner_func(c), "name", "<module>"), k), m.where(c), "%s tests `%s`: this puts record arrays without fields (numfields == 0) together with layouts that hold no record at all (numfields == -1)" % (rel, ast.unparse(c)), detail="sentinel kept apart")
    return r.done()


def rule_py_first_only_check(rep, floor=3):
    r = rep.rule("ORDER.py-first-only-check", "in a loop that folds its items into an accumulator initialised to None (`if acc is None: acc = f(x) ... else: compare x with acc`), a test that rejects an item on the item's own properties "
                 "(a conditional return/raise whose condition does not mention acc) is not placed inside the `acc is None` arm: there it only applies to whichever item happens to come first, and the answer depends on argument order", floor=floor)
    table = load_table("py_firstonly_exceptions.json")
    for rel in [x for x in pf.all_modules() if "generated_parser" not in x]:
        m = pf.module(rel)
        k = 0
        for lp in ast.walk(m.tree):
            if not isinstance(lp, ast.For):
                continue
            for n in ast.walk(lp):
                if not (isinstance(n, ast.If) and isinstance(n.test, ast.Compare) and len(n.test.ops) == 1 and isinstance(n.test.ops[0], ast.Is) and isinstance(n.test.left, ast.Name)
                        and isinstance(n.test.comparators[0], ast.Constant) and n.test.comparators[0].value is None):
                    continue
                acc = n.test.left.id
                sets = any(isinstance(a_, ast.Assign) and any(isinstance(t, ast.Name) and t.id == acc for t in a_.targets) for st in n.body for a_ in ast.walk(st))
                if not sets or not n.orelse:
                    continue
                k += 1
                bad = None
                for st in n.body:
                    for c in ast.walk(st):
                        if isinstance(c, ast.If) and any(isinstance(x, (ast.Return, ast.Raise)) for b_ in c.body for x in ast.walk(b_)) and acc not in {x.id for x in ast.walk(c.test) if isinstance(x, ast.Name)}:
                            bad = c
                tk = "%s:%s:%s" % (rel, getattr(_owner_func(lp), "name", "<module>"), acc)
                if bad is not None and tk in table:
                    r.excepted(tk, table[tk])
                    r.ok(tk)
                    continue
                r.check(bad is None, "%s:%s:%s#%d" % (rel, getattr(_owner_func(lp), "name", "<module>"), acc, k), m.where(bad or n), "%s: inside `if %s is None:` the test `%s` rejects an item on its own properties, so it is applied to the first item only" % (
                    rel, acc, ast.unparse(bad.test)[:70] if bad else ""), detail="item checks outside the first-item arm")
    return r.done()


def rule_py_arm_store(rep, floor=150):
    r = rep.rule("DEAD.py-arm-store", "(a) when every arm of an if/elif/else chain assigns the same local and nothing after the chain (nor the next iteration of an enclosing loop) reads it, each arm reads it itself: "
                 "an arm that only stores it computed a value that the code meant to use after the chain (the shared follow-up ended up indented into the last arm); "
                 "(b) a function that declares *args or **kwargs uses them", floor=floor)
    for rel in [x for x in pf.all_modules() if "generated_parser" not in x]:
        m = pf.module(rel)
        done = set()
        for fd in [n for n in ast.walk(m.tree) if isinstance(n, ast.FunctionDef)]:
            for v_ in (fd.args.vararg, fd.args.kwarg):
                if v_ is None:
                    continue
                used = any(isinstance(n, ast.Name) and n.id == v_.arg and isinstance(n.ctx, ast.Load) for n in ast.walk(fd))
                trivial = len(fd.body) <= 2 and any(isinstance(s_, (ast.Raise, ast.Pass)) for s_ in fd.body)
                r.check(used or trivial, "%s:%s:%s" % (rel, fd.name, v_.arg), m.where(fd), "%s in %s accepts %s%s and never looks at it: whatever the caller passes there is silently dropped" % (
                    fd.name, rel, "*" if v_ is fd.args.vararg else "**", v_.arg), detail="used")
            for first, tests, has_else, _ in _chains(fd):
                if id(first) in done or not has_else:
                    continue
                done.add(id(first))
                arms, cur = [], first
                while True:
                    arms.append(cur.body)
                    if len(cur.orelse) == 1 and isinstance(cur.orelse[0], ast.If):
                        cur = cur.orelse[0]
                    else:
                        arms.append(cur.orelse)
                        break
                common = set.intersection(*[{t.id for s_ in a for t in (s_.targets if isinstance(s_, ast.Assign) else []) if isinstance(t, ast.Name)} for a in arms])
                inside = {id(x) for a in arms for s_ in a for x in ast.walk(s_)}
                endline = max(getattr(x, "end_lineno", 0) or 0 for a in arms for s_ in a for x in ast.walk(s_))
                for v in sorted(common):
                    later = [x for x in ast.walk(fd) if isinstance(x, ast.Name) and x.id == v and isinstance(x.ctx, ast.Load) and id(x) not in inside and x.lineno > endline]
                    loops = [p_ for p_ in pf.parent_chain(first) if isinstance(p_, (ast.For, ast.While))]
                    around = [x for lp in loops[:1] for x in ast.walk(lp) if isinstance(x, ast.Name) and x.id == v and isinstance(x.ctx, ast.Load) and id(x) not in inside]
                    key = "%s:%s:%s@chain%d" % (rel, fd.name, v, len(done))
                    if later or around:
                        r.ok(key, "read after the chain")
                        continue
                    silent = [i for i, a in enumerate(arms) if not any(isinstance(x, ast.Name) and x.id == v and isinstance(x.ctx, ast.Load) for s_ in a for x in ast.walk(s_))]
                    r.check(not silent or len(silent) == len(arms), key, m.where(first), "%s in %s: every arm of the chain assigns `%s`, nothing after the chain reads it, and arm(s) %s never read it either - the code that consumes %s sits inside only some of the arms" % (
                        fd.name, rel, v, silent, v), detail="consumed in every arm or after the chain")
    return r.done()


def rule_py_list_content(rep, floor=15):
    r = rep.rule("TRIM.py-list-content", "in an arm that has established that X is a list array (isinstance(X, listtypes / ListArray* / ListOffsetArray*)), `X.content` is used whole only when the same arm also uses X's own "
                 "offsets / starts / stops (a rebuild around the same boundaries) or the result is only inspected for its type; an arm that computes values from X.content alone sees items no list points to "
                 "(before offsets[0], after offsets[-1], in the gaps of a ListArray)", floor=floor)
    table = load_table("py_listcontent_exceptions.json")
    bound = ("offsets", "starts", "stops", "compact_offsets64", "toListOffsetArray64", "broadcast_tooffsets64", "flatten", "offsets_and_flattened", "toRegularArray", "size")
    for rel in [x for x in pf.all_modules() if "generated_parser" not in x and not x.startswith("_connect/_numba")]:
        m = pf.module(rel)
        k = 0
        for n in ast.walk(m.tree):
            if not (isinstance(n, ast.Attribute) and n.attr == "content" and isinstance(n.ctx, ast.Load) and isinstance(n.value, ast.Name)):
                continue
            v = n.value.id
            arm = None
            for p_ in pf.parent_chain(n):
                if isinstance(p_, ast.If) and any(n is x for b_ in p_.body for x in ast.walk(b_)):
                    t = ast.unparse(p_.test)
                    if ("isinstance(%s," % v) in t and ("listtypes" in t or "ListOffsetArray" in t or "ListArray" in t) and "RegularArray)" not in t.replace("ak.layout.RegularArray, ", ""):
                        arm = p_
                        break
            if arm is None:
                continue
            par = getattr(n, "_parent", None)
            if isinstance(par, ast.Subscript) and par.value is n and isinstance(par.slice, ast.Slice):
                continue    # trimmed
            if isinstance(par, ast.Call) and (pf.dotted(par.func) or "").endswith((".type", "describe.type", "isinstance")):
                continue    # only its type is looked at
            k += 1
            fn = getattr(_owner_func(n), "name", "<module>")
            key = "%s:%s:%s" % (rel, fn, v)
            uses_bounds = any(isinstance(x, ast.Attribute) and x.attr in bound and isinstance(x.value, ast.Name) and x.value.id == v for b_ in arm.body for x in ast.walk(b_))
            if not uses_bounds and key in table:
                r.excepted(key, table[key])
                r.ok(key)
                continue
            r.check(uses_bounds, "%s#%d" % (key, k), m.where(n), "%s in %s uses `%s.content` whole in an arm that never looks at %s's offsets/starts/stops: content that no list of %s points to becomes part of the result" % (fn, rel, v, v, v), detail="boundaries used in the same arm")
    return r.done()


def rule_py_array_outermost(rep, floor=1):
    r = rep.rule("TYPEPARSE.array-outermost", "in the type parser (toast) the content of an ak.types.ArrayType is parsed with high_level=False: only the outermost dimension of a high-level type is an ArrayType, "
                 "an ArrayType nested in an ArrayType prints the same but is a different, unequal type", floor=floor)
    m = pf.module("_typeparser/parser.py")
    fd = m.funcs.get("toast")
    if fd is None:
        raise AnalysisError("_typeparser/parser.py: toast not found")
    k = 0
    for c in ast.walk(fd):
        if isinstance(c, ast.Call) and (pf.dotted(c.func) or "").endswith("ArrayType") and c.args:
            for t in ast.walk(c.args[0]):
                if isinstance(t, ast.Call) and isinstance(t.func, ast.Name) and t.func.id == "toast" and len(t.args) >= 2:
                    k += 1
                    hl = t.args[1]
                    r.check(isinstance(hl, ast.Constant) and hl.value is False, "toast:ArrayType#%d" % k, m.where(t), "toast builds an ArrayType around `%s`: the content is parsed with high_level=%s, so inner dimensions become ArrayTypes too" % (ast.unparse(t)[:50], ast.unparse(hl)), detail="content parsed low-level")
    return r.done()


def rule_py_bytes_str_arms(rep, floor=4):
    r = rep.rule("FAMILY.py-bytes-str", "where the Python layer converts string-like data by kind, the 'byte' / 'bytestring' arms produce bytes (`.__bytes__()`) and the 'char' / 'string' arms produce str (`.__str__()`): "
                 "the crossed call yields the repr text \"b'...'\" as a str, or fails on undecodable bytes", floor=floor)
    want = {"byte": "__bytes__", "bytestring": "__bytes__", "char": "__str__", "string": "__str__"}
    for rel in [x for x in pf.all_modules() if "generated_parser" not in x]:
        m = pf.module(rel)
        k = 0
        for c in ast.walk(m.tree):
            if not (isinstance(c, ast.Call) and isinstance(c.func, ast.Attribute) and c.func.attr in ("__bytes__", "__str__") and not c.args):
                continue
            kinds = []
            for t, inb in pf.enclosing_tests(c)[:1]:
                if not inb:
                    continue
                for x in ast.walk(t):
                    if isinstance(x, ast.Compare) and len(x.ops) == 1 and isinstance(x.ops[0], ast.Eq) and isinstance(x.comparators[0], ast.Constant) and x.comparators[0].value in want and "__array__" in ast.unparse(x.left):
                        kinds.append(x.comparators[0].value)
            if len(set(want[kd] for kd in kinds)) != 1:
                continue
            k += 1
            r.check(c.func.attr == want[kinds[0]], "%s:%s#%s%d" % (rel, getattr(_owner_func(c), "name", "<module>"), kinds[0], k), m.where(c), "%s: under `__array__ == %r` the value is converted with %s(); %s data must go through %s()" % (
                rel, kinds[0], c.func.attr, kinds[0], want[kinds[0]]), detail=want[kinds[0]])
    return r.done()


def rule_py_merge_batch(rep, floor=2):
    r = rep.rule("FAMILY.py-merge-batch", "where the Python layer gathers arrays into a `batch` that is later merged in one call (`batch[0].mergemany(batch[1:])`), an array joins the batch only after `mergeable` was asked of "
                 "every member (`all(b.mergeable(x, ..) for b in batch)`), not of the last one alone: mergeable is not transitive - an EmptyArray or unknown-type content is mergeable with everything - and mergemany does not "
                 "re-check (strings and int64 lists were copied byte-wise into one buffer)", floor=floor)
    for rel in [x for x in pf.all_modules() if "generated_parser" not in x]:
        m = pf.module(rel)
        for fn in ast.walk(m.tree):
            if not isinstance(fn, (ast.FunctionDef, ast.AsyncFunctionDef)):
                continue
            merges = [c for c in ast.walk(fn) if isinstance(c, ast.Call) and isinstance(c.func, ast.Attribute) and c.func.attr == "mergemany" and isinstance(c.func.value, ast.Subscript) and isinstance(c.func.value.value, ast.Name)]
            for bname in sorted(set(c.func.value.value.id for c in merges)):
                k = 0
                for c in ast.walk(fn):
                    if not (isinstance(c, ast.Call) and isinstance(c.func, ast.Attribute) and c.func.attr == "mergeable"):
                        continue
                    recv = c.func.value
                    last_only = isinstance(recv, ast.Subscript) and isinstance(recv.value, ast.Name) and recv.value.id == bname
                    over_all = False
                    if isinstance(recv, ast.Name):
                        # `b.mergeable(x)` inside all(... for b in <batch>)
                        for g in ast.walk(fn):
                            if isinstance(g, ast.Call) and isinstance(g.func, ast.Name) and g.func.id == "all" and g.args and isinstance(g.args[0], ast.GeneratorExp) and any(x is c for x in ast.walk(g.args[0])):
                                gen = g.args[0]
                                over_all = any(isinstance(cp.iter, ast.Name) and cp.iter.id == bname and isinstance(cp.target, ast.Name) and cp.target.id == recv.id for cp in gen.generators)
                    if not (last_only or over_all):
                        continue
                    k += 1
                    r.check(over_all, "%s:%s#%s%d" % (rel, fn.name, bname, k), m.where(c), "%s: %s asks `%s` whether the next array may join `%s`: only one member of the batch is consulted before all are merged in one call" % (
                        rel, fn.name, ast.unparse(c)[:60], bname), detail="all members consulted")
    return r.done()
