"""C19: AwkwardForth virtual machine — guard discipline by abstract interpretation of internal_run, and opcode tables."""
import ast
import os
import re
from ..facts import find_all
from ..core import AnalysisError, REPO
from .. import cxx
from .kspec import cexpr, unparse

SRC = "src/libawkward/forth/ForthMachine.cpp"

GUARD_ERR = {"stack_cannot_pop": "stack_underflow", "stack_cannot_pop2": "stack_underflow", "stack_cannot_pop3": "stack_underflow",
             "stack_cannot_push": "stack_overflow"}
POPK = {"stack_cannot_pop": 1, "stack_cannot_pop2": 2, "stack_cannot_pop3": 3}


def macro_table():
    p = os.path.join(REPO, SRC)
    if not os.path.exists(p):
        raise AnalysisError("%s is missing" % SRC)
    src = cxx.strip_comments_strings(open(p, encoding="utf-8", errors="replace").read())
    tab = {}
    for m in re.finditer(r"^\s*#define\s+([A-Z_][A-Z_0-9]*)\s+(.+?)\s*$", src, re.M):
        name, val = m.group(1), m.group(2)
        try:
            node = ast.parse(val.replace("~", "~"), mode="eval")
            ok = all(isinstance(n, (ast.Expression, ast.BinOp, ast.UnaryOp, ast.Constant, ast.Mult, ast.Add, ast.Sub, ast.BitAnd, ast.BitOr, ast.Invert, ast.USub, ast.LShift, ast.RShift)) for n in ast.walk(node))
            if ok:
                tab[name] = eval(compile(node, "<macro>", "eval"), {"__builtins__": {}})
        except Exception:
            pass
    return tab


class St:
    __slots__ = ("avail", "room", "nz", "rec", "do", "dead")

    def __init__(self, avail=0, room=0, nz=(), rec=False, do=False, dead=False):
        self.avail, self.room, self.nz, self.rec, self.do, self.dead = avail, room, frozenset(nz), rec, do, dead

    def copy(self):
        return St(self.avail, self.room, self.nz, self.rec, self.do, self.dead)

    @staticmethod
    def join(a, b):
        if a.dead:
            return b.copy()
        if b.dead:
            return a.copy()
        return St(min(a.avail, b.avail), min(a.room, b.room), a.nz & b.nz, a.rec and b.rec, a.do and b.do)


def _is_this_call(e, names):
    return e[0] == "mcall" and e[1] in names and (e[3] == ("this",))


def _member(e, name):
    return e == ("member", ("this",), name)


class Interp:
    def __init__(self, rule, func, codes):
        self.r = rule
        self.f = func
        self.codes = codes          # int -> CODE_NAME
        self.ctx = "prologue"
        self.counter = {}
        self.ptrvars = {}           # var -> max valid index (from stack_pop2 / peek)
        self.loopvars = set()

    def key(self, kind):
        k = (self.ctx, kind)
        self.counter[k] = self.counter.get(k, 0) + 1
        return "%s:%s#%d" % (self.ctx, kind, self.counter[k])

    def need(self, cond, kind, line, what):
        self.r.check(cond, self.key(kind), "%s:%d" % (self.f["file"], line), "%s in %s" % (what, self.ctx), detail="guarded")

    # ---- expressions (effects in evaluation order)
    def expr(self, e, st, line):
        if not isinstance(e, tuple) or not e:
            return
        h = e[0]
        if h == "lambda":
            return
        if h == "mcall" and e[3] == ("this",):
            for a in e[4]:
                self.expr(a, st, line)
            n = e[1]
            if n == "stack_pop":
                self.need(st.avail >= 1, "pop", e[-1], "stack_pop() without a dominating stack_cannot_pop() check")
                st.avail = max(0, st.avail - 1)
                st.room += 1
            elif n == "stack_pop2":
                self.need(st.avail >= 2, "pop2", e[-1], "stack_pop2() without a dominating stack_cannot_pop2() check")
                st.avail = max(0, st.avail - 2)
                st.room += 2
            elif n == "stack_pop2_before_pushing1":
                self.need(st.avail >= 2, "pop2push1", e[-1], "stack_pop2_before_pushing1() without a dominating stack_cannot_pop2() check")
                st.avail = max(0, st.avail - 1)
                st.room += 1
            elif n == "stack_peek":
                self.need(st.avail >= 1, "peek", e[-1], "stack_peek() without a dominating stack_cannot_pop() check")
            elif n == "stack_push":
                self.need(st.room >= 1, "push", e[-1], "stack_push() without a dominating stack_cannot_push() check")
                st.room = max(0, st.room - 1)
                st.avail += 1
            elif n == "bytecodes_pointer_push":
                self.need(st.rec, "recursion", e[-1], "bytecodes_pointer_push() without a dominating recursion_current_depth_ == recursion_max_depth_ check")
                st.rec = False
            elif n in ("do_loop_push", "do_steploop_push"):
                self.need(st.do, "do-depth", e[-1], "%s() without a dominating do_current_depth_ == recursion_max_depth_ check" % n)
                st.do = False
            return
        if h == "idx":
            base, ix = e[1], e[2]
            self.expr(ix, st, line)
            if _member(base, "stack_buffer_"):
                c = cexpr(ix)
                if _member(c, "stack_depth_"):
                    self.need(st.room >= 1, "top-slot", line, "stack_buffer_[stack_depth_] accessed without a dominating stack_cannot_push() check")
                elif c[0] == "bin" and c[1] == "-" and _member(c[2], "stack_depth_") and c[3][0] == "const":
                    k = c[3][1]
                    self.need(st.avail >= k, "slot-%d" % k, line, "stack_buffer_[stack_depth_ - %d] accessed with only %d element(s) guaranteed" % (k, st.avail))
                elif c[0] == "var" and c[1] in self.loopvars:
                    self.r.ok(self.key("loop-slot"), "index bounded by loop condition < stack_depth_")
                else:
                    self.need(False, "slot-?", line, "stack_buffer_[%s]: index form not recognised as bounded" % unparse(c))
                return
            if base[0] == "var" and base[1] in self.ptrvars:
                c = cexpr(ix)
                self.need(c[0] == "const" and 0 <= c[1] <= self.ptrvars[base[1]], "pair-index", line, "%s[%s] outside the popped region" % (base[1], unparse(c)))
                return
            self.expr(base, st, line)
            return
        if h == "bin" and e[1] in ("/", "%"):
            self.expr(e[2], st, line)
            self.expr(e[3], st, line)
            d = cexpr(e[3])
            if d[0] == "const" and d[1] not in (0, 0.0):
                return
            if d[0] == "sizeof":
                return
            self.need(d in st.nz, "div", line, "division/modulo by '%s' without a dominating == 0 check raising division_by_zero" % unparse(d))
            return
        if h == "aug" and len(e) >= 4:
            # ++/-- inside an expression
            self.expr(e[3], st, line)
            self._depth_update(e[1], e[2], e[3], st, line)
            if not _member(e[2], "stack_depth_"):
                self.expr(e[2], st, line)
            return
        if h == "assign":
            self.expr(e[2], st, line)
            self.expr(e[1], st, line)
            return
        for x in e[1:]:
            if isinstance(x, tuple):
                if x and isinstance(x[0], str):
                    self.expr(x, st, line)
                else:
                    for y in x:
                        if isinstance(y, tuple):
                            self.expr(y, st, line)

    def _depth_update(self, op, tgt, val, st, line):
        if not _member(tgt, "stack_depth_"):
            return
        v = cexpr(val)
        if v[0] != "const":
            self.need(False, "depth-update", line, "stack_depth_ changed by a non-constant amount")
            return
        k = v[1]
        if op == "+":
            self.need(st.room >= k, "depth+%d" % k, line, "stack_depth_ += %d with only %d free slot(s) guaranteed" % (k, st.room))
            st.room = max(0, st.room - k)
            st.avail += k
        elif op == "-":
            self.need(st.avail >= k, "depth-%d" % k, line, "stack_depth_ -= %d with only %d element(s) guaranteed" % (k, st.avail))
            st.avail = max(0, st.avail - k)
            st.room += k

    # ---- statements
    def exits(self, block):
        """every path through block leaves the function / instruction (return, or sets error and returns)"""
        if not block:
            return False
        last = block[-1]
        if last[0] in ("return", "throw", "goto"):
            return True
        if last[0] == "if":
            return self.exits(last[2]) and self.exits(last[3])
        return False

    def sets_error(self, block, err):
        for s in block:
            if s[0] == "assign" and _member(s[1], "current_error_") and s[2][0] == "enum" and s[2][1].endswith("::" + err):
                return True
        return False

    def block(self, stmts, st):
        for s in stmts:
            if st.dead:
                break
            st = self.stmt(s, st)
        return st

    def stmt(self, s, st):
        h = s[0]
        line = s[-1] if isinstance(s[-1], int) else 0
        if h == "decl":
            if s[3] is not None:
                self.expr(s[3], st, line)
                init = s[3]
                if init[0] == "mcall" and init[3] == ("this",) and init[1] in ("stack_pop2", "stack_pop2_before_pushing1"):
                    self.ptrvars[s[1]] = 1
                elif init[0] == "mcall" and init[3] == ("this",) and init[1] == "stack_peek":
                    self.ptrvars[s[1]] = 0
            return st
        if h == "assign":
            self.expr(s[2], st, line)
            self.expr(s[1], st, line)
            return st
        if h == "aug":
            self.expr(s[3], st, line)
            if _member(s[2], "stack_depth_"):
                self._depth_update(s[1], s[2], s[3], st, line)
            else:
                self.expr(s[2], st, line)
                if s[1] in ("/", "%"):
                    d = cexpr(s[3])
                    if not (d[0] == "const" and d[1] != 0):
                        self.need(d in st.nz, "div", line, "division/modulo by '%s' without a dominating == 0 check" % unparse(d))
            return st
        if h == "expr":
            self.expr(s[1], st, line)
            return st
        if h in ("return", "throw"):
            if len(s) > 2 and s[1] is not None:
                self.expr(s[1], st, line)
            st = st.copy()
            st.dead = True
            return st
        if h in ("break", "continue", "goto"):
            st = st.copy()
            st.dead = True
            return st
        if h == "label":
            return St()
        if h == "if":
            cond = s[1]
            if cond[0] == "declcond":
                self.expr(cond[3], st, line)
                c = None
            else:
                c = cexpr(cond)
                self.expr(cond, st, line)
            fact = None
            if c is not None:
                if c[0] == "mcall" and c[2] == ("this",) and c[1] in GUARD_ERR:
                    fact = ("guard", c[1])
                elif c[0] == "bin" and c[1] == "==":
                    sides = {repr(c[2]), repr(c[3])}
                    if repr(("member", ("this",), "recursion_max_depth_")) in sides and repr(("member", ("this",), "recursion_current_depth_")) in sides:
                        fact = ("rec",)
                    elif repr(("member", ("this",), "recursion_max_depth_")) in sides and repr(("member", ("this",), "do_current_depth_")) in sides:
                        fact = ("do",)
                    elif c[2] == ("const", 0):
                        fact = ("nz", c[3])
                    elif c[3] == ("const", 0):
                        fact = ("nz", c[2])
            a = self.block(s[2], st.copy())
            b_in = st.copy()
            if fact is not None and self.exits(s[2]):
                if fact[0] == "guard":
                    err = GUARD_ERR[fact[1]]
                    self.need(self.sets_error(s[2], err), "guard-sets-" + err, line, "the %s() guard returns without setting current_error_ = %s" % (fact[1], err))
                    if fact[1] in POPK:
                        b_in.avail = max(b_in.avail, POPK[fact[1]])
                    else:
                        b_in.room = max(b_in.room, 1)
                elif fact[0] == "rec":
                    self.need(self.sets_error(s[2], "recursion_depth_exceeded"), "guard-sets-recursion", line, "recursion-depth guard returns without setting recursion_depth_exceeded")
                    b_in.rec = True
                elif fact[0] == "do":
                    self.need(self.sets_error(s[2], "recursion_depth_exceeded"), "guard-sets-do", line, "do-depth guard returns without setting recursion_depth_exceeded")
                    b_in.do = True
                elif fact[0] == "nz":
                    if self.sets_error(s[2], "division_by_zero"):
                        b_in.nz = b_in.nz | {fact[1]}
            b = self.block(s[3], b_in)
            return St.join(a, b)
        if h in ("while", "dowhile", "for"):
            cond = s[1]
            saved = set(self.loopvars)
            if h == "for":
                c = cexpr(cond) if cond and cond[0] != "declcond" else None
                if c and c[0] == "bin" and c[1] == "<" and c[2][0] == "var" and _member(c[3], "stack_depth_"):
                    self.loopvars.add(c[2][1])
            if cond and cond[0] != "declcond":
                self.expr(cond, St(), line)
            body = s[2]
            self.block(body, St())
            if h == "for":
                self.block(s[3], St())
            self.loopvars = saved
            return St()
        if h == "foreach":
            self.block(s[4], St())
            return St()
        if h == "switch":
            self.expr(s[1], st, line)
            outer = self.ctx
            for labels, body in s[2]:
                names = []
                for l in labels:
                    if l in ("default", "<pre>"):
                        names.append(l)
                    else:
                        c = cexpr(l)
                        names.append(self.codes.get(c[1], str(c[1])) if c[0] == "const" else unparse(c))
                if outer == "prologue" or outer.startswith("run"):
                    self.ctx = "/".join(names)
                self.ptrvars = dict(self.ptrvars)
                self.block(body, st.copy())
            self.ctx = outer
            return St()
        if h == "try":
            self.block(s[1], st.copy())
            for _, hb in s[2]:
                self.block(hb, St())
            return St()
        return st


def rule_forth_guards(rep, fb, floor=150):
    r = rep.rule("GUARD.forth-stack", "abstract interpretation of ForthMachineOf::internal_run: every stack pop/peek/slot access is dominated by a stack_cannot_pop{,2,3}() guard of sufficient depth, "
                 "every push/growth by stack_cannot_push(), every division/modulo by an == 0 test raising division_by_zero, every return-stack / do-stack push by its depth test; "
                 "each guard sets the matching current_error_ before returning", floor=floor)
    funcs = [f for f in fb.lib_funcs() if f["cls"] and f["cls"].startswith("ForthMachineOf") and f["name"] == "internal_run"]
    if not funcs:
        raise AnalysisError("ForthMachineOf::internal_run not found")
    f = funcs[0]
    mt = macro_table()
    codes = {v: k for k, v in mt.items() if k.startswith("CODE_")}
    if len(codes) < 60:
        raise AnalysisError("only %d CODE_* macros found" % len(codes))
    it = Interp(r, f, codes)
    it.ctx = "run"
    it.block(f["body"], St())
    r.count("opcodes", len(codes))
    return r.done()


def rule_forth_tables(rep, fb, floor=100):
    r = rep.rule("TABLE.forth-opcodes", "the CODE_* opcode set = the cases of internal_run's dispatch switch = the cases of decompiled_at; CODE values are distinct and below BOUND_DICTIONARY; "
                 "generic_builtin_words_ maps distinct words to distinct codes, each of which has an internal_run case", floor=floor)
    mt = macro_table()
    codes = {k: v for k, v in mt.items() if k.startswith("CODE_")}
    where = SRC
    vals = list(codes.values())
    r.check(len(set(vals)) == len(vals), "codes-distinct", where, "two CODE_* macros share a value")
    bound = mt.get("BOUND_DICTIONARY")
    r.check(bound is not None and all(0 <= v < bound for v in vals), "codes-below-bound", where, "a CODE_* value is not below BOUND_DICTIONARY=%s" % bound)
    fm = [f for f in fb.lib_funcs() if f["cls"] and f["cls"].startswith("ForthMachineOf")]
    run = [f for f in fm if f["name"] == "internal_run"]
    dec = [f for f in fm if f["name"] == "decompiled_at"]
    if not run or not dec:
        raise AnalysisError("internal_run / decompiled_at not found")

    def case_values(f):
        out = set()
        for sw in find_all(f["body"], lambda n: n[0] == "switch"):
            vs = set()
            for labels, _ in sw[2]:
                for l in labels:
                    if l not in ("default", "<pre>"):
                        c = cexpr(l)
                        if c[0] == "const":
                            vs.add(c[1])
            if len(vs) > len(out):
                out = vs
        return out
    rv, dv = case_values(run[0]), case_values(dec[0])
    # opcodes that decompiled_at recognises by look-ahead comparison (begin ... again/until/while) rather than by a case
    for c in find_all(dec[0]["body"], lambda n: n[0] == "bin" and n[1] == "=="):
        cc = cexpr(c)
        for side in (cc[2], cc[3]):
            if side[0] == "const" and isinstance(side[1], int):
                dv.add(side[1])
    for name, v in sorted(codes.items(), key=lambda kv: kv[1]):
        r.check(v in rv, "run-case:" + name, "%s:%d" % (run[0]["file"], run[0]["line"]), "opcode %s (=%d) has no case in internal_run" % (name, v), detail="case present")
        r.check(v in dv, "decompile-case:" + name, "%s:%d" % (dec[0]["file"], dec[0]["line"]), "opcode %s (=%d) has no case in decompiled_at" % (name, v))
    for v in sorted(rv - set(vals)):
        r.fail("run-extra:%d" % v, where, "internal_run has a case %d that is no CODE_* opcode" % v)
    # builtin words table: std::map initialiser list in the source (token tier: macros are not in the AST)
    src = cxx.strip_comments_strings(open(os.path.join(REPO, SRC), encoding="utf-8", errors="replace").read())
    raw = open(os.path.join(REPO, SRC), encoding="utf-8", errors="replace").read()
    m = re.search(r"generic_builtin_words_\s*\(\s*\{(.*?)\}\s*\)", raw, re.S)
    if not m:
        raise AnalysisError("generic_builtin_words_ initialiser not found")
    pairs = re.findall(r'\{\s*"((?:[^"\\]|\\.)*)"\s*,\s*(CODE_[A-Z_0-9]+)\s*\}', m.group(1))
    if len(pairs) < 30:
        raise AnalysisError("only %d builtin word pairs parsed" % len(pairs))
    words = [w for w, _ in pairs]
    cs = [c for _, c in pairs]
    r.check(len(set(words)) == len(words), "builtin-words-distinct", where, "a word occurs twice in generic_builtin_words_")
    r.check(len(set(cs)) == len(cs), "builtin-codes-distinct", where, "two words map to the same opcode in generic_builtin_words_: %s" % [c for c in cs if cs.count(c) > 1][:3])
    for w, c in pairs:
        r.check(c in codes and codes[c] in rv, "builtin:%s" % w, where, "word '%s' maps to %s which has no internal_run case" % (w, c), detail="%s -> %s" % (w, c))
    return r.done()


OPERATOR_OF = {"CODE_ADD": "+", "CODE_SUB": "-", "CODE_MUL": "*", "CODE_AND": "&", "CODE_OR": "|", "CODE_XOR": "^", "CODE_LSHIFT": "<<", "CODE_RSHIFT": ">>"}
COMPARE_OF = {"CODE_EQ": "==", "CODE_NE": "!=", "CODE_GT": ">", "CODE_GE": ">=", "CODE_LT": "<", "CODE_LE": "<="}
EARLY_EXIT = {"CODE_HALT": "halts the machine: replicates count_instructions_++ and returns with user_halt",
              "CODE_PAUSE": "pauses: replicates the end-of-segment bookkeeping and count_instructions_++ before returning",
              "CODE_EXIT": "leaves the current word: unwinds and jumps to the after_end_of_segment epilogue"}


def _dispatch_switch(f):
    sws = find_all(f["body"], lambda n: n[0] == "switch")
    return max(sws, key=lambda s: len(s[2]))


def rule_forth_semantics(rep, fb, floor=30):
    r = rep.rule("TABLE.forth-operators", "opcode <-> operator agreement in internal_run: ADD/SUB/MUL/AND/OR/XOR/LSHIFT/RSHIFT compute pair[0] <op> pair[1] with their own operator; "
                 "EQ/NE/GT/GE/LT/LE/0= produce (pair[0] <cmp> pair[1]) ? -1 : 0 with their own comparison; TRUE pushes -1 and FALSE pushes 0; "
                 "every case ends in break (reaching the common epilogue that counts the instruction and honours single_step) except the tabled early exits", floor=floor)
    f = [g for g in fb.lib_funcs() if g["cls"] and g["cls"].startswith("ForthMachineOf") and g["name"] == "internal_run"][0]
    mt = macro_table()
    codes = {v: k for k, v in mt.items() if k.startswith("CODE_")}
    sw = _dispatch_switch(f)
    P0, P1 = ("idx", ("var", "pair"), ("const", 0)), ("idx", ("var", "pair"), ("const", 1))
    for labels, body in sw[2]:
        for l in labels:
            if l in ("default", "<pre>"):
                continue
            c = cexpr(l)
            name = codes.get(c[1])
            if name is None:
                continue
            where = "%s:%d" % (f["file"], body[0][-1] if body and isinstance(body[0][-1], int) else f["line"])
            assigns = [s for s in body if s[0] == "assign" and s[1] == P0]
            if name in OPERATOR_OF:
                ok = any(s[2][0] == "bin" and s[2][1] == OPERATOR_OF[name] and s[2][2] == P0 and s[2][3] == P1 for s in assigns)
                r.check(ok, name + ":operator", where, "%s does not compute pair[0] %s pair[1]" % (name, OPERATOR_OF[name]), detail="pair[0] = pair[0] %s pair[1]" % OPERATOR_OF[name])
            if name in COMPARE_OF:
                ok = any(s[2][0] == "cond" and s[2][1][0] == "bin" and s[2][1][1] == COMPARE_OF[name] and s[2][1][2] == P0 and s[2][1][3] == P1
                         and cexpr(s[2][2]) == ("const", -1) and cexpr(s[2][3]) == ("const", 0) for s in assigns)
                r.check(ok, name + ":compare", where, "%s does not compute (pair[0] %s pair[1]) ? -1 : 0" % (name, COMPARE_OF[name]), detail="(pair[0] %s pair[1]) ? -1 : 0" % COMPARE_OF[name])
            if name in ("CODE_TRUE", "CODE_FALSE"):
                want = -1 if name == "CODE_TRUE" else 0
                pushes = find_all(body, lambda n: n[0] == "mcall" and n[1] == "stack_push")
                ok = len(pushes) == 1 and cexpr(pushes[0][4][0]) == ("const", want)
                r.check(ok, name + ":value", where, "%s does not push %d" % (name, want), detail="stack_push(%d)" % want)
            # termination of the case
            last = body[-1] if body else None
            if name in EARLY_EXIT:
                r.excepted(name + ":epilogue", EARLY_EXIT[name])
                ok = last is not None and last[0] in ("return", "goto")
                if name in ("CODE_HALT", "CODE_PAUSE"):
                    ok = ok and bool(find_all(body, lambda n: n[0] == "aug" and n[2] == ("member", ("this",), "count_instructions_")))
                r.check(ok, name + ":epilogue", where, "%s (tabled early exit) no longer counts its instruction / exits as tabled" % name)
            else:
                r.check(last is not None and last[0] == "break", name + ":epilogue", where, "case %s does not end in break: it bypasses the common epilogue (instruction count, single-step return)" % name,
                        detail="ends in break")
    # every return in internal_run is an error exit (sets current_error_ just before) or belongs to a tabled early exit / the single-step epilogue
    nret = 0

    def visit(stmts, ctx):
        nonlocal nret
        for i, s in enumerate(stmts):
            if s[0] == "return":
                nret += 1
                prev = stmts[:i]
                seterr = any(p[0] == "assign" and p[1] == ("member", ("this",), "current_error_") for p in prev)
                counted = any(find_all((p,), lambda n: n[0] == "aug" and n[2] == ("member", ("this",), "count_instructions_")) for p in prev)
                in_step = "single_step" in ctx
                r.check(seterr or counted or in_step or any(x in ctx for x in EARLY_EXIT), "return@%s#%d" % (ctx[-1] if ctx else "run", nret), "%s:%d" % (f["file"], s[-1]),
                        "a return in internal_run neither sets current_error_ (nor follows a test of it) nor is the single-step / tabled early exit", detail="error exit sets or has just tested current_error_")
            from .callsites import sub_blocks
            if s[0] == "if":
                tag = "single_step" if s[1] == ("var", "single_step") else ("single_step" if "current_error_" in repr(s[1]) else None)
                visit(s[2], ctx + ([tag] if tag else []))
                visit(s[3], ctx)
            elif s[0] == "switch":
                for labels, body in s[2]:
                    nm = [codes.get(cexpr(l)[1], "?") for l in labels if l not in ("default", "<pre>")] if s is sw else ["typed-read"]
                    visit(body, ctx + nm)
            else:
                for b in sub_blocks(s):
                    visit(b, ctx)
    visit(f["body"], [])
    return r.done()


def rule_forth_output(rep, fb, floor=12):
    r = rep.rule("GUARD.forth-output", "every ForthOutputBufferOf write method calls maybe_resize(new length) before it stores through ptr_; ptr_ is replaced only inside maybe_resize "
                 "(so results do not depend on the initial size / growth factor)", floor=floor)
    fs = [f for f in fb.lib_funcs() if f["cls"] and f["cls"].startswith("ForthOutputBufferOf")]
    if len(fs) < 20:
        raise AnalysisError("only %d ForthOutputBufferOf methods found" % len(fs))
    for f in fs:
        if f["kind"] == "CXXConstructorDecl":
            continue
        stores = []
        resize_at = None
        flat = []

        def walk_stmts(stmts):
            for s in stmts:
                flat.append(s)
                from .callsites import sub_blocks
                for b in sub_blocks(s):
                    walk_stmts(b)
        walk_stmts(f["body"])
        where = "%s:%d" % (f["file"], f["line"])
        key = "%s::%s(%s)" % (f["cls"], f["name"], ",".join(t for _, t in f["params"]))
        writes_ptr = False
        first_store = None
        for i, s in enumerate(flat):
            if find_all((s,), lambda n: n[0] == "mcall" and n[1] == "maybe_resize") and resize_at is None:
                resize_at = i
            st = (s[0] == "assign" and find_all((s[1],), lambda n: n == ("member", ("this",), "ptr_")) and s[1][0] == "idx") or \
                 bool(find_all((s,), lambda n: n[0] == "call" and n[1][0] == "fn" and (n[1][1] or "").endswith("memcpy") and n[2] and find_all((n[2][0],), lambda k: k == ("member", ("this",), "ptr_")))) or \
                 bool(find_all((s,), lambda n: n[0] == "call" and n[1][0] == "fn" and "byteswap" in (n[1][1] or "") and find_all((n[2],), lambda k: k == ("member", ("this",), "ptr_"))))
            if st and first_store is None and s[0] not in ("if", "for", "while"):
                first_store = i
            if s[0] == "assign" and s[1] == ("member", ("this",), "ptr_"):
                writes_ptr = True
        if f["name"] == "maybe_resize":
            r.ok(key, "the only place that replaces ptr_")
            continue
        if writes_ptr:
            r.fail(key + ":ptr", where, "%s replaces ptr_ outside maybe_resize" % f["qual"])
        if first_store is None:
            continue
        r.check(resize_at is not None and resize_at < first_store, key, where, "%s stores through ptr_ before (or without) calling maybe_resize" % f["qual"], detail="maybe_resize precedes the store")
    return r.done()


def rule_forth_input(rep, fb, floor=10):
    r = rep.rule("GUARD.forth-input", "ForthInputBuffer::read/seek/skip move pos_ only when the new position is within [0, length_] and otherwise set read_beyond/seek_beyond/skip_beyond; "
                 "in internal_run every read/seek/skip is immediately followed by a test of current_error_ that returns", floor=floor)
    want = {"read": "read_beyond", "seek": "seek_beyond", "skip": "skip_beyond"}
    seen = set()
    for f in fb.lib_funcs():
        if f["cls"] != "ForthInputBuffer" or f["name"] not in want:
            continue
        seen.add(f["name"])
        where = "%s:%d" % (f["file"], f["line"])
        ifs = [s for s in f["body"] if s[0] == "if"]
        guard = [s for s in ifs if "length_" in repr(s[1]) and any(x[0] == "assign" and x[1] == ("var", "err") and x[2][0] == "enum" and x[2][1].endswith(want[f["name"]]) for x in s[2])]
        ok = bool(guard)
        msg = "no bounds test against length_ that sets %s" % want[f["name"]]
        if ok:
            g = guard[0]
            c = cexpr(g[1])
            # upper bound: `length_ < next`, or the overflow-safe `length_ - pos_ < num_bytes`
            hi = bool(find_all((c,), lambda n: n[0] == "bin" and n[1] == "<" and (n[2] == ("member", ("this",), "length_") or (n[2][0] == "bin" and n[2][1] == "-" and n[2][2] == ("member", ("this",), "length_")))))
            # lower bound: `next < 0`, or `num_bytes < -pos_` / `num_bytes < 0`
            lo = f["name"] == "read" or bool(find_all((c,), lambda n: n[0] == "bin" and n[1] == "<" and (n[3] == ("const", 0) or (n[3][0] == "un" and "pos_" in repr(n[3])))))
            ok = hi and lo
            msg = "bounds test is not (new position > length_%s)" % ("" if f["name"] == "read" else " or new position < 0")
            # pos_ assignments: only in the else branch or after an exiting then-branch
            idx = f["body"].index(g)
            exits = bool(g[2]) and g[2][-1][0] == "return"
            for a in find_all(f["body"], lambda n: n[0] == "assign" and len(n) == 4 and n[1] == ("member", ("this",), "pos_")):
                in_else = bool(find_all(g[3], lambda n: n is a))
                after = exits and any(find_all((s,), lambda n: n is a) for s in f["body"][idx + 1:])
                if not (in_else or after):
                    ok = False
                    msg = "pos_ is updated on a path that did not pass the bounds test"
        r.check(ok, "ForthInputBuffer::" + f["name"], where, "ForthInputBuffer::%s: %s" % (f["name"], msg), detail="bounds-checked against length_, sets %s" % want[f["name"]])
    if seen != set(want):
        raise AnalysisError("ForthInputBuffer methods found: %s" % sorted(seen))
    run = [g for g in fb.lib_funcs() if g["cls"] and g["cls"].startswith("ForthMachineOf") and g["name"] == "internal_run"][0]
    from .callsites import each_block, head_exprs
    n = 0

    def onblock(stmts):
        nonlocal n
        for i, s in enumerate(stmts):
            if s[0] in ("if", "while", "for", "switch", "dowhile", "foreach", "try"):
                continue
            calls = find_all((s,), lambda k: k[0] == "mcall" and k[1] in want and k[4] and k[4][-1] == ("member", ("this",), "current_error_"))
            for c in calls:
                n += 1
                nxt = stmts[i + 1] if i + 1 < len(stmts) else None
                ok = nxt is not None and nxt[0] == "if" and "current_error_" in repr(nxt[1]) and bool(nxt[2]) and nxt[2][-1][0] == "return"
                r.check(ok, "run:%s#%d" % (c[1], n), "%s:%d" % (run["file"], c[-1]), "input->%s(...) in internal_run is not immediately followed by `if (current_error_ != none) return;`" % c[1],
                        detail="error tested before the result is used")
    each_block(run["body"], onblock)
    return r.done()


def rule_forth_width(rep, fb, floor=2):
    r = rep.rule("WIDTH.forth-stack", "in every instantiation of ForthMachineOf::internal_run no stack value (element of stack_buffer_ / result of stack_pop / *stack_peek) is implicitly narrowed "
                 "below the machine's integer width (e.g. by being passed to a 32-bit C function such as int abs(int))", floor=floor)
    funcs = [f for f in fb.lib_funcs(inst=True) if f["cls"] and f["cls"].startswith("ForthMachineOf") and f["name"] == "internal_run"]
    if not funcs:
        raise AnalysisError("no instantiation of ForthMachineOf::internal_run found")
    for f in funcs:
        targs = ",".join(f["targs"] or ())
        tw = 64 if (f["targs"] or ("",))[0] in ("long", "int64_t") else 32
        bad = 0
        ptrvars = set()
        for d in find_all(f["body"], lambda n: n[0] == "decl" and len(n) == 5 and n[3] is not None and n[3][0] == "mcall" and n[3][1] in ("stack_pop2", "stack_pop2_before_pushing1", "stack_peek")):
            ptrvars.add(d[1])
        for n in find_all(f["body"], lambda n: n[0] == "narrow"):
            src = n[3]
            is_stack = bool(find_all((src,), lambda k: k == ("member", ("this",), "stack_buffer_") or (k[0] == "mcall" and k[1] in ("stack_pop",)) or (k[0] == "idx" and k[1][0] == "var" and k[1][1] in ptrvars)))
            towidth = int(n[1].split("<-")[0])
            if is_stack and towidth < tw:
                # narrowing that feeds an index/count parameter of another API (seek position, output number ...) is by design: only arithmetic on the value itself matters
                parent_is_arith = True
                bad += 1
                r.fail("internal_run<%s>:narrow#%d" % (targs, bad), "%s:%d" % (f["file"], f["line"]), "stack value %s is implicitly narrowed to %s in ForthMachineOf<%s>::internal_run" % (unparse(cexpr(src))[:50], n[2], targs))
        if not bad:
            r.ok("internal_run<%s>" % targs, "no implicit narrowing of stack values")
    # the pattern (pre-instantiation) form: what is pushed is a cell of type T; an explicit cast to I - the bytecode type, 32 bits in both machines -
    # truncates on the 64-bit machine
    pats = [f for f in fb.lib_funcs(inst=False) if (f["cls"] or "").startswith("ForthMachineOf")]
    npush = 0
    for f in pats:
        for m in find_all(f["body"], lambda n: n[0] == "mcall" and n[1] == "stack_push" and n[4]):
            npush += 1
            a = m[4][0]
            r.check(not (a[0] == "cast" and str(a[2]).strip() == "I"), "%s#stack_push#%d" % (f["qual"], npush), "%s:%d" % (f["file"], m[-1]),
                    "%s pushes a value cast to I (the 32-bit bytecode type) onto the stack of T cells: ForthMachine64 truncates it to 32 bits" % f["qual"], detail="pushed as T")
    return r.done()


def rule_forth_operand_guards(rep, fb, floor=4):
    r = rep.rule("GUARD.forth-operands", "values popped from the data stack are user data: (a) a popped repeat count (num_items) is tested for being negative before it is used as a loop bound or a size; "
                 "(b) every signed `/` or `%` on stack cells is preceded, in its bytecode arm, by tests of the divisor against 0 and against -1 (the most negative integer divided by -1 traps); "
                 "(c) ForthOutputBuffer::rewind rejects a negative argument", floor=floor)
    pats = [f for f in fb.lib_funcs(inst=False) if (f["cls"] or "").startswith("ForthMachineOf") and f["name"] == "internal_run"]
    if not pats:
        raise AnalysisError("ForthMachineOf::internal_run not found")
    f = pats[0]
    from .callsites import each_block_cont, head_exprs

    def neg_const(e, v):
        return e == ("const", v) or e == ("un", "-", ("const", -v)) or (e[0] == "cast" and neg_const(e[3], v))
    n = [0, 0]

    def onblock(stmts, cont):
        for i, s in enumerate(stmts):
            # (a)
            if s[0] == "assign" and s[1][0] == "var" and "num" in s[1][1] and s[2][0] == "mcall" and s[2][1] == "stack_pop":
                v = s[1][1]
                n[0] += 1
                tested = any(t[0] == "if" and find_all((t[1],), lambda k: k[0] == "bin" and k[1] in ("<", "<=") and k[2] == ("var", v) and k[3][0] == "const") and cs_has_exit(t) for t in stmts[i + 1:i + 3])
                r.check(tested, "internal_run#%s=stack_pop#%d" % (v, n[0]), "%s:%d" % (f["file"], s[-1]), "internal_run uses the popped count `%s` without rejecting negative values" % v, detail="if (%s < 0) error" % v)
            # (b)
            for e in head_exprs(s):
                for d in find_all((e,), lambda k: k[0] == "bin" and k[1] in ("/", "%") and k[3][0] != "const"):
                    div = d[3]
                    if not find_all((div,), lambda k: (k[0] == "idx") or (k[0] == "var" and k[1] in ("two", "one"))):
                        continue
                    n[1] += 1
                    key = "internal_run#%s#%d" % ("div" if d[1] == "/" else "mod", n[1])
                    # all statements of the enclosing case arm before this one
                    arm = None
                    for pb, pi, pk in cont:
                        if pk == "switch":
                            break
                        arm = pb
                    prior = []
                    blk, idx = stmts, i
                    prior += list(blk[:idx])
                    for pb, pi, pk in cont:
                        if pk == "switch":
                            break
                        prior += list(pb[:pi])
                        # an enclosing conditional expression/if that tests the divisor counts too
                        if pb[pi][0] == "if":
                            prior.append(("expr", pb[pi][1], 0))
                    # the divisor test may also be the condition of a ?: around this very division
                    conds = find_all(tuple(prior) + (s,), lambda k: k[0] == "bin" and k[1] in ("==", "!=") and (k[2] == div or k[3] == div))
                    z = any(neg_const(c[2], 0) or neg_const(c[3], 0) for c in conds)
                    m1 = any(neg_const(c[2], -1) or neg_const(c[3], -1) for c in conds)
                    r.check(z and m1, key, "%s:%d" % (f["file"], s[-1]), "internal_run divides stack cells (%s) without testing the divisor against %s in that bytecode arm" % (d[1], "0" if not z else "-1 (MIN / -1 traps with SIGFPE)"),
                            detail="divisor tested against 0 and -1")
    from .callsites import has_exit as cs_has_exit
    each_block_cont(f["body"], onblock)
    rew = [g for g in fb.lib_funcs(inst=False) if g["qual"].endswith("ForthOutputBuffer::rewind")]
    if rew:
        g = rew[0]
        ok = bool(find_all(g["body"], lambda k: k[0] == "bin" and k[1] in ("<", "<=") and k[2] == ("var", "num_items") and k[3][0] == "const"))
        r.check(ok, "ForthOutputBuffer::rewind#negative", "%s:%d" % (g["file"], g["line"]), "ForthOutputBuffer::rewind accepts a negative count (the output grows past what was written)", detail="num_items < 0 rejected")
    return r.done()
