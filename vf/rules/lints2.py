"""More class-level rules (round four of the seeded changes: same-shaped semantic slips)."""
import re
from ..facts import find_all
from ..core import AnalysisError
from . import callsites as cs
from .lints import _noline, _norm_len, _chain, _node_kind


# ------------------------------------------------------------------------------------------------
# M-1  after re-encoding `this` (rebased offsets), the block works on the re-encoded copy, not on this node's members

def rule_rebased_copy(rep, fb, floor=15, name="ORIGIN.rebased-copy"):
    r = rep.rule(name, "a block that re-encodes the node with toListOffsetArray64(true) / compact_offsets64(true) (offsets rebased to 0, content trimmed accordingly) and keeps the copy in a local does not go on to read "
                 "this node's own content_ in the statements that follow: the copy's offsets index the copy's content, not content_", floor=floor)
    for f in fb.lib_funcs(inst=False):
        n = [0]

        def onblock(stmts, cont, f=f):
            for i, s in enumerate(stmts):
                if s[0] != "decl" or s[3] is None:
                    continue
                top = s[3]
                while top[0] in ("cast", "deref") or (top[0] == "mcall" and top[1] == "get"):
                    top = top[1] if top[0] == "deref" else top[3]
                if not (top[0] == "mcall" and top[1] == "toListOffsetArray64" and top[3] == ("this",) and top[4] == (("const", True),)):
                    continue
                n[0] += 1
                rest = stmts[i + 1:]
                uses = find_all(tuple(rest), lambda k: k == ("member", ("this",), "content_"))
                r.check(not uses, "%s#rebased%d" % (f["qual"], n[0]), "%s:%d" % (f["file"], s[-1]),
                        "%s re-encodes itself into `%s` (offsets rebased to 0) and then still reads its own content_: the rebased offsets are paired with untrimmed content" % (f["qual"], s[1]), detail="copy's content used")
        cs.each_block_cont(f["body"], onblock)
    return r.done()


# ------------------------------------------------------------------------------------------------
# M-2  after regularize_rangeslice the raw bounds are not handed to *_nowrap code

def rule_regularized_bounds(rep, fb, floor=10, name="GUARD.regularized-bounds"):
    r = rep.rule(name, "a function that regularises its start/stop parameters with regularize_rangeslice(&regular_start, &regular_stop, ...) passes only the regularised values to getitem_range_nowrap and the other "
                 "*_nowrap functions (which do no bounds handling): the raw parameters may be negative or beyond the length", floor=floor)
    for f in fb.lib_funcs(inst=False):
        pn = [p[0] for p in f["params"]]
        if "start" not in pn or "stop" not in pn:
            continue
        regs = find_all(f["body"], lambda k: k[0] == "call" and k[1][0] == "fn" and str(k[1][1]).endswith("regularize_rangeslice"))
        if not regs:
            continue
        n = 0
        for c in find_all(f["body"], lambda k: k[0] in ("mcall", "call") and "nowrap" in str(k[1] if k[0] == "mcall" else k[1][1])):
            args = c[4] if c[0] == "mcall" else c[2]
            n += 1
            raw = [a for a in args if a in (("var", "start"), ("var", "stop"))]
            r.check(not raw, "%s#nowrap#%d" % (f["qual"], n), "%s:%d" % (f["file"], c[-1]),
                    "%s passes its raw `%s` parameter to %s although it has regularised values" % (f["qual"], raw[0][1] if raw else "", c[1] if c[0] == "mcall" else c[1][1]), detail="regularised bounds")
    return r.done()


# ------------------------------------------------------------------------------------------------
# M-3  a RecordArray rebuilt field by field keeps its own field names

def rule_record_rebuild_lookup(rep, fb, floor=10, name="REBUILD.record-lookup"):
    r = rep.rule(name, "a RecordArray method that applies an operation to each field and wraps the results in a new RecordArray passes its own recordlookup_ (field names) - a recordlookup *parameter* of the method names "
                 "something else (e.g. the fields of the tuples that combinations creates)", floor=floor)
    names = ("num", "rpad", "rpad_and_clip", "localindex", "combinations", "offsets_and_flattened", "fillna", "numbers_to_type", "reduce_next", "sort_next", "argsort_next", "getitem_next",
             "carry", "getitem_range_nowrap", "deep_copy", "copy_to", "getitem_next_jagged_generic")
    for f in fb.lib_funcs(inst=False):
        if (f.get("cls") or "") != "RecordArray" or f["name"] not in names:
            continue
        n = 0
        for m in find_all(f["body"], lambda k: k[0] in ("make", "ctor") and str(k[1]) == "RecordArray" and len(k[2]) >= 4):
            n += 1
            a3 = m[2][3]
            r.check(a3 == ("member", ("this",), "recordlookup_"), "%s#RecordArray#%d" % (f["qual"], n), "%s:%d" % (f["file"], m[-1] if isinstance(m[-1], int) else f["line"]),
                    "%s rebuilds the record with `%s` as its field names instead of its own recordlookup_" % (f["qual"], str(_noline(a3))[:40]), detail="own recordlookup_")
    return r.done()


# ------------------------------------------------------------------------------------------------
# M-4  UnionBuilder: the index of a new item is the content's length before the append

def rule_union_builder_index(rep, fb, floor=10, name="BUILDER.union-index"):
    r = rep.rule(name, "every UnionBuilder method that appends an item records, in index_, the length the chosen content builder had before the append (a local initialised from <content>.length()), "
                 "not a value taken from the item or its source", floor=floor)
    fs = [f for f in fb.lib_funcs(inst=False) if (f.get("cls") or "") == "UnionBuilder"]
    if len(fs) < 15:
        raise AnalysisError("UnionBuilder methods not found")
    for f in fs:
        decls = cs.local_decls(f)
        n = 0
        for m in find_all(f["body"], lambda k: k[0] == "mcall" and k[1] == "append" and k[3] == ("member", ("this",), "index_") and k[4]):
            n += 1
            a = m[4][0]
            ok = False
            if a[0] == "var":
                for d in decls.get(a[1]) or []:
                    if d[3] is not None and find_all((d[3],), lambda k: k[0] == "mcall" and k[1] == "length"):
                        ok = True
            r.check(ok, "%s#index_.append#%d" % (f["qual"], n), "%s:%d" % (f["file"], m[-1]), "%s appends `%s` to index_, which is not the content builder's length before the append" % (f["qual"], str(_noline(a))[:40]),
                    detail="content length before the append")
    return r.done()


# ------------------------------------------------------------------------------------------------
# M-5  Form::simplify_optiontype mirrors Array::simplify_optiontype arm by arm

def _strip_kind(c):
    c = str(c).replace("Of", "").split("<")[0]
    for suf in ("Array8_64", "Array8_32", "Array8_U32", "Array64", "Array32", "ArrayU32", "Array", "Form"):
        if c.endswith(suf):
            return c[:-len(suf)]
    return c


def rule_form_array_simplify(rep, fb, floor=6, name="CLONE.form-array-simplify"):
    r = rep.rule(name, "XForm::simplify_optiontype decides, for each class of content, the same kind of node as X::simplify_optiontype does for the corresponding array class (the Form is the prediction of what "
                 "the array operation returns; VirtualArray compares the two)", floor=floor)

    def arms_of(f):
        out = {}
        for s in find_all(f["body"], lambda k: k[0] == "if"):
            arms, el = _chain(s)
            for c, blk in arms:
                casts = find_all((c,), lambda k: k[0] == "cast" and k[1] == "dynamic")
                if not casts:
                    continue
                made = [m for m in find_all(blk, lambda k: k[0] in ("make", "ctor") and _node_kind(str(k[1]).replace("Form", "Array")) is not None)]
                rets = find_all(blk, lambda k: k[0] == "return")
                for cst in casts:
                    key = _strip_kind(str(cst[2]).replace("*", "").replace("const", "").strip())
                    if made:
                        out.setdefault(key, set()).add(_strip_kind(made[0][1]))
        return out
    pairs = [("IndexedArrayOf", "IndexedForm"), ("IndexedArrayOf", "IndexedOptionForm"), ("ByteMaskedArray", "ByteMaskedForm"), ("BitMaskedArray", "BitMaskedForm"), ("UnmaskedArray", "UnmaskedForm")]
    fs = {}
    for f in fb.lib_funcs(inst=False):
        if f["name"] == "simplify_optiontype":
            fs.setdefault(f.get("cls") or "", []).append(f)
    n = 0
    for ac, fc in pairs:
        if ac not in fs or fc not in fs:
            continue
        aa, fa = arms_of(fs[ac][0]), arms_of(fs[fc][0])
        for key in sorted(set(aa) & set(fa)):
            n += 1
            # the array template covers both option and non-option: the form's choice must be one the array can make
            r.check(fa[key] <= aa[key] or not aa[key], "%s~%s:%s" % (fc, ac, key), "%s:%d" % (fs[fc][0]["file"], fs[fc][0]["line"]),
                    "%s::simplify_optiontype builds %s for a %s content where %s::simplify_optiontype builds %s" % (fc, sorted(fa[key]), key, ac, sorted(aa[key])), detail="same node kind as the array version")
    return r.done()


# ------------------------------------------------------------------------------------------------
# M-6  dtype switch arms: template arguments of *method* calls too (taken from the source text: the IR keeps them only for free functions)

_SRC = {}


def _src_lines(f):
    import os
    from ..core import REPO
    p = f["file"] if os.path.isabs(f["file"]) else os.path.join(REPO, f["file"])
    if p not in _SRC:
        try:
            _SRC[p] = open(p, encoding="utf-8", errors="replace").read().split("\n")
        except OSError:
            _SRC[p] = []
    return _SRC[p]


def _method_targs(f, call):
    """explicit template arguments written at a method call `name<...>(` on the call's line (or the next two)"""
    lines = _src_lines(f)
    L = call[-1] if isinstance(call[-1], int) else 0
    text = " ".join(lines[max(0, L - 1):L + 2])
    m = re.search(r"\b%s\s*<([^;(){}]*?)>\s*\(" % re.escape(call[1]), text)
    if not m:
        return None
    return re.sub(r"\s+", "", m.group(1)).replace("std::", "")


def rule_dtype_case_methods(rep, fb, floor=60, name="DTYPE.case-type:methods"):
    from .lints import _CTYPE
    r = rep.rule(name, "in a switch over util::dtype, an arm for dtype X that calls a template *method* with an explicit element type (tojson_integer<T>, tostring_as<T>, sort/unique helpers ...) names X's C type", floor=floor)
    norm = {"uint8_t": "uint8_t", "unsignedchar": "uint8_t", "int64_t": "int64_t", "complex<float>": "complex<float>", "complex<double>": "complex<double>"}
    allc = {v for v in _CTYPE.values() if v}
    for f in fb.lib_funcs(inst=False):
        cnt = {}
        for sw in find_all(f["body"], lambda k: k[0] == "switch"):
            for labels, body in sw[2]:
                dts = [l[1].split("::")[-1] for l in labels if isinstance(l, tuple) and l[0] == "enum" and "dtype::" in l[1]]
                if not dts or find_all(body, lambda k: k[0] == "switch"):
                    continue
                exp = {_CTYPE.get(d) for d in dts} - {None}
                if not exp:
                    continue
                for c in find_all(body, lambda k: k[0] == "mcall"):
                    ta = _method_targs(f, c)
                    if ta is None:
                        continue
                    first = ta.split(",")[0]
                    if first not in allc:
                        continue
                    k0 = ",".join(dts)
                    cnt[k0] = cnt.get(k0, 0) + 1
                    r.check(first in exp, "%s#case %s#%s#%d" % (f["qual"], k0, c[1], cnt[k0]), "%s:%d" % (f["file"], c[-1]),
                            "%s: the arm `case util::dtype::%s` calls %s<%s> (expected %s)" % (f["qual"], k0, c[1], ta, sorted(exp)), detail="method instantiated with the arm's own C type")
    return r.done()


# ------------------------------------------------------------------------------------------------
# M-7  byte swapping uses the width of the item being swapped

def rule_byteswap_width(rep, fb, floor=8, name="WIDTH.byteswap"):
    r = rep.rule(name, "a function whose name or element type fixes the item width (write_float64, write_int32, read of 'q' ...) swaps bytes with the byteswap of that width: byteswap32 on 8-byte items leaves the "
                 "data half-swapped", floor=floor)
    wname = re.compile(r"(int|uint|float)(8|16|32|64)$")
    for f in fb.lib_funcs(inst=False):
        m = wname.search(f["name"] or "")
        if not m:
            continue
        width = m.group(2)
        n = 0
        for c in find_all(f["body"], lambda k: k[0] == "call" and k[1][0] == "fn" and re.match(r"^(.*::)?byteswap(16|32|64)$", str(k[1][1]))):
            n += 1
            got = re.search(r"(16|32|64)$", str(c[1][1])).group(1)
            r.check(got == width, "%s#byteswap#%d" % (f["qual"], n), "%s:%d" % (f["file"], c[-1]), "%s swaps %s-bit items with byteswap%s" % (f["qual"], width, got), detail="byteswap%s" % width)
    return r.done()


# ------------------------------------------------------------------------------------------------
# M-8  an accumulator called min... keeps the smaller value, one called max... the larger

def rule_minmax_direction(rep, fb, floor=10, name="NAME.minmax-direction"):
    r = rep.rule(name, "in the update `if (acc CMP x) acc = x;` (possibly with a sentinel test or-ed in) of an accumulator or function whose name says min / max, the comparison keeps the smaller / the larger value", floor=floor)
    funcs = list(fb.lib_funcs(inst=False))
    for p, tu in sorted(fb.kernel_tus().items()):
        funcs += [f for f in tu["funcs"] if not f["inst"]]
    for f in funcs:
        n = 0
        for s in find_all(f["body"], lambda k: k[0] == "if" and not k[3] and len(k[2]) == 1 and k[2][0][0] == "assign" and k[2][0][1][0] == "var"):
            acc = s[2][0][1][1]
            x = _noline(s[2][0][2])
            role = None
            nm = acc.lower()
            fn = (f["name"] or "").lower()
            if "min" in nm or (acc in ("out", "result") and fn.startswith("min")):
                role = "min"
            if "max" in nm or (acc in ("out", "result") and fn.startswith("max")):
                role = "max" if role is None else None
            if role is None:
                continue
            cmps = [c for c in find_all((s[1],), lambda k: k[0] == "bin" and k[1] in ("<", ">", "<=", ">=")) if {repr(_noline(c[2])), repr(_noline(c[3]))} == {repr(("var", acc)), repr(x)}]
            if not cmps:
                continue
            n += 1
            c = cmps[0]
            acc_left = _noline(c[2]) == ("var", acc)
            keeps_smaller = (c[1] in (">", ">=") and acc_left) or (c[1] in ("<", "<=") and not acc_left)
            r.check(keeps_smaller == (role == "min"), "%s#%s#%d" % (f["qual"] if "qual" in f else f["name"], acc, n), "%s:%d" % (f["file"], s[-1]),
                    "%s: `%s` is replaced when it is %s than the candidate, so it ends up as the %s although its name says %s" % (f.get("qual") or f["name"], acc, "larger" if keeps_smaller else "smaller", "minimum" if keeps_smaller else "maximum", role),
                    detail="keeps the %s" % ("smaller" if role == "min" else "larger"))
    return r.done()


# ------------------------------------------------------------------------------------------------
# M-9  sort and argsort order their items with the same comparators

def rule_sort_argsort_siblings(rep, fb, floor=4, name="KSIB.sort-argsort"):
    from .kspec import cexpr, unparse
    r = rep.rule(name, "awkward_argsort orders positions by the very relation by which awkward_sort orders values: argsort_order_ascending/descending are the same expressions as sort_order_ascending/descending "
                 "(NaN handling included), and the descending comparator is the ascending one with the value comparison reversed", floor=floor)
    want = ("sort_order_ascending", "sort_order_descending", "argsort_order_ascending", "argsort_order_descending")
    found = {}
    for p, tu in sorted(fb.kernel_tus().items()):
        for f in tu["funcs"]:
            if not f["inst"] and f["name"] in want and f["name"] not in found:
                rets = find_all(f["body"], lambda k: k[0] == "return" and k[1] is not None)
                if rets:
                    found[f["name"]] = (f, unparse(cexpr(rets[0][1])))
    missing = [w for w in want if w not in found]
    if missing:
        raise AnalysisError("comparators %s not found in src/cpu-kernels" % missing)
    for a, b in (("argsort_order_ascending", "sort_order_ascending"), ("argsort_order_descending", "sort_order_descending")):
        fa, ta = found[a]
        fb_, tb = found[b]
        r.check(ta == tb, "%s~%s" % (a, b), "%s:%d" % (fa["file"], fa["line"]), "%s is `%s` but %s is `%s`: sort and argsort disagree on the order" % (a, ta[:100], b, tb[:100]), detail="identical comparator")
    for pre in ("sort_order_", "argsort_order_"):
        fa, ta = found[pre + "ascending"]
        fd, td = found[pre + "descending"]
        # reversing the value comparison: swap the bare operands l and r inside the `<`
        swapped = re.sub(r"\(l < r\)", "(r < l)", ta)
        r.check(td == swapped and td != ta, "%sdescending~ascending" % pre, "%s:%d" % (fd["file"], fd["line"]),
                "%sdescending is not %sascending with the value comparison reversed: `%s` vs `%s`" % (pre, pre, td[:100], ta[:100]), detail="ascending with l, r swapped in the comparison")
    return r.done()


# ------------------------------------------------------------------------------------------------
# M-10  a kernel's failure message states the condition that was tested

_MSG_OP = re.compile(r"(>=|<=|!=|==|>|<)")
_ERRMSG_TABLE = {
    "awkward_Identities_from_IndexedArray": "the test `j >= fromptrlength` is the right bound for an element index; the message \"max(index) > len(content)\" is merely imprecise",
    "awkward_Identities_from_UnionArray": "as awkward_Identities_from_IndexedArray: correct `>=` test, imprecise message",
}


def rule_failure_message_condition(rep, fb, floor=40, name="ERRMSG.condition"):
    r = rep.rule(name, "`if (cond) return failure(\"a OP b\", ...)`: when the message of a kernel failure is itself a comparison, its operator is one the tested condition contains - "
                 "a message saying `index[i] >= len(content)` under a test `idx > lencontent` means the boundary case is no longer rejected (or is newly rejected)", floor=floor)
    funcs = []
    for p, tu in sorted(fb.kernel_tus().items()):
        funcs += [f for f in tu["funcs"] if not f["inst"]]
    for f in funcs:
        n = 0
        for s in find_all(f["body"], lambda k: k[0] == "if" and k[1][0] != "declcond"):
            if not s[2] or s[2][0][0] != "return" or s[2][0][1] is None:
                continue
            top = s[2][0][1]
            fails = [top] if (top[0] == "call" and top[1][0] == "fn" and str(top[1][1]).split("::")[-1] == "failure" and top[2] and top[2][0][0] == "const" and isinstance(top[2][0][1], str)) else []
            if not fails:
                continue
            msg = fails[0][2][0][1]
            mops = _MSG_OP.findall(msg)
            if len(mops) != 1:
                continue
            n += 1
            cops = {c[1] for c in find_all((s[1],), lambda k: k[0] == "bin" and k[1] in (">=", "<=", "!=", "==", ">", "<"))}
            # the condition may be written with the operands the other way round
            flip = {">": "<", "<": ">", ">=": "<=", "<=": ">=", "==": "==", "!=": "!="}
            ok = mops[0] in cops or flip[mops[0]] in cops
            if not ok and f["name"] in _ERRMSG_TABLE:
                r.excepted("%s#failure#%d" % (f["name"], n), _ERRMSG_TABLE[f["name"]])
                r.ok("%s#failure#%d" % (f["name"], n))
                continue
            r.check(ok, "%s#failure#%d" % (f["name"], n), "%s:%d" % (f["file"], s[-1]), "%s reports \"%s\" under a condition whose comparisons are %s" % (f["name"], msg, sorted(cops)), detail="message operator occurs in the condition")
    return r.done()


# ------------------------------------------------------------------------------------------------
# M-11  "missing" is any negative index

def rule_missing_predicate(rep, fb, floor=15, name="KSIB.missing-predicate"):
    r = rep.rule(name, "in the IndexedArray / IndexedOptionArray kernels an item is missing when its index is negative (any negative value; the library writes -1 but accepts every negative index as None): "
                 "index elements are tested with `< 0` / `>= 0`, never compared for equality with -1", floor=floor)
    funcs = []
    for p, tu in sorted(fb.kernel_tus().items()):
        funcs += [f for f in tu["funcs"] if not f["inst"] and "IndexedArray" in (f["name"] or "") or "IndexedOptionArray" in (f["name"] or "")]
    for f in funcs:
        if f["inst"]:
            continue
        idxparams = {p[0] for p in f["params"] if "index" in p[0].lower() and "*" in p[1]}
        if not idxparams:
            continue
        n = 0
        for c in find_all(f["body"], lambda k: k[0] == "bin" and k[1] in ("<", ">=", "==", "!=", ">", "<=")):
            sides = (c[2], c[3])
            el = [x for x in sides if x[0] == "idx" and x[1][0] == "var" and x[1][1] in idxparams]
            const = [x for x in sides if x[0] == "const" or (x[0] == "un" and x[1] == "-")]
            if not el or not const:
                continue
            n += 1
            cv = const[0][1] if const[0][0] == "const" else -1
            r.check(not (c[1] in ("==", "!=") and cv in (-1,)), "%s#index-test#%d" % (f["name"], n), "%s:%d" % (f["file"], f["line"]),
                    "%s tests an index element with `%s -1`: negative indexes other than -1 are no longer treated as missing" % (f["name"], c[1]), detail="sign test")
    return r.done()
