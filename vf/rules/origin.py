"""Rule family G (ORIGIN): zero-based offsets are only paired with trimmed content (and raw offsets with full content)."""
from ..facts import find_all
from .kspec import cexpr, unparse
from . import callsites as cs

LISTCLS = ("ListOffsetArrayOf", "ListArrayOf")


def _offsets_kind(e, defs, depth=0):
    if e is None or depth > 5:
        return None
    h = e[0]
    if h == "member" and e[1] == ("this",) and e[2] in ("offsets_", "starts_", "stops_"):
        return "RAW"
    if h == "mcall":
        if e[1] == "compact_offsets64":
            return "ZERO"
        if e[1] in ("offsets", "starts", "stops"):
            # .offsets() of toListOffsetArray64(true) is zero-based and goes with its own (trimmed) content
            if find_all((e[3],), lambda n: n[0] == "mcall" and n[1] == "toListOffsetArray64") or _is_compact_var(e[3], defs):
                return "ZERO"
            return None
        if e[1] in ("getitem_range_nowrap", "getitem_range") and _offsets_kind(e[3], defs, depth + 1) == "RAW":
            return "RAW"
        return None
    if h == "var":
        ks = set()
        for d in defs.get(e[1]) or []:
            ks.add(_offsets_kind(d[3], defs, depth + 1) if d[3] is not None else None)
        if len(ks) == 1:
            return ks.pop()
        return None
    if h in ("deref", "cast"):
        return _offsets_kind(e[1] if h == "deref" else e[3], defs, depth + 1)
    return None


def _is_compact_var(e, defs, depth=0):
    """expression denotes the ListOffsetArray64 produced by toListOffsetArray64(true) (through casts / raw pointers)"""
    if depth > 5 or e is None:
        return False
    if e[0] in ("deref",):
        return _is_compact_var(e[1], defs, depth + 1)
    if e[0] == "cast":
        return _is_compact_var(e[3], defs, depth + 1)
    if e[0] == "mcall" and e[1] == "toListOffsetArray64":
        return True
    if e[0] == "var":
        return any(d[3] is not None and _is_compact_var(d[3], defs, depth + 1) for d in (defs.get(e[1]) or []))
    return False


def _content_kind(e, defs, depth=0):
    if e is None or depth > 6:
        return None
    h = e[0]
    if h == "member" and e[1] == ("this",) and e[2] == "content_":
        return "FULL"
    if h in ("deref",):
        return _content_kind(e[1], defs, depth + 1)
    if h == "cast":
        return _content_kind(e[3], defs, depth + 1)
    if h == "mcall":
        name, recv = e[1], e[3]
        if name == "content":
            if _is_compact_var(recv, defs):
                return "TRIMMED"
            if recv == ("this",):
                return "FULL"
            return None
        base = _content_kind(recv, defs, depth + 1)
        if base is None:
            return None
        if name in ("getitem_range_nowrap", "getitem_range", "carry", "getitem_next", "getitem_next_jagged", "project"):
            return "TRIMMED" if name.startswith("getitem_range") and base == "FULL" else None
        # any other per-element method of the content keeps its indexing (num, localindex, rpad at a deeper axis, fillna, ...)
        return base
    if h == "var":
        ks = set()
        for d in defs.get(e[1]) or []:
            ks.add(_content_kind(d[3], defs, depth + 1) if d[3] is not None else None)
        if len(ks) == 1:
            return ks.pop()
        return None
    if h == "make" or h == "ctor":
        return None
    return None


def rule_origin(rep, fb, floor=6):
    r = rep.rule("ORIGIN.offsets-content", "in the list node classes, a list node is never constructed from zero-based offsets (compact_offsets64 / offsets of toListOffsetArray64(true)) together with "
                 "content indexed like the untrimmed content_, nor from the raw offsets_ together with trimmed content: a view's offsets need not start at 0", floor=floor)
    for f in fb.lib_funcs():
        if f["cls"] not in LISTCLS:
            continue

        def onblock(stmts, cont, f=f):
            for i, s in enumerate(stmts):
                for e in cs.head_exprs(s):
                    for n in find_all((e,), lambda n: n[0] in ("make", "ctor") and len(n) >= 3 and len(n[2]) >= 3):
                        t = str(n[1])
                        if not ("ListOffsetArray" in t or "ListArray" in t or t == "?"):
                            continue
                        defs = cs.scoped_defs(cs._PseudoSite(f, stmts, i, cont))
                        oks = [(_offsets_kind(a, defs), a) for a in n[2]]
                        cks = [(_content_kind(a, defs), a) for a in n[2]]
                        ok_ = [k for k, a in oks if k]
                        ck_ = [k for k, a in cks if k]
                        if not ok_ or not ck_:
                            continue
                        o, c = ok_[0], ck_[-1]
                        key = "%s::%s:%s+%s" % (f["cls"], f["name"], o, c)
                        bad = (o == "ZERO" and c == "FULL") or (o == "RAW" and c == "TRIMMED")
                        r.check(not bad, key, "%s:%d" % (f["file"], n[-1] if isinstance(n[-1], int) else f["line"]),
                                "%s::%s builds a list node from %s offsets and %s content (%s): lists after the first are misaligned when offsets_[0] != 0" % (
                                    f["cls"], f["name"], {"ZERO": "zero-based", "RAW": "raw (unshifted)"}[o], {"FULL": "untrimmed", "TRIMMED": "trimmed"}[c], unparse(cexpr(cks[[k for k, a in cks].index(c)][1]))[:60]),
                                detail="%s offsets with %s content" % (o, c))
        cs.each_block_cont(f["body"], onblock)
    return r.done()


NEXT_METHODS = ("reduce_next", "sort_next", "argsort_next")


def _derives_from_offsets(e):
    return bool(find_all((e,), lambda n: n == ("member", ("this",), "offsets_")))


def _is_rebase_guard(st):
    """if (offsets_.getitem_at_nowrap(0) != 0) { ... return <toListOffsetArray64(true)->same method>; }"""
    if st[0] != "if" or st[1][0] == "declcond":
        return False
    c = cexpr(st[1])
    test = bool(find_all((c,), lambda n: n[0] == "bin" and n[1] == "!=" and ("const", 0) in (n[2], n[3]) and find_all((n,), lambda k: k[0] == "mcall" and k[1] in ("getitem_at_nowrap", "getitem_at") and k[2] == ("member", ("this",), "offsets_"))))
    if not test or not st[2]:
        return False
    return st[2][-1][0] == "return" and bool(find_all(st[2], lambda n: n[0] == "mcall" and n[1] == "toListOffsetArray64"))


def _starts_values_unused(fb, method):
    """in every definition of `method`, the parameter `starts` is only forwarded (same-named call, same position), passed to another *_sort helper that is checked the same way, or asked for its length"""
    ok = True
    n = 0
    for f in fb.lib_funcs():
        if f["name"] != method:
            continue
        pn = [p[0] for p in f["params"]]
        if "starts" not in pn:
            continue
        n += 1
        uses = find_all(f["body"], lambda k: k == ("var", "starts"))
        allowed = 0
        for m in find_all(f["body"], lambda k: k[0] == "mcall" and k[1] in ("length",) and k[3] == ("var", "starts")):
            allowed += 1
        for m in find_all(f["body"], lambda k: k[0] == "mcall" and k[1] == method):
            allowed += sum(1 for a in m[4] if a == ("var", "starts"))
        if allowed < len(uses):
            ok = False
    return ok and n > 0


def rule_rebase(rep, fb, floor=3):
    r = rep.rule("ORIGIN.rebase-guard", "in the list-offset node's reduce_next/sort_next/argsort_next, a recursive call on content trimmed to [globalstart, globalstop) that also passes values derived from offsets_ "
                 "(util::make_starts(offsets_)) is dominated by the rebase guard `if (offsets_[0] != 0) return toListOffsetArray64(true)->...`; and that receiver is the trimmed content on every path", floor=floor)
    unused = {m: _starts_values_unused(fb, m) for m in NEXT_METHODS}
    for m_, u in unused.items():
        if u:
            r.ok("starts-values-unused:" + m_, "no definition of %s reads the values of 'starts' (only its length / forwarding): the rebase guard is not needed for it" % m_)
    for f in fb.lib_funcs():
        if f["cls"] != "ListOffsetArrayOf" or f["name"] not in NEXT_METHODS:
            continue

        def onblock(stmts, cont, f=f):
            for i, s in enumerate(stmts):
                for e in cs.head_exprs(s):
                    for m in find_all((e,), lambda n: n[0] == "mcall" and n[1] == f["name"]):
                        defs = cs.scoped_defs(cs._PseudoSite(f, stmts, i, cont))
                        recv = m[3]
                        while recv[0] == "deref":
                            recv = recv[1]
                        if recv[0] != "var":
                            continue
                        ds = defs.get(recv[1]) or []
                        kinds = [(_content_kind(d[3], defs) if d[3] is not None else None) for d in ds]
                        if "TRIMMED" not in kinds:
                            continue
                        key = "%s::%s->%s" % (f["cls"], f["name"], recv[1])
                        where = "%s:%d" % (f["file"], m[-1])
                        r.check(all(k == "TRIMMED" for k in kinds), key + ":trimmed-on-all-paths", where,
                                "%s::%s recurses into '%s', which is the trimmed content on one path but %s on another; the parents/starts passed with it are sized for the trimmed range" % (f["cls"], f["name"], recv[1], [k for k in kinds if k != "TRIMMED"]),
                                detail="receiver is content_[globalstart:globalstop) on every path")
                        if any(_derives_from_offsets(a) for a in m[4]) and not unused[f["name"]]:
                            dominated = False
                            for blk, idx in [(stmts, i)] + [(pb, pi) for pb, pi, pk in cont]:
                                if any(_is_rebase_guard(st) for st in blk[:idx]):
                                    dominated = True
                            r.check(dominated, key + ":rebase-guard", where,
                                    "%s::%s passes offsets_-derived starts together with zero-based trimmed content, but the call is not dominated by the `offsets_[0] != 0 -> toListOffsetArray64(true)` rebase guard" % (f["cls"], f["name"]),
                                    detail="dominated by the rebase guard")
        cs.each_block_cont(f["body"], onblock)
    return r.done()


def rule_merge_regular(rep, fb):
    r = rep.rule("ORIGIN.merge-regular", "ListArray::mergemany merges a RegularArray's own content_ but advances the content base by the length of the content of toListOffsetArray64(true); "
                 "while it does so, RegularArray::toListOffsetArray64/broadcast_tooffsets64 must return its content_ untrimmed (same length), otherwise every array merged after it is misaligned", floor=1)
    mm = [f for f in fb.lib_funcs() if f["cls"] == "ListArrayOf" and f["name"] == "mergemany"]
    if not mm:
        from ..core import AnalysisError
        raise AnalysisError("ListArrayOf::mergemany not found")
    f = mm[0]
    # (a) does mergemany depend on the conversion keeping the content?
    pushes_own = False
    advances_converted = False
    for iff in find_all(f["body"], lambda n: n[0] == "if" and isinstance(n[-1], int) and n[1][0] == "declcond" and "RegularArray" in str(n[1][2])):
        var = iff[1][1]
        if find_all(iff[2], lambda n: n[0] == "mcall" and n[1] == "push_back" and find_all((n[4],), lambda k: k[0] == "mcall" and k[1] == "content" and find_all((k[3],), lambda q: q == ("var", var)))):
            pushes_own = True
        conv = find_all(iff[2], lambda n: n[0] == "mcall" and n[1] == "toListOffsetArray64" and find_all((n[3],), lambda q: q == ("var", var)))
        adv = find_all(iff[2], lambda n: n[0] == "aug" and n[1] == "+" and "contentlength" in repr(n[2]) and find_all((n[3],), lambda k: k[0] == "mcall" and k[1] == "content"))
        if conv and adv and not find_all((adv[0][3],), lambda q: q == ("var", var)):
            advances_converted = True
    where = "%s:%d" % (f["file"], f["line"])
    if not (pushes_own and advances_converted):
        r.ok("mergemany-independent", "ListArray::mergemany does not (any longer) mix the RegularArray's own content with the converted node's content length")
        return r.done()
    r.ok("mergemany-depends", "dependency present: own content merged, converted content's length advances the base")
    for g in fb.lib_funcs():
        if g["cls"] != "RegularArray" or g["name"] != "broadcast_tooffsets64":
            continue
        n = 0

        def visit(stmts, size1):
            nonlocal n
            for st in stmts:
                if st[0] == "if" and st[1][0] != "declcond":
                    c = cexpr(st[1])
                    is1 = c in (("bin", "==", ("const", 1), ("member", ("this",), "size_")), ("bin", "==", ("member", ("this",), "size_"), ("const", 1)))
                    visit(st[2], size1 or is1)
                    visit(st[3], size1)
                    continue
                for b_ in cs.sub_blocks(st):
                    visit(b_, size1)
                for node in find_all((st,), lambda k: k[0] in ("make", "ctor") and len(k) >= 3 and "ListOffsetArray" in str(k[1]) and len(k[2]) >= 4):
                    n += 1
                    key = "RegularArray::broadcast_tooffsets64#%d" % n
                    if size1:
                        r.ok(key, "under size_ == 1: the content has exactly length() elements, any same-length rearrangement is fine")
                        continue
                    own = any(a == ("member", ("this",), "content_") for a in node[2])
                    r.check(own, key, "%s:%d" % (g["file"], node[-1] if isinstance(node[-1], int) else g["line"]),
                            "RegularArray::broadcast_tooffsets64 returns a list node whose content is not content_ itself, but ListArray::mergemany (%s) advances its content base by that node's content length while merging content_" % where,
                            detail="content_ passed through unchanged")
        visit(g["body"], False)
    return r.done()
