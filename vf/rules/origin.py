"""Rule family G (ORIGIN): zero-based offsets are only paired with trimmed content (and raw offsets with full content)."""
from ..facts import find_all
from .kspec import cexpr, unparse
from . import callsites as cs

LISTCLS = ("ListOffsetArrayOf", "ListArrayOf")


def _offsets_kind(e, defs, depth=0):
    if e is None or depth > 5:
        return None
    h = e[0]
    if h == "member" and e[1] == ("this",) and e[2] in ("offsets_", "starts_", "stops_"):
        return "RAW"
    if h == "mcall":
        if e[1] == "compact_offsets64":
            return "ZERO"
        if e[1] in ("offsets", "starts", "stops"):
            # .offsets() of toListOffsetArray64(true) is zero-based and goes with its own (trimmed) content
            if find_all((e[3],), lambda n: n[0] == "mcall" and n[1] == "toListOffsetArray64") or _is_compact_var(e[3], defs):
                return "ZERO"
            return None
        if e[1] in ("getitem_range_nowrap", "getitem_range") and _offsets_kind(e[3], defs, depth + 1) == "RAW":
            return "RAW"
        return None
    if h == "var":
        ks = set()
        for d in defs.get(e[1]) or []:
            ks.add(_offsets_kind(d[3], defs, depth + 1) if d[3] is not None else None)
        if len(ks) == 1:
            return ks.pop()
        return None
    if h in ("deref", "cast"):
        return _offsets_kind(e[1] if h == "deref" else e[3], defs, depth + 1)
    return None


def _is_compact_var(e, defs, depth=0):
    """expression denotes the ListOffsetArray64 produced by toListOffsetArray64(true) (through casts / raw pointers)"""
    if depth > 5 or e is None:
        return False
    if e[0] in ("deref",):
        return _is_compact_var(e[1], defs, depth + 1)
    if e[0] == "cast":
        return _is_compact_var(e[3], defs, depth + 1)
    if e[0] == "mcall" and e[1] == "toListOffsetArray64":
        return True
    if e[0] == "var":
        return any(d[3] is not None and _is_compact_var(d[3], defs, depth + 1) for d in (defs.get(e[1]) or []))
    return False


def _content_kind(e, defs, depth=0):
    if e is None or depth > 6:
        return None
    h = e[0]
    if h == "member" and e[1] == ("this",) and e[2] == "content_":
        return "FULL"
    if h in ("deref",):
        return _content_kind(e[1], defs, depth + 1)
    if h == "cast":
        return _content_kind(e[3], defs, depth + 1)
    if h == "mcall":
        name, recv = e[1], e[3]
        if name == "content":
            if _is_compact_var(recv, defs):
                return "TRIMMED"
            if recv == ("this",):
                return "FULL"
            return None
        base = _content_kind(recv, defs, depth + 1)
        if base is None:
            return None
        if name in ("getitem_range_nowrap", "getitem_range", "carry", "getitem_next", "getitem_next_jagged", "project"):
            return "TRIMMED" if name.startswith("getitem_range") and base == "FULL" else None
        # any other per-element method of the content keeps its indexing (num, localindex, rpad at a deeper axis, fillna, ...)
        return base
    if h == "var":
        ks = set()
        for d in defs.get(e[1]) or []:
            ks.add(_content_kind(d[3], defs, depth + 1) if d[3] is not None else None)
        if len(ks) == 1:
            return ks.pop()
        return None
    if h == "make" or h == "ctor":
        return None
    return None


def rule_origin(rep, fb, floor=6):
    r = rep.rule("ORIGIN.offsets-content", "in the list node classes, a list node is never constructed from zero-based offsets (compact_offsets64 / offsets of toListOffsetArray64(true)) together with "
                 "content indexed like the untrimmed content_, nor from the raw offsets_ together with trimmed content: a view's offsets need not start at 0", floor=floor)
    for f in fb.lib_funcs():
        if f["cls"] not in LISTCLS:
            continue

        def onblock(stmts, cont, f=f):
            for i, s in enumerate(stmts):
                for e in cs.head_exprs(s):
                    for n in find_all((e,), lambda n: n[0] in ("make", "ctor") and len(n) >= 3 and len(n[2]) >= 3):
                        t = str(n[1])
                        if not ("ListOffsetArray" in t or "ListArray" in t or t == "?"):
                            continue
                        defs = cs.scoped_defs(cs._PseudoSite(f, stmts, i, cont))
                        oks = [(_offsets_kind(a, defs), a) for a in n[2]]
                        cks = [(_content_kind(a, defs), a) for a in n[2]]
                        ok_ = [k for k, a in oks if k]
                        ck_ = [k for k, a in cks if k]
                        if not ok_ or not ck_:
                            continue
                        o, c = ok_[0], ck_[-1]
                        key = "%s::%s:%s+%s" % (f["cls"], f["name"], o, c)
                        bad = (o == "ZERO" and c == "FULL") or (o == "RAW" and c == "TRIMMED")
                        r.check(not bad, key, "%s:%d" % (f["file"], n[-1] if isinstance(n[-1], int) else f["line"]),
                                "%s::%s builds a list node from %s offsets and %s content (%s): lists after the first are misaligned when offsets_[0] != 0" % (
                                    f["cls"], f["name"], {"ZERO": "zero-based", "RAW": "raw (unshifted)"}[o], {"FULL": "untrimmed", "TRIMMED": "trimmed"}[c], unparse(cexpr(cks[[k for k, a in cks].index(c)][1]))[:60]),
                                detail="%s offsets with %s content" % (o, c))
        cs.each_block_cont(f["body"], onblock)
    return r.done()
