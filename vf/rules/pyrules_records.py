"""Python-side clauses of C10 (with_field / unzip / to_list for records)."""
import ast
from .. import pyfront as pf


def run(rep):
    r = rep.rule("RECORD.py-with_field", "with_field broadcasts [base, what] with right_broadcast=False, removes only the replaced key (under `where in base.keys()`), "
                 "builds one RecordArray and keeps base.parameters (record name)", floor=5)
    m = pf.module("operations/structure.py")
    f = m.func("with_field")
    where = m.where(f)
    # right_broadcast=False on the broadcast_and_apply call
    calls = [c for c in ast.walk(f) if isinstance(c, ast.Call) and (pf.dotted(c.func) or "").endswith("broadcast_and_apply")]
    r.check(len(calls) >= 1, "with_field:broadcast", where, "with_field does not call broadcast_and_apply")
    for c in calls:
        kw = {k.arg: k.value for k in c.keywords}
        rb = kw.get("right_broadcast")
        r.check(isinstance(rb, ast.Constant) and rb.value is False, "with_field:right_broadcast", m.where(c), "with_field's broadcast_and_apply is not called with right_broadcast=False", detail="right_broadcast=False")
        a0 = c.args[0] if c.args else None
        r.check(isinstance(a0, ast.List) and [getattr(e, "id", None) for e in a0.elts] == ["base", "what"], "with_field:inputs", m.where(c), "with_field broadcasts %s instead of [base, what]" % (ast.unparse(a0) if a0 is not None else None))
    # keys.remove(where) guarded by `where in base.keys()`
    rem = [c for c in ast.walk(f) if isinstance(c, ast.Call) and isinstance(c.func, ast.Attribute) and c.func.attr == "remove" and pf.dotted(c.func.value) == "keys"]
    okrem = False
    for c in rem:
        if len(c.args) == 1 and isinstance(c.args[0], ast.Name) and c.args[0].id == "where":
            for test, inbody in pf.enclosing_tests(c):
                if inbody and isinstance(test, ast.Compare) and isinstance(test.ops[0], ast.In) and isinstance(test.left, ast.Name) and test.left.id == "where":
                    okrem = True
    r.check(okrem and len(rem) == 1, "with_field:remove", where, "with_field does not remove exactly the replaced key under `if where in base.keys()`", detail="if where in base.keys(): keys.remove(where)")
    # the RecordArray built inside getfunction
    g = m.func("with_field.getfunction")
    recs = [c for c in ast.walk(g) if isinstance(c, ast.Call) and (pf.dotted(c.func) or "").endswith("RecordArray")]
    r.check(len(recs) == 1, "with_field:one-record", m.where(g), "with_field.getfunction builds %d RecordArrays (expected 1)" % len(recs))
    for c in recs:
        kw = {k.arg: ast.unparse(k.value) for k in c.keywords}
        r.check(kw.get("parameters") == "base.parameters", "with_field:parameters", m.where(c), "with_field builds the record with parameters=%s (expected base.parameters: the record name must be kept)" % kw.get("parameters"),
                detail="parameters=base.parameters")
    return r.done()
