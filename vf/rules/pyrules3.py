"""Python-side rules written from the eighth batch of seeded changes (2026-10-05): unused results, duplicated operands,
raw axis after wrapping, keyword forwarding in recursion, transform recursion shape, sibling lookups, numba partition cursor."""
import ast
import re
from .. import pyfront as pf
from ..core import AnalysisError, load_table


def _mods():
    return [x for x in pf.all_modules() if "generated_parser" not in x]


def _owner_func(n):
    for p in pf.parent_chain(n):
        if isinstance(p, (ast.FunctionDef, ast.AsyncFunctionDef, ast.Lambda)):
            return p
    return None


def _funcs(tree):
    for n in ast.walk(tree):
        if isinstance(n, (ast.FunctionDef, ast.AsyncFunctionDef)):
            yield n


def _own_nodes(fn):
    """nodes of fn's body, nested function bodies included (closures read the enclosing locals)"""
    for s in fn.body:
        for n in ast.walk(s):
            yield n


# ------------------------------------------------------------------------------------------------
# a value computed into a local is used

def rule_py_unused_local(rep, floor=3000):
    r = rep.rule("DEAD.py-unused-local", "a local name bound by an assignment (also as one target of a tuple assignment from a call) is read somewhere in its function, nested functions included, or is "
                 "deliberately named `_`/`_x`: a computed value that nobody reads means the code after it uses something else where this value was meant (the partition-relative index, the per-partition cache key) - "
                 "names in tables/py_unused_local_exceptions.json are accepted with a reason", floor=floor)
    table = load_table("py_unused_local_exceptions.json")
    for rel in _mods():
        m = pf.module(rel)
        for fn in _funcs(m.tree):
            # names declared global/nonlocal are not locals
            outer = set()
            for n in _own_nodes(fn):
                if isinstance(n, (ast.Global, ast.Nonlocal)):
                    outer.update(n.names)
            loads = set()
            for n in _own_nodes(fn):
                if isinstance(n, ast.Name) and isinstance(n.ctx, (ast.Load, ast.Del)):
                    loads.add(n.id)
                elif isinstance(n, ast.AugAssign) and isinstance(n.target, ast.Name):
                    loads.add(n.target.id) if False else None
            # `x += 1` reads x, but only for the next store; count it as a read only if something else reads x too (handled by loads)
            # locals() / vars() / eval make every name live
            dynamic = any(isinstance(n, ast.Call) and isinstance(n.func, ast.Name) and n.func.id in ("locals", "vars", "eval", "exec") for n in _own_nodes(fn))
            stores = {}
            for s in ast.walk(fn):
                if _owner_func(s) is not fn and s is not fn:
                    # stores in nested functions belong to them
                    if not (isinstance(s, ast.Name) and _owner_func(s) is fn):
                        continue
                if isinstance(s, ast.Assign):
                    for t in s.targets:
                        els = t.elts if isinstance(t, (ast.Tuple, ast.List)) else [t]
                        for e in els:
                            if isinstance(e, ast.Starred):
                                e = e.value
                            if isinstance(e, ast.Name) and _owner_func(s) is fn:
                                stores.setdefault(e.id, []).append((s, isinstance(t, (ast.Tuple, ast.List))))
                elif isinstance(s, ast.AnnAssign) and isinstance(s.target, ast.Name) and s.value is not None and _owner_func(s) is fn:
                    stores.setdefault(s.target.id, []).append((s, False))
            for name, sts in sorted(stores.items()):
                if name.startswith("_") or name in outer or name in ("__tracebackhide__",):
                    continue
                key = "%s:%s#%s" % (rel, fn.name, name)
                if name in loads or dynamic:
                    r.ok(key, "read")
                    continue
                # a tuple target next to others that are read is the usual way of dropping part of a result: accepted only when tabled or
                # when the right-hand side is not a call (swaps, constants)
                s0, intuple = sts[0]
                if intuple and not isinstance(s0.value, ast.Call):
                    r.ok(key, "part of a non-call tuple assignment")
                    continue
                if key in table:
                    r.excepted(key, table[key])
                    continue
                line = m.src.splitlines()[s0.lineno - 1] if s0.lineno - 1 < len(m.src.splitlines()) else ""
                if "noqa: F841" in line:
                    r.excepted(key, "the author marks the unused binding deliberately (# noqa: F841: the object is only kept alive / probed for existence)")
                    continue
                if any(isinstance(p, ast.ClassDef) for p in pf.parent_chain(s0) if p is not fn and not any(q is p for q in pf.parent_chain(fn))):
                    r.ok(key, "class attribute of a nested class")
                    continue
                r.fail(key, m.where(s0), "%s: %s binds `%s` (%s) and never reads it" % (rel, fn.name, name, ast.unparse(s0)[:70].replace("\n", " ")))
    return r.done()


# ------------------------------------------------------------------------------------------------
# the two sides of `and` / `or` / a comparison are different expressions

def rule_py_duplicate_operand(rep, floor=500):
    r = rep.rule("DEAD.py-duplicate-operand", "no `and`/`or` in the Python layer has two identical operands and no comparison has identical sides (`a in keys and a in keys`, `x == x` outside a NaN test): "
                 "the second one was meant to name the other thing (the imaginary-part key), and the test accepts inputs it should refuse", floor=floor)
    for rel in _mods():
        m = pf.module(rel)
        k = 0
        for n in ast.walk(m.tree):
            if isinstance(n, ast.BoolOp):
                k += 1
                seen = {}
                dup = None
                for v in n.values:
                    d = ast.dump(v)
                    if d in seen and not any(isinstance(x, ast.Call) for x in ast.walk(v)):
                        dup = v
                    seen[d] = v
                fn = _owner_func(n)
                r.check(dup is None, "%s:%s#bool%d" % (rel, getattr(fn, "name", "<module>"), k), m.where(n),
                        "%s: `%s` names the same operand twice" % (rel, ast.unparse(n)[:90]) if dup is not None else "", detail="distinct operands")
            elif isinstance(n, ast.Compare) and len(n.ops) == 1 and not isinstance(n.ops[0], (ast.Is, ast.IsNot)):
                if ast.dump(n.left) == ast.dump(n.comparators[0]) and not any(isinstance(x, ast.Call) for x in ast.walk(n.left)):
                    k += 1
                    fn = _owner_func(n)
                    # x != x / x == x is the NaN idiom on floats: accepted only inside functions whose name says so
                    nanish = isinstance(n.ops[0], (ast.Eq, ast.NotEq)) and re.search(r"nan", getattr(fn, "name", "") or "", re.I)
                    r.check(bool(nanish), "%s:%s#cmp%d" % (rel, getattr(fn, "name", "<module>"), k), m.where(n), "%s: `%s` compares an expression with itself" % (rel, ast.unparse(n)[:80]), detail="NaN idiom")
    return r.done()


# ------------------------------------------------------------------------------------------------
# once the axis has been wrapped, the raw one is not computed with

def rule_py_raw_axis(rep, floor=20):
    r = rep.rule("AXIS.py-wrapped", "(a) in a function that has bound `posaxis` from `<layout>.axis_wrap_if_negative(axis)`, the raw `axis` is no longer an operand of arithmetic or of an ordering/equality "
                 "comparison with a number (a negative axis would be used as it is); it may still be passed on, formatted into messages, or compared with None; "
                 "(b) a method of PartitionedArray with an `axis` parameter decides between the whole-array path and the per-partition path on `first(self).axis_wrap_if_negative(axis) == 0`, never on the raw axis - "
                 "sites in tables/py_rawaxis_exceptions.json are accepted with a reason", floor=floor)
    table = load_table("py_rawaxis_exceptions.json")

    def is_axis(n):
        return isinstance(n, ast.Name) and n.id == "axis"

    def numeric_cmp(n):
        return isinstance(n, ast.Compare) and len(n.ops) == 1 and isinstance(n.ops[0], (ast.Eq, ast.NotEq, ast.Lt, ast.LtE, ast.Gt, ast.GtE)) and (
            (is_axis(n.left) and not (isinstance(n.comparators[0], ast.Constant) and n.comparators[0].value is None)) or is_axis(n.comparators[0]))
    for rel in _mods():
        m = pf.module(rel)
        for fn in _funcs(m.tree):
            pos, kwo, var, kw = pf.params_of(fn)
            # the function (or an enclosing one) has an `axis` parameter
            has_axis = "axis" in pos + kwo or any("axis" in (pf.params_of(p)[0] + pf.params_of(p)[1]) for p in pf.parent_chain(fn) if isinstance(p, ast.FunctionDef))
            if not has_axis:
                continue
            incls = [p for p in pf.parent_chain(fn) if isinstance(p, ast.ClassDef)]
            partitioned = bool(incls) and incls[0].name == "PartitionedArray" and "axis" in pos + kwo
            wraps = [s for s in ast.walk(fn) if isinstance(s, ast.Assign) and _owner_func(s) is fn and any(isinstance(t, ast.Name) and t.id == "posaxis" for t in s.targets)
                     and any(isinstance(c, ast.Call) and isinstance(c.func, ast.Attribute) and c.func.attr == "axis_wrap_if_negative" and any(is_axis(a) for a in c.args) for c in ast.walk(s.value))]
            if not wraps and not partitioned:
                continue
            first_wrap = min((s.lineno for s in wraps), default=None)
            k = 0
            for n in ast.walk(fn):
                if _owner_func(n) is not fn:
                    # nested functions are visited on their own turn only if they bind posaxis themselves; closures over a wrapped axis count here
                    of = _owner_func(n)
                    if of is None or not any(p is fn for p in pf.parent_chain(of)):
                        continue
                bad = None
                if isinstance(n, ast.BinOp) and (is_axis(n.left) or is_axis(n.right)) and isinstance(n.op, (ast.Add, ast.Sub, ast.Mult, ast.FloorDiv, ast.Mod)):
                    # string formatting `"..." % axis` is not arithmetic
                    if not (isinstance(n.op, ast.Mod) and isinstance(n.left, ast.Constant) and isinstance(n.left.value, str)):
                        bad = n
                elif numeric_cmp(n):
                    bad = n
                if bad is None:
                    continue
                if first_wrap is not None and n.lineno < first_wrap and not partitioned:
                    continue
                # `axis == 0 or X.axis_wrap_if_negative(axis) == 0` : the raw test is a shortcut next to the wrapped one
                par = getattr(n, "_parent", None)
                if isinstance(par, ast.BoolOp) and isinstance(par.op, ast.Or) and any(isinstance(c, ast.Call) and isinstance(c.func, ast.Attribute) and c.func.attr == "axis_wrap_if_negative" for v in par.values for c in ast.walk(v)):
                    continue
                k += 1
                key = "%s:%s#%s" % (rel, fn.name, re.sub(r"\s+", "", ast.unparse(bad))[:50])
                if key in table:
                    r.excepted(key, table[key])
                    continue
                r.fail(key, m.where(bad), "%s: %s computes with the raw `axis` (`%s`) although %s" % (rel, fn.name, ast.unparse(bad)[:60],
                       "the wrapped posaxis is in scope" if wraps else "PartitionedArray methods branch on first(self).axis_wrap_if_negative(axis)"))
            if partitioned:
                # positive part: the branch exists and is the wrapped form
                tests = [t for t in ast.walk(fn) if isinstance(t, ast.If) and any(isinstance(c, ast.Call) and isinstance(c.func, ast.Attribute) and c.func.attr == "axis_wrap_if_negative" for c in ast.walk(t.test))]
                callsboth = any(isinstance(c, ast.Call) and isinstance(c.func, ast.Attribute) and c.func.attr == "toContent" for c in ast.walk(fn)) and any(
                    isinstance(c, ast.Call) and isinstance(c.func, ast.Attribute) and c.func.attr in ("replace_partitions",) for c in ast.walk(fn))
                if callsboth and ("%s:PartitionedArray.%s#branch" % (rel, fn.name)) in table:
                    r.excepted("%s:PartitionedArray.%s#branch" % (rel, fn.name), table["%s:PartitionedArray.%s#branch" % (rel, fn.name)])
                elif callsboth:
                    r.check(bool(tests), "%s:PartitionedArray.%s#branch" % (rel, fn.name), m.where(fn), "%s: PartitionedArray.%s chooses between toContent() and the per-partition path without wrapping the axis" % (rel, fn.name), detail="wrapped axis decides")
            elif wraps:
                r.ok("%s:%s#wrapped" % (rel, fn.name), "raw axis not computed with after the wrap")
    return r.done()


# ------------------------------------------------------------------------------------------------
# a recursive call hands every option on

def rule_py_recursion_keywords(rep, floor=20):
    r = rep.rule("FORWARD.py-recursion-keywords", "a function that calls itself and hands one of its own keyword-defaulted parameters on under its own name (`exception=exception`) at two or more of its recursive calls "
                 "hands it on at all of them: a recursive call that omits it silently continues with the default (the caller asked for an exception and gets a string) - "
                 "sites in tables/py_recursion_exceptions.json (shared with SHAPE.py-call) are accepted", floor=floor)
    table = load_table("py_recursion_exceptions.json")
    for rel in _mods():
        m = pf.module(rel)
        for fn in _funcs(m.tree):
            a = fn.args
            defaults = {}
            names = [x.arg for x in a.posonlyargs + a.args]
            for nm, d in zip(names[len(names) - len(a.defaults):], a.defaults):
                defaults[nm] = d
            for x, d in zip(a.kwonlyargs, a.kw_defaults):
                if d is not None:
                    defaults[x.arg] = d
            if not defaults:
                continue
            calls = [c for c in ast.walk(fn) if isinstance(c, ast.Call) and isinstance(c.func, ast.Name) and c.func.id == fn.name and _owner_func(c) is fn]
            # methods: self.<name>(...)
            calls += [c for c in ast.walk(fn) if isinstance(c, ast.Call) and isinstance(c.func, ast.Attribute) and c.func.attr == fn.name and isinstance(c.func.value, ast.Name) and c.func.value.id == "self" and _owner_func(c) is fn]
            if len(calls) < 3:
                continue
            for p in defaults:
                pi = names.index(p) if p in names else None
                if names and names[0] in ("self", "cls") and pi is not None:
                    pi -= 1

                def passed(c):
                    for kw in c.keywords:
                        if kw.arg == p:
                            return kw.value
                        if kw.arg is None:
                            return kw.value
                    if pi is not None and len(c.args) > pi and not any(isinstance(x, ast.Starred) for x in c.args[:pi + 1]):
                        return c.args[pi]
                    if any(isinstance(x, ast.Starred) for x in c.args):
                        return c.args[-1]
                    return None
                fwd = [c for c in calls if isinstance(passed(c), ast.Name) and passed(c).id == p]
                if len(fwd) < 2:
                    continue
                for c in calls:
                    v = passed(c)
                    key = "%s:%s(%s)" % (rel, fn.name, p)
                    site = re.sub(r"\s+", "", ast.unparse(c))
                    if v is None:
                        if key in table and site in table[key].get("sites", []):
                            r.excepted(key + "@" + site[:40], table[key]["reason"])
                            continue
                        r.fail("%s@%d" % (key, c.lineno), m.where(c), "%s: %s calls itself without `%s` (`%s`) although %d other recursive calls hand it on: this branch continues with the default" % (
                            rel, fn.name, p, ast.unparse(c)[:70].replace("\n", " "), len(fwd)))
                    else:
                        r.ok("%s@%d" % (key, c.lineno), "handed on")
    return r.done()


# ------------------------------------------------------------------------------------------------
# a transform either returns the node as it is, rebuilds it, or descends

def rule_py_transform_returns(rep, floor=6):
    r = rep.rule("REC.py-transform-descends", "a function that recurses through ak._util.transform_child_layouts (it passes itself as the transform) returns, on every path, the node itself, a node it constructs, the result "
                 "of transform_child_layouts, or the result of the user's callback: it never returns the result of a per-node helper (`return maybe_fillna(layout)`) - records, unions and indexed nodes do not add depth, "
                 "so the children of the node just treated are at the same level and must still be visited", floor=floor)
    for rel in _mods():
        m = pf.module(rel)
        for fn in _funcs(m.tree):
            selfrec = [c for c in ast.walk(fn) if isinstance(c, ast.Call) and (pf.dotted(c.func) or "").endswith("transform_child_layouts") and c.args and isinstance(c.args[0], ast.Name) and c.args[0].id == fn.name]
            if not selfrec:
                continue
            pos = pf.params_of(fn)[0]
            node = pos[0] if pos else "layout"
            k = 0
            for s in ast.walk(fn):
                if not isinstance(s, ast.Return) or _owner_func(s) is not fn or s.value is None:
                    continue
                k += 1
                v = s.value
                ok = False
                why = ""
                if isinstance(v, ast.Name) and v.id == node:
                    ok, why = True, "node unchanged"
                elif isinstance(v, ast.Call):
                    d = pf.dotted(v.func) or ""
                    if d.endswith("transform_child_layouts"):
                        ok, why = True, "descends"
                    elif d.startswith("ak.layout.") or d.startswith("ak.partition."):
                        ok, why = True, "constructs a node"
                    elif isinstance(v.func, ast.Name) and v.func.id in ("custom",):
                        ok, why = True, "user callback"
                r.check(ok, "%s:%s#return%d" % (rel, fn.name, k), m.where(s), "%s: %s returns `%s`: the node's children at the same depth are not visited" % (rel, fn.name, ast.unparse(v)[:60]), detail=why)
    return r.done()


# ------------------------------------------------------------------------------------------------
# lookups of a position in an offsets array use one idiom per function

def rule_py_searchsorted_siblings(rep, floor=1):
    r = rep.rule("SIBLING.py-offset-lookup", "within one function, the searchsorted calls that look a length or an offset up in an offsets array (`searchsorted(<..offsets..>, x, side=...)`) agree on `side` and on the "
                 "`- 1` correction: `side=\"right\") - 1` finds the LAST list boundary equal to x, which matters exactly when the last lists are empty; a sibling written the other way is a slip", floor=floor)
    for rel in _mods():
        m = pf.module(rel)
        for fn in _funcs(m.tree):
            if any(isinstance(p, (ast.FunctionDef, ast.AsyncFunctionDef)) for p in pf.parent_chain(fn)):
                continue   # nested helpers are compared within their outermost function
            sites = []
            for c in ast.walk(fn):
                if isinstance(c, ast.Call) and isinstance(c.func, ast.Attribute) and c.func.attr == "searchsorted" and c.args and "offsets" in ast.unparse(c.args[0]):
                    side = next((kw.value.value for kw in c.keywords if kw.arg == "side" and isinstance(kw.value, ast.Constant)), "left")
                    # `- 1` anywhere up the expression that contains the call
                    minus = False
                    x = c
                    for p in pf.parent_chain(c):
                        if isinstance(p, ast.BinOp) and isinstance(p.op, ast.Sub) and isinstance(p.right, ast.Constant) and p.right.value == 1:
                            minus = True
                        if isinstance(p, ast.stmt):
                            break
                    sites.append((c, side, minus))
            if len(sites) < 2:
                continue
            kinds = set((s, mi) for _, s, mi in sites)
            for c, s, mi in sites:
                r.check(len(kinds) == 1, "%s:%s@%d" % (rel, fn.name, c.lineno) if len(kinds) > 1 else "%s:%s#lookup%d" % (rel, fn.name, sites.index((c, s, mi)) + 1), m.where(c),
                        "%s: %s looks positions up in offsets with side=%r%s here and differently elsewhere in the same function (%s)" % (rel, fn.name, s, " - 1" if mi else "", sorted(kinds)), detail="side=%r%s" % (s, " - 1" if mi else ""))
    return r.done()


# ------------------------------------------------------------------------------------------------
# the partition cursor of a numba view and the cached view of that partition travel together

def rule_py_numba_partition_cursor(rep, floor=3):
    r = rep.rule("PAIR.py-numba-partition-cursor", "in _connect/_numba/arrayview.py, a function that fills both `.partitionid` and `.view` of a new PartitionedView proxy takes them from the same place: both loaded from the "
                 "source proxy (`builder.load(src.partitionid)`, `builder.load(src.view)`), or the constant 0 together with a view freshly fetched for partition 0; a copied view under a reset cursor makes "
                 "the next element access skip the partition search and read the wrong partition", floor=floor)
    m = pf.module("_connect/_numba/arrayview.py")
    n = 0
    for fn in _funcs(m.tree):
        asg = {}
        for s in ast.walk(fn):
            if isinstance(s, ast.Assign) and len(s.targets) == 1 and isinstance(s.targets[0], ast.Attribute) and s.targets[0].attr in ("partitionid", "view") and isinstance(s.targets[0].value, ast.Name):
                asg.setdefault(s.targets[0].value.id, {})[s.targets[0].attr] = s
        for proxy, d in asg.items():
            if "partitionid" not in d or "view" not in d:
                continue
            n += 1

            def source(s):
                """('load', src) if the stored value is builder.load(src.<attr>), ('const0',) for the constant 0, else ('other',)"""
                txt = ast.unparse(s.value)
                if "lower_get_partitionid" in txt:
                    return ("fresh",)
                mm = re.search(r"builder\.load\((\w+)\.(partitionid|view)\)", txt)
                if mm:
                    return ("load", mm.group(1))
                names = [x.id for x in ast.walk(s.value) if isinstance(x, ast.Name)]
                if "get_constant" in txt and re.search(r",\s*0\)", txt):
                    return ("const0",)
                # a local that was bound to the constant 0 just before
                for nm in names:
                    for t in ast.walk(fn):
                        if isinstance(t, ast.Assign) and any(isinstance(x, ast.Name) and x.id == nm for x in t.targets) and "get_constant" in ast.unparse(t.value) and re.search(r",\s*0\)", ast.unparse(t.value)):
                            return ("const0",)
                return ("other",)
            sp, sv = source(d["partitionid"]), source(d["view"])
            if sp[0] == "load":
                ok = sv == sp
            elif sp[0] == "const0":
                ok = sv[0] == "fresh"      # a freshly fetched view, not a copy of the source's cached one
            else:
                ok = True
            r.check(ok, "arrayview.py:%s#%s" % (fn.name, proxy), m.where(d["partitionid"]), "arrayview.py: %s sets %s.partitionid from %s but %s.view from %s: cursor and cached view no longer belong to the same partition" % (
                fn.name, proxy, sp, proxy, sv), detail="%s / %s" % (sp[0], sv[0]))
    if n < 3:
        raise AnalysisError("arrayview.py: only %d functions fill partitionid and view of a proxy" % n)
    return r.done()


# ------------------------------------------------------------------------------------------------
# inside a loop, the per-iteration version of a value is the one to use

def rule_py_loop_derived(rep, floor=3):
    r = rep.rule("LOOP.py-per-iteration", "in a `for` loop that derives a per-iteration value from an outer one and says so in its name (`lazy_cache_key_part = fmt(lazy_cache_key, partnum)`: the new name extends the old one "
                 "and the expression uses the loop variable or a counter advanced in the loop), the rest of the loop body uses the derived value, not the outer one: the outer value is the same for every "
                 "iteration (all partitions sharing one cache key serve each other's arrays)", floor=floor)
    for rel in _mods():
        m = pf.module(rel)
        for loop in ast.walk(m.tree):
            if not isinstance(loop, ast.For):
                continue
            fn = _owner_func(loop)
            tvars = {x.id for x in ast.walk(loop.target) if isinstance(x, ast.Name)}
            # counters advanced in the loop body
            for s in loop.body:
                if isinstance(s, ast.AugAssign) and isinstance(s.target, ast.Name):
                    tvars.add(s.target.id)
            assigned_in_loop = {t.id for s in ast.walk(loop) if isinstance(s, ast.Assign) for t in s.targets if isinstance(t, ast.Name)}
            # names computed from the loop variable(s), transitively
            grew = True
            while grew:
                grew = False
                for s in ast.walk(loop):
                    if isinstance(s, ast.Assign) and len(s.targets) == 1 and isinstance(s.targets[0], ast.Name) and s.targets[0].id not in tvars:
                        if {x.id for x in ast.walk(s.value) if isinstance(x, ast.Name)} & tvars:
                            tvars.add(s.targets[0].id)
                            grew = True

            def blocks(stmts):
                yield stmts
                for t in stmts:
                    for fld in ("body", "orelse", "finalbody"):
                        b = getattr(t, fld, None)
                        if isinstance(b, list) and b and isinstance(b[0], ast.stmt) and not isinstance(t, (ast.FunctionDef, ast.ClassDef)):
                            for x in blocks(b):
                                yield x
            for blk in blocks(loop.body):
                for i, s in enumerate(blk):
                    if not (isinstance(s, ast.Assign) and len(s.targets) == 1 and isinstance(s.targets[0], ast.Name)):
                        continue
                    w = s.targets[0].id
                    used = {x.id for x in ast.walk(s.value) if isinstance(x, ast.Name)}
                    bases = [v for v in used if v != w and w.startswith(v + "_") and v not in assigned_in_loop and v not in tvars]
                    if not bases or not (used & tvars):
                        continue
                    v = bases[0]
                    later = [x for t in blk[i + 1:] for x in ast.walk(t) if isinstance(x, ast.Name) and x.id == v and isinstance(x.ctx, ast.Load)]
                    key = "%s:%s#%s" % (rel, getattr(fn, "name", "<module>"), w)
                    r.check(not later, key, m.where(later[0]) if later else m.where(s), "%s: after `%s` was derived from `%s` for this iteration, the loop body still uses `%s` (line %d)" % (
                        rel, w, v, v, later[0].lineno if later else 0), detail="derived value used")
    return r.done()


# ------------------------------------------------------------------------------------------------
# a position inside a sliced partitioned view is offset by the view's start before it is compared with partition boundaries

def rule_py_numba_partition_start(rep, floor=2):
    r = rep.rule("VIEW.py-numba-partition-start", "in _connect/_numba/arrayview.py, a lowering function that locates a position among the partitions of a PartitionedView (it compares the position with "
                 "lower_get_localstart / lower_get_localstop of `stops`, or searches `stops`) first adds the view's `start` to the view-relative position: `stops` are positions in the whole array, a sliced view "
                 "(`x[2:]`) begins later. Functions that build a new view (they assign `.start`) are not position look-ups", floor=floor)
    m = pf.module("_connect/_numba/arrayview.py")
    n = 0
    for fn in _funcs(m.tree):
        if not fn.name.endswith("_partitioned"):
            continue
        src = ast.unparse(fn)
        locates = ("lower_get_localstart" in src or "searchsorted" in src) and "lower_getitem_at_check" in src
        if not locates:
            continue
        n += 1
        adds = any(isinstance(c, ast.Call) and isinstance(c.func, ast.Attribute) and c.func.attr == "add" and any(isinstance(a, ast.Attribute) and a.attr == "start" for a in c.args) for c in ast.walk(fn))
        r.check(adds, "arrayview.py:%s" % fn.name, m.where(fn), "arrayview.py: %s locates a view-relative position among the partitions without adding the view's start: a sliced partitioned array yields the items of its unsliced beginning" % fn.name,
                detail="start added")
    if n < 2:
        raise AnalysisError("arrayview.py: only %d partitioned position look-ups found" % n)
    return r.done()
