"""Rule family L (GUARD): check-before-use rules on libawkward and kernels.
   L.2 getitem_at wraps and range-checks before getitem_at_nowrap
   L.3 class invariants established by constructors (SliceRange step != 0, ListOffsetArray offsets non-empty)
   L.6 integer divisions are dominated by a non-zero fact
   C   unconditional constant subscripts of kernel inputs need a non-empty buffer at every call site"""
from ..facts import find_all
from ..core import AnalysisError, load_table
from .kspec import cexpr, unparse
from . import callsites as cs


# ------------------------------------------------------------------------------------------------
def _ctor(fb, cls):
    return [f for f in fb.lib_funcs() if f["kind"] == "CXXConstructorDecl" and f["cls"] == cls]


def _throws_under(stmts, pred):
    """an `if` at top level whose condition satisfies pred and whose then-branch throws"""
    for s in stmts:
        if s[0] == "if" and s[1][0] != "declcond" and pred(cexpr(s[1])) and any(x[0] == "throw" for x in s[2]):
            return True
    return False


def rule_invariants(rep, fb):
    r = rep.rule("GUARD.invariants", "class invariants that other rules rely on are established by the only constructors: SliceRange rejects step == 0 (termination of range kernels, non-zero divisors); "
                 "ListOffsetArrayOf rejects an empty offsets Index (offsets[0] is always readable)", floor=2)
    cs_ = _ctor(fb, "SliceRange")
    if not cs_:
        raise AnalysisError("SliceRange constructor not found")
    for c in cs_:
        ok = _throws_under(c["body"], lambda e: e[0] == "bin" and e[1] == "==" and "step" in repr(e) and ("const", 0) in (e[2], e[3]))
        r.check(ok, "SliceRange::SliceRange", "%s:%d" % (c["file"], c["line"]), "the SliceRange constructor no longer throws when step == 0", detail="if (step_ == 0) throw")
    cl = _ctor(fb, "ListOffsetArrayOf")
    if not cl:
        raise AnalysisError("ListOffsetArrayOf constructor not found")
    for c in cl:
        if len(c["params"]) < 3:
            continue
        ok = _throws_under(c["body"], lambda e: "offsets" in repr(e) and "length" in repr(e) and (e[0] == "bin" and e[1] in ("==", "<", "<=")))
        r.check(ok, "ListOffsetArrayOf::ListOffsetArrayOf/%d" % len(c["params"]), "%s:%d" % (c["file"], c["line"]), "the ListOffsetArray constructor no longer throws on an empty offsets Index", detail="if (offsets.length() == 0) throw")
    return r.done()


# ------------------------------------------------------------------------------------------------
def rule_getitem_at(rep, fb, floor=12):
    r = rep.rule("GUARD.getitem_at", "getitem_at(at) of every node class wraps a negative index by the length and rejects anything outside [0, length) (error or exception) before it calls getitem_at_nowrap", floor=floor)
    for f in fb.lib_funcs():
        if f["name"] != "getitem_at" or len(f["params"]) != 1 or not f["cls"] or f["cls"].endswith("Form"):
            continue
        calls = find_all(f["body"], lambda n: n[0] == "mcall" and n[1] == "getitem_at_nowrap")
        delegates = find_all(f["body"], lambda n: n[0] == "mcall" and n[1] == "getitem_at")
        key = "%s::getitem_at" % f["cls"]
        where = "%s:%d" % (f["file"], f["line"])
        if not calls:
            if delegates:
                r.ok(key, "delegates to another node's getitem_at")
            elif find_all(f["body"], lambda n: n[0] == "throw") or find_all(f["body"], lambda n: n[0] == "call" and n[1][0] == "fn" and n[1][1] == "util::handle_error"):
                r.ok(key, "always raises (no elements)")
            else:
                r.excepted(key, "neither calls getitem_at_nowrap nor delegates (tabled shape)")
                r.ok(key)
            continue
        idxvars = {c[4][0][1] for c in calls if c[4] and c[4][0][0] == "var"}
        ok = False
        msg = "no range check found"
        for v in idxvars:
            wrap = any(s[0] == "if" and s[1][0] != "declcond" and cexpr(s[1]) in ((("bin", "<", ("var", v), ("const", 0))),) and
                       any(x[0] == "aug" and x[1] == "+" and x[2] == ("var", v) for x in s[2]) for s in f["body"])
            check = False
            for s in f["body"]:
                if s[0] != "if" or s[1][0] == "declcond":
                    continue
                c = cexpr(s[1])
                lower = bool(find_all((c,), lambda n: n[0] == "bin" and n[1] in ("<=", "<") and ((n[2] == ("const", 0) and n[3] == ("var", v)) or (n[2] == ("var", v) and n[3] == ("const", 0)))))
                upper = bool(find_all((c,), lambda n: n[0] == "bin" and n[1] in ("<", "<=") and ((n[2] == ("var", v) and n[3][0] != "const") or (n[3] == ("var", v) and n[2][0] != "const"))))
                raises = any(x[0] == "throw" for x in s[2]) or bool(find_all(s[2], lambda n: n[0] == "call" and n[1][0] == "fn" and n[1][1] == "util::handle_error"))
                if lower and upper and raises:
                    check = True
            if wrap and check:
                ok = True
            else:
                msg = ("negative index is not wrapped by the length" if not wrap else "no check of 0 <= index < length that raises")
        r.check(ok, key, where, "%s::getitem_at: %s before getitem_at_nowrap" % (f["cls"], msg), detail="wrap, then 0 <= i < length else raise, then getitem_at_nowrap(i)")
    return r.done()


# ------------------------------------------------------------------------------------------------
# L.6 division

def _nonzero_facts(c, positive):
    """facts (set of canonical exprs known non-zero) implied by condition c being true (positive) or false"""
    out = set()
    if c[0] == "un" and c[1] == "!":
        return _nonzero_facts(c[2], not positive)
    if c[0] == "bin":
        op, a, b = c[1], c[2], c[3]
        if op == "&&" and positive:
            return _nonzero_facts(a, True) | _nonzero_facts(b, True)
        if op == "||" and not positive:
            return _nonzero_facts(a, False) | _nonzero_facts(b, False)
        zero = ("const", 0)
        if op == "==" and not positive:
            if a == zero:
                out.add(b)
            if b == zero:
                out.add(a)
        if op == "!=" and positive:
            if a == zero:
                out.add(b)
            if b == zero:
                out.add(a)
        if op == "<" and positive:
            # 0 < x  (cexpr writes x > 0 as 0 < x)
            if a == zero or (a[0] == "const" and isinstance(a[1], int) and a[1] >= 0):
                out.add(b)
        if op == "<=" and positive:
            if a[0] == "const" and isinstance(a[1], int) and a[1] >= 1:
                out.add(b)
        if op == "<" and positive:
            # x < c with c <= 0
            if b[0] == "const" and isinstance(b[1], int) and b[1] <= 0:
                out.add(a)
        if op == "<" and not positive:
            # !(x < 1)
            if b[0] == "const" and isinstance(b[1], int) and b[1] >= 1:
                out.add(a)
    elif positive and c[0] in ("var", "member", "mcall"):
        out.add(c)
    return out


def _exits(block):
    if not block:
        return False
    last = block[-1]
    if last[0] in ("return", "throw", "continue", "break"):
        return True
    if last[0] == "expr" and find_all((last,), lambda n: n[0] == "call" and n[1][0] == "fn" and n[1][1] == "util::handle_error" and n[2] and n[2][0][0] == "call"):
        return True   # handle_error(failure(...)) always throws
    if last[0] == "if":
        return _exits(last[2]) and _exits(last[3])
    return False


def _derives_from_step(e, defs, depth=0):
    """divisor derives from SliceRange::step() (non-zero by the constructor invariant) through abs / copies / `== none ? 1 : step`"""
    if depth > 5 or e is None:
        return False
    if e[0] == "mcall" and e[1] == "step":
        return True
    if e[0] == "call" and e[1][0] == "fn" and (e[1][1] or "").endswith("abs") and e[2]:
        return _derives_from_step(e[2][0], defs, depth + 1)
    if e[0] == "un" and e[1] == "-":
        return _derives_from_step(e[2], defs, depth + 1)
    if e[0] == "cast":
        return _derives_from_step(e[3], defs, depth + 1)
    if e[0] == "var":
        ds = defs.get(e[1]) or []
        ok = bool(ds)
        for d in ds:
            init = d[3]
            if init is None:
                ok = False
            elif init[0] == "const" and init[1] not in (0,):
                continue
            elif not _derives_from_step(init, defs, depth + 1):
                ok = False
        return ok
    return False


def rule_division(rep, fb, floor=8):
    r = rep.rule("GUARD.division", "every integer / or % in a kernel or in libawkward (outside the Forth VM, checked separately) whose divisor is not a non-zero constant is dominated by a fact that the divisor is non-zero: "
                 "an enclosing or preceding test, a loop variable starting at >= 1, or derivation from SliceRange::step() (non-zero by its constructor)", floor=floor)
    table = load_table("division_exceptions.json")
    funcs = []
    for p, tu in sorted(fb.kernel_tus().items()):
        funcs += [f for f in tu["funcs"] if not f["inst"]]
    funcs += [f for f in fb.lib_funcs() if "forth" not in f["file"].lower()]
    for f in funcs:
        count = {}

        def walk(stmts, facts, cont):
            facts = set(facts)
            for i, s in enumerate(stmts):
                h = s[0]
                if h == "if":
                    c = cexpr(s[1]) if s[1][0] != "declcond" else None
                    if c is not None:
                        check_expr(s[1], facts, stmts, i, cont)
                    tf = _nonzero_facts(c, True) if c is not None else set()
                    ff = _nonzero_facts(c, False) if c is not None else set()
                    walk(s[2], facts | tf, ((stmts, i, "if"),) + cont)
                    walk(s[3], facts | ff, ((stmts, i, "if"),) + cont)
                    if _exits(s[2]):
                        facts |= ff
                    if s[3] and _exits(s[3]):
                        facts |= tf
                elif h == "for":
                    c = cexpr(s[1])
                    lf = set(facts)
                    # loop variable initialised to a constant >= 1 just before and only incremented
                    if i > 0 and stmts[i - 1][0] in ("decl", "assign"):
                        pv = stmts[i - 1]
                        name = pv[1] if pv[0] == "decl" else (pv[1][1] if pv[1][0] == "var" else None)
                        init = cexpr(pv[3] if pv[0] == "decl" else pv[2]) if (pv[3] if pv[0] == "decl" else pv[2]) is not None else None
                        if name and init and init[0] == "const" and isinstance(init[1], int) and init[1] >= 1 and all(x[0] == "aug" and x[1] == "+" and x[2] == ("var", name) for x in s[3]):
                            lf.add(("var", name))
                    lf |= _nonzero_facts(c, True)
                    check_expr(s[1], lf, stmts, i, cont)
                    walk(s[2], lf, ((stmts, i, "for"),) + cont)
                    walk(s[3], lf, ((stmts, i, "for"),) + cont)
                elif h in ("while", "dowhile"):
                    c = cexpr(s[1]) if s[1][0] != "declcond" else None
                    lf = facts | (_nonzero_facts(c, True) if c is not None and h == "while" else set())
                    walk(s[2], lf, ((stmts, i, h),) + cont)
                elif h in ("foreach", "try", "switch"):
                    for b in cs.sub_blocks(s):
                        walk(b, facts, ((stmts, i, h),) + cont)
                else:
                    for e in cs.head_exprs(s):
                        check_expr(e, facts, stmts, i, cont)
                    # x = (d == 0 ? a : b / d) handled inside check_expr through 'cond'

        def check_expr(e, facts, stmts, i, cont):
            if not isinstance(e, tuple) or not e:
                return
            if e[0] == "cond":
                c = cexpr(e[1])
                check_expr(e[1], facts, stmts, i, cont)
                check_expr(e[2], facts | _nonzero_facts(c, True), stmts, i, cont)
                check_expr(e[3], facts | _nonzero_facts(c, False), stmts, i, cont)
                return
            if e[0] == "bin" and e[1] == "&&":
                check_expr(e[2], facts, stmts, i, cont)
                check_expr(e[3], facts | _nonzero_facts(cexpr(e[2]), True), stmts, i, cont)
                return
            if e[0] == "lambda":
                walk(e[2], set(), ())
                return
            if (e[0] == "bin" and e[1] in ("/", "%")) or (e[0] == "aug" and e[1] in ("/", "%")):   # 'f/' (floating point) is not a trap
                d = cexpr(e[3])
                if not (d[0] == "const" and d[1] not in (0, 0.0)) and d[0] != "sizeof" and not (d[0] == "ctor") and not _is_float(d, f):
                    txt = unparse(d)
                    count[txt] = count.get(txt, 0) + 1
                    key = "%s:/%s#%d" % (f["qual"], txt[:60], count[txt])
                    ok = d in facts or (d[0] == "un" and d[1] == "-" and d[2] in facts)
                    why = "fact established by a dominating test"
                    if not ok:
                        defs = cs.scoped_defs(cs._PseudoSite(f, stmts, i, cont))
                        if _derives_from_step(d, defs):
                            ok = True
                            why = "divisor derives from SliceRange::step(), non-zero by GUARD.invariants"
                    tk = "%s:/%s" % (f["qual"], txt[:60])
                    if not ok and tk in table:
                        r.excepted(tk, table[tk])
                        ok = True
                        why = "tabled"
                    r.check(ok, key, "%s:%d" % (f["file"], stmts[i][-1] if isinstance(stmts[i][-1], int) else f["line"]),
                            "division/modulo by '%s' in %s is not dominated by a non-zero test of the divisor" % (txt, f["qual"]), detail=why)
            for x in e[1:]:
                if isinstance(x, tuple):
                    if x and isinstance(x[0], str):
                        check_expr(x, facts, stmts, i, cont)
                    else:
                        for y in x:
                            if isinstance(y, tuple):
                                check_expr(y, facts, stmts, i, cont)
        walk(f["body"], set(), ())
    return r.done()


def _is_float(d, f):
    """divisor is a floating-point quantity (division by zero is not a trap)"""
    if d[0] == "var":
        for n, t in f["params"]:
            if n == d[1] and t.replace("const ", "") in ("double", "float"):
                return True
        for dd in find_all(f["body"], lambda n: n[0] == "decl" and len(n) == 5 and n[1] == d[1]):
            if dd[2].replace("const ", "") in ("double", "float"):
                return True
    return False


# ------------------------------------------------------------------------------------------------
# constant subscripts of kernel inputs

def rule_const_subscript(rep, fb, floor=5):
    r = rep.rule("KBOUND.const-subscript", "a kernel that reads input[c] unconditionally (outside any loop/branch) needs len(input) >= c+1: either the parameter is an offsets array "
                 "(non-empty by GUARD.invariants) or every call site is dominated by a test that the corresponding length is non-zero", floor=floor)
    from .kernels import implementation_of
    api = cs.kernel_api(fb)
    sites = cs.kernel_sites(fb, api)
    bysym = {}
    for q, a in api.items():
        for names, params, g in a["overloads"]:
            for c in find_all(g["body"], lambda n: n[0] == "call" and n[1][0] == "fn" and isinstance(n[1][1], str) and n[1][1].startswith("awkward_")):
                bysym.setdefault(c[1][1], set()).add(q)
    for k in fb.spec():
        f = implementation_of(fb, k)
        if f is None:
            continue
        ptrs = [p[0] for p in f["params"] if "*" in p[1]]
        sp0 = k["specializations"][0]
        if len(sp0["args"]) != len(f["params"]):
            continue
        dirs = {f["params"][i][0]: sp0["args"][i].get("dir") for i in range(len(f["params"]))}
        hits = set()
        for s in f["body"]:
            if s[0] in ("for", "while", "dowhile", "switch", "foreach", "try"):
                continue
            exprs = (s[1],) if s[0] == "if" and s[1][0] != "declcond" else (cs.head_exprs(s) if s[0] != "if" else ())
            for e in exprs:
                for n in find_all((e,), lambda n: n[0] == "idx" and n[1][0] == "var" and n[1][1] in ptrs and cexpr(n[2])[0] == "const"):
                    # a pure store `p[c] = v` is a write, handled by the allocation rule
                    if s[0] == "assign" and s[1] is n:
                        continue
                    if dirs.get(n[1][1]) == "in":
                        hits.add((n[1][1], cexpr(n[2])[1]))
        for pname, c in sorted(hits):
            kq = set()
            for sp in k["specializations"]:
                kq |= bysym.get(sp["name"], set())
            ksites = [s for s in sites if s.name in kq]
            if "offset" in pname.lower():
                r.ok("%s:%s[%d]" % (k["name"], pname, c), "offsets array: non-empty by the ListOffsetArray constructor invariant")
                # the argument must really be an offsets array
                idx = [p[0] for p in f["params"]].index(pname)
                for key, s in cs.keyed(ksites):
                    names = api[s.name]["overloads"][0][0]
                    if len(names) != len(s.call[2]):
                        continue
                    arg = s.call[2][idx + 1] if names and names[0] == "ptr_lib" else s.call[2][idx]
                    rid = cs.root_ident(arg) or ""
                    r.check("offset" in rid.lower(), "%s:%s<-%s" % (key, pname, rid), "%s:%d" % (s.func["file"], s.line),
                            "kernel %s reads %s[%d] unconditionally but receives '%s', which is not an offsets array" % (s.name, pname, c, rid), detail="%s <- %s" % (pname, rid))
                continue
            for key, s in cs.keyed(ksites):
                guarded = False
                # enclosing ifs whose condition establishes a non-zero length
                for pb, pi, pk in s.cont:
                    st = pb[pi]
                    if pk == "if" and st[1][0] != "declcond":
                        c_ = cexpr(st[1])
                        inthen = any(x is s.stmt or find_all((x,), lambda n: n is s.stmt) for x in st[2])
                        facts = _nonzero_facts(c_, True) if inthen else _nonzero_facts(c_, False)
                        if any("length" in repr(x) for x in facts):
                            guarded = True
                # preceding early exits
                for blk, idx in [(s.block, s.idx)] + [(pb, pi) for pb, pi, pk in s.cont]:
                    for st in blk[:idx]:
                        if st[0] == "if" and st[1][0] != "declcond" and _exits(st[2]):
                            if any("length" in repr(x) for x in _nonzero_facts(cexpr(st[1]), False)):
                                guarded = True
                r.check(guarded, "%s:%s[%d]" % (key, pname, c), "%s:%d" % (s.func["file"], s.line),
                        "kernel %s reads %s[%d] unconditionally, but this call is not dominated by a test that the length is non-zero" % (s.name, pname, c),
                        detail="call dominated by a non-zero length test")
    return r.done()
