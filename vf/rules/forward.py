"""Rule family K (FORWARD) on C++: delegating methods forward faithfully; generator / cache protocol of VirtualArray."""
from ..facts import find_all
from ..core import load_table, AnalysisError
from .kspec import cexpr, unparse
from .callsites import each_block_cont, head_exprs


def rule_same_name(rep, fb, select=None, floor=100, name="FORWARD.same-name"):
    r = rep.rule(name, "in a method m(p1..pn), a call of the same-named method m with the same arity never passes one of m's own parameters in another parameter's position "
                 "(arguments are either the parameter of that position or a value derived in the method)", floor=floor)
    ncalls = 0
    for f in fb.lib_funcs():
        pn = [p[0] for p in f["params"]]
        if not pn or not f["cls"]:
            continue
        if select is not None and not select(f):
            continue
        for m in find_all(f["body"], lambda n: n[0] == "mcall" and n[1] == f["name"] and len(n[4]) == len(pn)):
            ncalls += 1
            for i, a in enumerate(m[4]):
                a = cexpr(a)
                if a[0] == "var" and a[1] in pn:
                    key = "%s->%s#%d:%s" % (f["qual"], unparse(cexpr(m[3]))[:40], i, pn[i])
                    r.check(a[1] == pn[i], key, "%s:%d" % (f["file"], m[-1]),
                            "%s passes its parameter '%s' in the position of '%s' when delegating to %s" % (f["qual"], a[1], pn[i], f["name"]),
                            detail="position %d carries %s" % (i, pn[i]))
    r.count("same_name_calls", ncalls)
    return r.done()


def _recv_has(e, names):
    return bool(find_all((e,), lambda n: n[0] == "mcall" and n[1] in names))


def rule_virtual_delegation(rep, fb, floor=30):
    r = rep.rule("FORWARD.virtual", "every VirtualArray method that materialises (calls array()) and calls the same-named method of the materialised array passes exactly its own parameter list; "
                 "every other Content virtual overridden by VirtualArray is in the tabled set of lazy methods", floor=floor)
    table = load_table("virtual_lazy.json")
    classes = fb.classes()
    content = classes.get("Content")
    if content is None:
        raise AnalysisError("class Content not found in the class table")
    virt = {m[0] for m in content["methods"] if m[1]}
    funcs = [f for f in fb.lib_funcs() if f["cls"] == "VirtualArray"]
    if len(funcs) < 50:
        raise AnalysisError("only %d VirtualArray methods found" % len(funcs))
    for f in funcs:
        if f["name"] not in virt:
            continue
        pn = [p[0] for p in f["params"]]
        same = [m for m in find_all(f["body"], lambda n: n[0] == "mcall" and n[1] == f["name"]) if _recv_has(m[3], ("array",)) or m[3][0] == "var"]
        key = "VirtualArray::%s(%s)" % (f["name"], ",".join(t for _, t in f["params"]))
        where = "%s:%d" % (f["file"], f["line"])
        if same:
            for m in same:
                args = [cexpr(a) for a in m[4]]
                want = [("var", p) for p in pn]
                if args == want:
                    r.ok(key, "array()->%s(%s)" % (f["name"], ", ".join(pn)))
                elif key in table:
                    r.excepted(key, table[key])
                    r.ok(key)
                else:
                    r.fail(key, "%s:%d" % (f["file"], m[-1]), "VirtualArray::%s delegates with (%s) instead of its own parameters (%s)" % (f["name"], ", ".join(unparse(a) for a in args), ", ".join(pn)))
        else:
            if key in table or f["name"] in table:
                r.excepted(key, table.get(key) or table.get(f["name"]))
                r.ok(key)
            else:
                r.fail(key, where, "VirtualArray::%s neither delegates to array()->%s nor is tabled as a lazy method" % (f["name"], f["name"]))
    return r.done()


def rule_generator_protocol(rep, fb):
    r = rep.rule("FORWARD.generator-protocol", "ArrayGenerator::generate() is called only from generate_and_check(), which throws on length and on form mismatch; "
                 "VirtualArray::array() obtains its value only from the cache or from generate_and_check(), and stores into the cache only after that", floor=6)
    funcs = fb.lib_funcs()
    # who may call generate()
    n = 0
    for f in funcs:
        for m in find_all(f["body"], lambda n: n[0] == "mcall" and n[1] == "generate"):
            n += 1
            r.check(f["name"] == "generate_and_check", "generate<-%s" % f["qual"], "%s:%d" % (f["file"], m[-1]), "%s calls ArrayGenerator::generate() directly, bypassing generate_and_check()" % f["qual"],
                    detail="generate() called from generate_and_check")
    gc = [f for f in funcs if f["qual"] == "ArrayGenerator::generate_and_check"]
    if not gc:
        raise AnalysisError("ArrayGenerator::generate_and_check not found")
    g = gc[0]
    where = "%s:%d" % (g["file"], g["line"])
    ifs = find_all(g["body"], lambda n: n[0] == "if" and isinstance(n[-1], int) and n[1][0] != "declcond")
    def throws(s):
        return any(x[0] == "throw" for x in s[2])
    len_guard = [s for s in ifs if throws(s) and "length_" in repr(s[1]) and find_all((s[1],), lambda n: n[0] == "mcall" and n[1] == "length")]
    form_guard = [s for s in ifs if throws(s) and "form_" in repr(s[1]) and find_all((s[1],), lambda n: n[0] == "mcall" and n[1] == "equal")]
    r.check(bool(len_guard), "generate_and_check:length", where, "generate_and_check has no throwing guard comparing length_ with the generated length()")
    if len_guard:
        c = cexpr(len_guard[0][1])
        ok = bool(find_all((c,), lambda n: n[0] == "bin" and n[1] in ("<", "<=", "!=") and "length_" in repr(n) and "length" in repr(n)))
        r.check(ok, "generate_and_check:length-cmp", where, "length guard of generate_and_check does not compare length_ against the generated length")
    r.check(bool(form_guard), "generate_and_check:form", where, "generate_and_check has no throwing guard on form_->equal(generated form)")
    if form_guard:
        c = cexpr(form_guard[0][1])
        neg = bool(find_all((c,), lambda n: n[0] == "un" and n[1] == "!" and find_all((n,), lambda k: k[0] == "mcall" and k[1] == "equal")))
        r.check(neg, "generate_and_check:form-neg", where, "form guard of generate_and_check throws when the forms ARE equal (missing negation)")
    # state (inferred_form_ ...) is committed only after every check that can still refuse the generated array
    def onblock(stmts, cont):
        for i, st in enumerate(stmts):
            if st[0] == "assign" and st[1][0] == "member" and st[1][1] == ("this",):
                later = list(stmts[i + 1:])
                for pb, pi, pk in cont:
                    later += list(pb[pi + 1:])
                bad = find_all(tuple(later), lambda n: n[0] == "throw")
                r.check(not bad, "generate_and_check:commit-after-checks:%s" % st[1][2], "%s:%d" % (g["file"], st[-1]),
                        "generate_and_check assigns %s before a check that can still throw: a refused generation leaves state behind" % st[1][2], detail="%s assigned after the last throwing check" % st[1][2])
    from .callsites import each_block_cont
    each_block_cont(g["body"], onblock)
    # VirtualArray::array
    va = [f for f in funcs if f["qual"] == "VirtualArray::array"]
    if not va:
        raise AnalysisError("VirtualArray::array not found")
    a = va[0]
    where = "%s:%d" % (a["file"], a["line"])
    for asg in find_all(a["body"], lambda n: n[0] == "assign" and len(n) == 4 and n[1] == ("var", "out")):
        src = repr(asg[2])
        ok = ("'generate_and_check'" in src) or ("'get'" in src and "cache_" in src)
        r.check(ok, "array:out<-%s" % unparse(cexpr(asg[2]))[:50], "%s:%d" % (a["file"], asg[-1]), "VirtualArray::array assigns its result from something other than the cache or generate_and_check(): %s" % unparse(cexpr(asg[2]))[:80])
    sets = [i for i, s in enumerate(a["body"]) if find_all((s,), lambda n: n[0] == "mcall" and n[1] == "set")]
    gens = [i for i, s in enumerate(a["body"]) if find_all((s,), lambda n: n[0] == "mcall" and n[1] == "generate_and_check")]
    r.check(bool(sets) and bool(gens) and min(sets) > max(gens), "array:set-after-check", where, "VirtualArray::array stores into the cache before (or without) the generate_and_check() step")
    return r.done()
