"""More rules over the pybind11 layer (eighth batch of seeded changes)."""
import re
from ..facts import find_all
from ..core import AnalysisError
from . import callsites as cs
from .binding import lifted

_ROLE_STEMS = ("start", "stop", "offset", "index", "tag", "mask", "parent", "carry", "advanced", "shift", "content", "identit", "parameter", "shape", "stride", "ascending", "stable", "keepdims",
               "negaxis", "outlength", "target", "depth", "axis", "real", "imag", "nan", "pretty", "maxdecimals", "buffersize", "initial", "resize", "valid_when", "lsb_order", "length", "size", "format", "dtype", "itemsize")


def rule_binding_call_roles(rep, fb, floor=150, name="ROLE.call-args:binding"):
    r = rep.rule(name, "at a call from the pybind11 layer into libawkward (a method or constructor whose parameter names all definitions of that name and arity agree on), an argument whose identifier names the role of a "
                 "different parameter of the callee (complex_imag_string for complex_real_string, stops for starts, resize for initial ...) is a swapped or mistaken argument: both have the same C++ type, "
                 "so the compiler says nothing", floor=floor)
    sig = {}
    for f in fb.lib_funcs(inst=False):
        names = tuple(p[0] for p in f["params"])
        sig.setdefault((f["name"], len(names)), set()).add(names)
    unanimous = {}
    for (nm, ar), variants in sig.items():
        for i in range(ar):
            pn = {v[i] for v in variants}
            if len(pn) == 1:
                unanimous[(nm, ar, i)] = next(iter(pn))

    def stems(n):
        n = (n or "").lower()
        out = {s for s in _ROLE_STEMS if s in n}
        # a longer stem that contains a shorter one wins: minus_infinity is not infinity, itemsize is not size
        if "itemsize" in n:
            out.discard("size")
        elif n.endswith("_size") and "dtype" in n:
            out = {"itemsize"}          # dtype_size: the size of one item of that dtype
        return out
    seen = set()
    ncalls = 0
    for f in lifted(fb):
        n = 0
        for c in find_all(f["body"], lambda k: k[0] in ("mcall", "call", "make", "ctor")):
            if id(c) in seen:
                continue
            seen.add(id(c))
            if c[0] == "call":
                if c[1][0] != "fn":
                    continue
                nm = str(c[1][1]).split("::")[-1]
                args = c[2]
            elif c[0] == "mcall":
                nm, args = c[1], c[4]
            else:
                nm = re.sub(r"<.*", "", str(c[1]).replace("const ", "").split("::")[-1]).strip()
                args = c[2]
            ar = len(args)
            if (nm, ar) not in sig:
                continue
            ncalls += 1
            callee_stems = set()
            for i in range(ar):
                callee_stems |= stems(unanimous.get((nm, ar, i)))
            for i, a in enumerate(args):
                pn = unanimous.get((nm, ar, i))
                ps = stems(pn)
                if not ps:
                    continue
                rid = cs.root_ident(a)
                if not rid or (("len" in rid.lower()) and "length" not in ps):
                    continue
                asx = stems(rid) & callee_stems
                if not asx:
                    continue
                n += 1
                r.check(bool(ps & asx), "%s#%s#%d:%s<-%s" % (f["qual"], nm, n, pn, rid), "%s:%d" % (f["file"], c[-1] if isinstance(c[-1], int) else f["line"]),
                        "%s passes '%s' as the '%s' argument of %s (roles %s vs %s)" % (f["qual"], rid, pn, nm, sorted(asx), sorted(ps)), detail="%s <- %s" % (pn, rid))
    r.count("calls_with_known_parameters", ncalls)
    return r.done()


def rule_forth_input_bytes(rep, fb, floor=2, name="UNIT.forth-input-bytes:binding"):
    r = rep.rule(name, "every ak::ForthInputBuffer the binding layer builds around a Python buffer is given its length in BYTES: the length argument derives from the buffer's `itemsize` (times the shape, or `size * itemsize`), "
                 "never from buffer_info.size alone, which counts items - the machine reads typed values by byte position, so a too short length turns valid reads into 'read beyond' for every multi-byte dtype", floor=floor)
    n = 0
    for f in lifted(fb):
        if not f["file"].endswith("forth.cpp"):
            continue
        for m in find_all(f["body"], lambda k: k[0] in ("make", "ctor") and "ForthInputBuffer" in str(k[1]) and len(k[2]) >= 3):
            if f.get("is_lambda") is None and find_all(f["body"], lambda k: k[0] == "lambda" and find_all(k[2], lambda q: q is m)):
                continue   # judged in the lifted lambda
            n += 1
            L = m[2][2]
            names = {q[1] for q in find_all((L,), lambda q: q[0] == "var")}
            derived = False
            txt = repr(L)
            # follow the locals that make up the length (declaration and later `*=` / `=`)
            for _ in range(3):
                for d in find_all(f["body"], lambda k: (k[0] == "decl" and k[1] in names and k[3] is not None) or (k[0] in ("aug", "assign") and k[2 if k[0] == "aug" else 1][0] == "var" and k[2 if k[0] == "aug" else 1][1] in names)):
                    txt += repr(d)
                    names |= {q[1] for q in find_all((d,), lambda q: q[0] == "var")}
            derived = "itemsize" in txt or "nbytes" in txt
            r.check(derived, "%s#ForthInputBuffer%d" % (f["qual"], n), "%s:%d" % (f["file"], m[-1] if isinstance(m[-1], int) else f["line"]),
                    "%s builds a ForthInputBuffer whose length does not derive from the buffer's itemsize (an item count where a byte count is needed)" % f["qual"], detail="length in bytes")
    if n < 2:
        raise AnalysisError("forth.cpp: only %d ForthInputBuffer constructions found" % n)
    return r.done()


def rule_cstr_loses_length(rep, fb, floor=1, name="STR.cstr-overload:binding"):
    r = rep.rule(name, "the binding layer hands `s.c_str()` of a std::string to a libawkward method only where that method has no overload that takes the string with its length (a `const std::string&`, or a "
                 "pointer plus length): the `const char*` overload measures the text up to the first NUL byte, so bytes and strings that contain one are cut (from_iter([b\"ab\\x00cd\"]) gave b\"ab\")", floor=floor)
    sig = {}
    for f in fb.lib_funcs(inst=False):
        types = [str(p[1]) for p in f["params"]]
        # a std::string overload carries the length only if it uses it (x.length() / x.size()); one that forwards x.c_str() does not
        for i, (pn, pt) in enumerate(f["params"]):
            if "string" in str(pt) and "char" not in str(pt) and not find_all(f["body"], lambda k: k[0] == "mcall" and k[1] in ("length", "size") and k[3] == ("var", pn)):
                types[i] = "string (length unused)"
        sig.setdefault(f["name"], []).append(types)
    n = 0
    seen = set()
    for f in lifted(fb):
        for c in find_all(f["body"], lambda k: k[0] == "mcall" and k[4] and any(a[0] == "mcall" and a[1] == "c_str" for a in k[4])):
            if id(c) in seen:
                continue
            seen.add(id(c))
            name_ = c[1]
            overloads = sig.get(name_)
            if not overloads:
                continue
            pos = [i for i, a in enumerate(c[4]) if a[0] == "mcall" and a[1] == "c_str"][0]
            n += 1
            # an overload that carries the length: std::string at that position, or (const char*, integer) with one more parameter
            better = [o for o in overloads if (len(o) == len(c[4]) and pos < len(o) and "string" in o[pos] and "char" not in o[pos] and "length unused" not in o[pos])
                      or (len(o) == len(c[4]) + 1 and pos + 1 < len(o) and "char" in o[pos] and re.search(r"int64_t|long|size_t", o[pos + 1]))]
            r.check(not better, "%s#%s%d" % (f["qual"], name_, n), "%s:%d" % (f["file"], c[-1] if isinstance(c[-1], int) else f["line"]),
                    "%s passes .c_str() to %s although an overload takes the string with its length (%s): text after a NUL byte is lost" % (f["qual"], name_, better[0] if better else ""), detail="no length-carrying overload")
    return r.done()
