"""Safety rules for C12 (and reused elsewhere): errors inside kernels are returned, no exception crosses the C API,
no const_cast, raw new/delete confined, memcpy sizes."""
from ..facts import find_all
from .callsites import each_block, head_exprs, sub_blocks
from .kspec import unparse, cexpr


def rule_kernel_failure_returned(rep, fb, floor=40):
    r = rep.rule("ERRFLOW.kernel-return", "inside every kernel, each failure(...) value is the operand of a return (an error, once detected, stops the kernel and reaches the caller)", floor=floor)
    nk = 0
    for p, tu in sorted(fb.kernel_tus().items()):
        for f in tu["funcs"]:
            if f["inst"]:
                continue
            nk += 1
            fails = find_all(f["body"], lambda n: n[0] == "call" and n[1][0] == "fn" and n[1][1] == "failure")
            if not fails:
                continue
            returned = set()
            for rt in find_all(f["body"], lambda n: n[0] == "return" and isinstance(n[-1], int)):
                e = rt[1]
                if e is not None and e[0] == "call" and e[1][0] == "fn" and e[1][1] == "failure":
                    returned.add(id(e))
            for i, c in enumerate(fails):
                r.check(id(c) in returned, "%s#failure%d" % (f["name"], i), "%s:%d" % (f["file"], c[3]),
                        "failure(...) in %s is computed but not returned" % f["name"], detail="return failure(%s, ...)" % (unparse(cexpr(c[2][0]))[:40] if c[2] else ""))
    r.count("kernel_functions", nk)
    return r.done()


def rule_extern_c_nothrow(rep, fb, floor=18):
    r = rep.rule("ERRFLOW.extern-C", "every extern \"C\" awkward_ArrayBuilder_* entry point wraps its C++ call in try { ... } catch (...) { return 1; } (no exception crosses the C boundary)", floor=floor)
    for f in fb.lib_funcs():
        if not f["name"].startswith("awkward_ArrayBuilder_") or "libawkward" not in f["file"]:
            continue
        body = f["body"]
        tries = [s for s in body if s[0] == "try"]
        where = "%s:%d" % (f["file"], f["line"])
        ok = len(tries) == 1
        msg = "no try block"
        if ok:
            t = tries[0]
            handlers = t[2]
            ok = any(h[0] == "..." and any(s[0] == "return" and s[1] is not None and cexpr(s[1]) != ("const", 0) for s in h[1]) for h in handlers)
            msg = "no catch (...) handler returning a non-zero status"
            # every call on the builder object must be inside the try
            outside = [s for s in body if s[0] != "try" and find_all((s,), lambda n: n[0] == "mcall" and n[1] not in ("get",))]
            if ok and outside:
                ok = False
                msg = "a C++ member call at line %s is outside the try block" % outside[0][-1]
        r.check(ok, f["name"], where, "%s: %s" % (f["name"], msg), detail="try {...} catch (...) { return 1; }")
    return r.done()


def rule_no_const_cast(rep, fb):
    r = rep.rule("FRESH.no-const-cast", "const_cast does not occur in src/libawkward or include/awkward (constness of borrowed buffers cannot be shed)", floor=1)
    n = 0
    funcs = fb.lib_funcs()
    for f in funcs:
        for c in find_all(f["body"], lambda n: n[0] == "cast" and n[1] == "const"):
            n += 1
            r.fail("%s#const_cast" % f["qual"], "%s:%d" % (f["file"], f["line"]), "const_cast<%s> in %s" % (c[2], f["qual"]))
    # positive control: the matcher recognises a const_cast (expected count in the tree is zero)
    from .. import cxx
    import os
    sample = os.path.join(cxx.VERIF, "selftest", "positive", "const_cast.cpp")
    tu = cxx.parse_tu(sample, "lib")
    hits = sum(len(find_all(g["body"], lambda n: n[0] == "cast" and n[1] == "const")) for g in tu["funcs"])
    if hits < 1:
        from ..core import AnalysisError
        raise AnalysisError("the const_cast matcher did not fire on its positive example selftest/positive/const_cast.cpp")
    r.ok("tree-wide", "0 const_cast in %d libawkward function bodies; matcher fires on selftest/positive/const_cast.cpp" % len(funcs))
    r.count("functions_scanned", len(funcs))
    return r.done()


ALLOWED_RAW = {
    "src/libawkward/forth/ForthMachine.cpp": "delete of typed input/output helper objects owned by the machine (tabled: reviewed)",
    "src/libawkward/io/json.cpp": "delete of the rapidjson stream buffers allocated in the same function",
    "src/libawkward/forth/ForthOutputBuffer.cpp": "new OUT[] immediately wrapped in a shared_ptr with array deleter",
}


def rule_raw_memory(rep, fb):
    r = rep.rule("OWN.raw-new-delete", "raw new/delete/free/malloc occur only in the tabled owner files (everything else is shared_ptr / kernel::malloc managed)", floor=5)
    for f in fb.lib_funcs(inst=False):
        for c in find_all(f["body"], lambda n: n[0] in ("new", "delete") or (n[0] == "call" and n[1][0] == "fn" and n[1][1] in ("free", "malloc", "realloc", "calloc"))):
            what = c[0] if c[0] != "call" else c[1][1]
            key = "%s#%s" % (f["qual"], what)
            if f["file"] in ALLOWED_RAW:
                r.excepted(key, ALLOWED_RAW[f["file"]])
                r.ok(key)
            else:
                r.fail(key, "%s:%d" % (f["file"], f["line"]), "raw %s in %s" % (what, f["qual"]))
    return r.done()


def rule_width(rep, fb, select=None, floor=20, name="WIDTH.implicit-narrowing"):
    """implicit (compiler-inserted) integral narrowing 64 -> 32/16/8 bits in libawkward's non-template code"""
    from ..core import load_table
    r = rep.rule(name, "no implicit integral narrowing (a compiler-inserted 64 -> 32/16/8-bit conversion, e.g. passing an int64_t length to int abs(int)) of lengths, positions or data values in "
                 "libawkward's non-template functions, outside the tabled conversions that are by design", floor=floor)
    table = load_table("width_exceptions.json")
    for f in fb.lib_funcs(inst=False):   # instantiations narrow to their element type T by design; the lint is about non-template code
        if select is not None and not select(f):
            continue
        cnt = {}
        for n in find_all(f["body"], lambda n: n[0] == "narrow"):
            txt = unparse(cexpr(n[3]))[:50]
            cnt[txt] = cnt.get(txt, 0) + 1
            key = "%s:%s->%s#%d" % (f["qual"], txt, n[2], cnt[txt])
            tk = "%s:%s->%s" % (f["qual"], txt, n[2])
            tk2 = "%s:*->%s" % (f["qual"], n[2])
            reason = table.get(tk) or table.get(tk2) or table.get(f["qual"] + ":*")
            if reason:
                r.excepted(tk, reason)
                r.ok(key)
            else:
                r.fail(key, "%s:%d" % (f["file"], f["line"]), "%s implicitly narrows '%s' (%s bits) to %s" % (f["qual"], txt, n[1], n[2]))
    return r.done()
