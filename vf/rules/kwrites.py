"""Which pointer parameters does a kernel actually write?  Derived from the kernel bodies (not from the `dir:` annotations of
kernel-specification.yml, which mark many in-place kernels as `dir: in`)."""
from ..facts import find_all
from . import callsites as cs

# callees outside the kernel sources that do not write through their pointer arguments at all / write only through the named positions
_EXTERNAL_READS = {"std::lower_bound", "std::upper_bound", "std::min", "std::max", "std::abs", "strlen", "strcmp", "strncmp", "std::isnan", "std::equal", "std::min_element", "std::max_element",
                   "std::accumulate", "std::distance", "std::binary_search", "std::is_sorted", "std::memcmp", "memcmp"}
_EXTERNAL_WRITES_FIRST = {"memcpy", "std::memcpy", "memmove", "std::memmove", "memset", "std::memset", "std::iota", "std::fill", "std::sort", "std::stable_sort", "std::reverse", "std::unique", "std::fill_n", "std::nth_element",
                          "std::partial_sort", "std::swap", "std::iter_swap"}


def _root_param(e, params):
    """parameter name if e is p, p + k, &p[k], (cast)p ..."""
    while True:
        if e[0] == "var":
            return e[1] if e[1] in params else None
        if e[0] in ("cast", "narrow", "widen"):
            e = e[3]
        elif e[0] == "bin" and e[1] in ("+", "-"):
            a = _root_param(e[2], params)
            return a if a else _root_param(e[3], params)
        elif e[0] == "addr":
            e = e[1]
        elif e[0] == "idx":
            e = e[1]
        else:
            return None


def function_writes(fb):
    """(function name, arity) -> set of parameter positions written, for every function body in src/cpu-kernels (fixpoint over calls)"""
    funcs = {}
    for p, tu in sorted(fb.kernel_tus().items()):
        for f in tu["funcs"]:
            if f["inst"]:
                continue
            funcs.setdefault(f["name"], []).append(f)
    writes = {}
    for name, fs in funcs.items():
        for f in fs:
            writes[(name, len(f["params"]))] = set()
    changed = True
    rounds = 0
    while changed and rounds < 8:
        changed = False
        rounds += 1
        for name, fs in funcs.items():
            for f in fs:
                params = [p[0] for p in f["params"]]
                ptrs = {p[0] for p in f["params"] if "*" in p[1] and not p[1].replace(" ", "").startswith("const")}
                # local aliases: T* q = p + k
                alias = {}
                for d in find_all(f["body"], lambda k: k[0] == "decl" and k[3] is not None and "*" in str(k[2])):
                    rp = _root_param(d[3], set(params) | set(alias))
                    if rp:
                        alias[d[1]] = alias.get(rp, rp)
                names = set(params) | set(alias)
                w = set()

                def root(e):
                    rp = _root_param(e, names)
                    return alias.get(rp, rp) if rp else None
                for s in find_all(f["body"], lambda k: k[0] in ("assign", "aug")):
                    lhs = s[1] if s[0] == "assign" else s[2]
                    if lhs[0] in ("idx", "deref"):
                        rp = root(lhs[1])
                        if rp:
                            w.add(rp)
                for u in find_all(f["body"], lambda k: k[0] == "un" and k[1] in ("++", "--", "post++", "post--", "pre++", "pre--") and k[2][0] in ("idx", "deref")):
                    rp = root(u[2][1])
                    if rp:
                        w.add(rp)
                for c in find_all(f["body"], lambda k: k[0] == "call" and k[1][0] == "fn"):
                    cn = str(c[1][1])
                    args = c[2]
                    short = cn.split("::")[-1]
                    key = (short, len(args))
                    if key in writes and short in funcs:
                        for pos in writes[key]:
                            if pos < len(args):
                                rp = root(args[pos])
                                if rp:
                                    w.add(rp)
                    elif cn in _EXTERNAL_READS:
                        continue
                    elif cn in _EXTERNAL_WRITES_FIRST:
                        for a in args[:2] if cn in ("std::sort", "std::stable_sort", "std::reverse", "std::unique", "std::nth_element", "std::partial_sort", "std::iota", "std::fill", "std::swap", "std::iter_swap") else args[:1]:
                            rp = root(a)
                            if rp:
                                w.add(rp)
                    else:
                        # unknown callee: a non-const pointer passed to it may be written
                        for a in args:
                            rp = root(a)
                            if rp and rp in ptrs:
                                w.add(rp)
                pos = {i for i, pn in enumerate(params) if pn in w and pn in ptrs}
                k = (name, len(params))
                if not pos <= writes[k]:
                    writes[k] |= pos
                    changed = True
    return writes, funcs


def kernel_api_writes(fb):
    """kernel::K -> set of K's parameter names whose pointee the CPU kernel writes"""
    writes, funcs = function_writes(fb)
    api = cs.kernel_api(fb)
    out = {}
    for q, a in api.items():
        ws = set()
        found = False
        for names, params, f in a["overloads"]:
            for c in find_all(f["body"], lambda n: n[0] == "call" and n[1][0] == "fn" and isinstance(n[1][1], str) and n[1][1].startswith("awkward_")):
                sym = c[1][1]
                key = (sym, len(c[2]))
                if key not in writes:
                    continue
                found = True
                for pos in writes[key]:
                    arg = c[2][pos]
                    for v in find_all(arg, lambda m: m[0] == "var" and m[1] in names):
                        ws.add(v[1])
        if found:
            out[q] = ws
    return out
