"""pybind11 binding tables, extracted textually from src/python/*.cpp (pybind11 headers are absent, so clang cannot parse these files):
for every `.def("name", ..., py::arg("a"), py::arg("b") = default ...)` / `.def(py::init(...), py::arg(...)...)` / `m.def("name", ...)`
the keyword names, how many have defaults, and - where the callable is a lambda - its C++ parameter count."""
import os
import re
from ..core import AnalysisError, REPO


def _strip_comments(s):
    out, i, n = [], 0, len(s)
    while i < n:
        c = s[i]
        if c == '"':
            j = i + 1
            while j < n and s[j] != '"':
                j += 2 if s[j] == "\\" else 1
            out.append(s[i:j + 1])
            i = j + 1
        elif s.startswith("//", i):
            j = s.find("\n", i)
            i = n if j < 0 else j
        elif s.startswith("/*", i):
            j = s.find("*/", i)
            i = n if j < 0 else j + 2
        else:
            out.append(c)
            i += 1
    return "".join(out)


def _match_paren(s, i):
    """index of the ')' matching the '(' at s[i] (strings skipped)"""
    depth, n = 0, len(s)
    while i < n:
        c = s[i]
        if c == '"':
            i += 1
            while i < n and s[i] != '"':
                i += 2 if s[i] == "\\" else 1
        elif c in "([{":
            depth += 1
        elif c in ")]}":
            depth -= 1
            if depth == 0:
                return i
        i += 1
    return -1


def _split_top(s):
    """split on top-level commas (angle brackets of templates are tracked only inside identifiers<...>)"""
    parts, depth, cur, i, n = [], 0, [], 0, len(s)
    while i < n:
        c = s[i]
        if c == '"':
            j = i + 1
            while j < n and s[j] != '"':
                j += 2 if s[j] == "\\" else 1
            cur.append(s[i:j + 1])
            i = j + 1
            continue
        if c in "([{":
            depth += 1
        elif c in ")]}":
            depth -= 1
        if c == "," and depth == 0:
            parts.append("".join(cur))
            cur = []
        else:
            cur.append(c)
        i += 1
    parts.append("".join(cur))
    return [p.strip() for p in parts if p.strip()]


def _lambda_arity(text):
    m = re.search(r"\[[^\]]*\]\s*\(", text)
    if not m:
        return None
    i = m.end() - 1
    j = _match_paren(text, i)
    if j < 0:
        return None
    inner = text[i + 1:j].strip()
    if not inner:
        return 0
    # template commas inside <...> of parameter types
    depth, cnt = 0, 1
    for c in inner:
        if c in "<([":
            depth += 1
        elif c in ">)]":
            depth -= 1
        elif c == "," and depth == 0:
            cnt += 1
    return cnt


class Binding:
    __slots__ = ("name", "cls", "file", "line", "args", "ndefault", "arity", "is_init", "is_property", "is_static", "returns_map")

    def __repr__(self):
        return "Binding(%s.%s args=%s)" % (self.cls, self.name, self.args)


_cache = {}


def bindings():
    """list of Binding over src/python/*.cpp"""
    if "b" in _cache:
        return _cache["b"]
    d = os.path.join(REPO, "src", "python")
    out = []
    files = sorted(f for f in os.listdir(d) if f.endswith(".cpp"))
    if len(files) < 5:
        raise AnalysisError("src/python/*.cpp not found")
    for fn in files:
        raw = open(os.path.join(d, fn), encoding="utf-8", errors="replace").read()
        s = _strip_comments(raw)
        # platform alternatives (#ifdef _MSC_VER A #else B #endif) open the same brace twice: keep the non-Windows branch, preserving line numbers
        s = re.sub(r"#ifdef _MSC_VER\n(.*?)#else\n(.*?)#endif", lambda mm: "\n" * (mm.group(1).count("\n") + 1) + mm.group(2) + "\n", s, flags=re.S)
        # enclosing maker function: the nearest preceding "make_X(" or "PYBIND11_MODULE"
        makers = [(m.start(), m.group(1)) for m in re.finditer(r"^\s*(make_\w+)\s*\((?:const\s+)?py::(?:handle|module)\s*&", s, re.M)]
        for m in re.finditer(r"\.\s*(def|def_static|def_property_readonly|def_property|def_property_readonly_static)\s*\(", s):
            i = m.end() - 1
            j = _match_paren(s, i)
            if j < 0:
                continue
            body = s[i + 1:j]
            parts = _split_top(body)
            if not parts:
                continue
            b = Binding()
            b.file, b.line = "src/python/" + fn, s.count("\n", 0, m.start()) + 1
            b.is_property = "property" in m.group(1)
            b.is_static = "static" in m.group(1)
            first = parts[0]
            b.is_init = first.startswith("py::init")
            if b.is_init:
                b.name = "__init__"
                callable_txt = first
                rest = parts[1:]
            else:
                mm = re.match(r'^"([^"]+)"$', first)
                if mm:
                    b.name = mm.group(1)
                elif re.match(r"^name\.c_str\(\)$", first):
                    b.name = "@maker"    # m.def(name.c_str(), ...): the Python name is the one the maker is registered under
                else:
                    continue
                callable_txt = parts[1] if len(parts) > 1 else ""
                rest = parts[2:]
            b.args, b.ndefault = [], 0
            for p in rest:
                am = re.match(r'^py::arg\("(\w+)"\)(\s*=.*)?$', p, re.S)
                if am:
                    b.args.append(am.group(1))
                    if am.group(2):
                        b.ndefault += 1
            b.arity = _lambda_arity(callable_txt)
            b.returns_map = bool(re.search(r"->\s*std::map<", callable_txt))
            b.cls = None
            for pos, mk in makers:
                if pos < m.start():
                    b.cls = mk
            out.append(b)
    if len(out) < 300:
        raise AnalysisError("only %d pybind11 definitions extracted from src/python (anchor vanished?)" % len(out))
    _cache["b"] = out
    return out


def registered_classes():
    """Python class name -> maker function, from the make_X(m, "Name") calls of src/python/_ext.cpp"""
    if "r" in _cache:
        return _cache["r"]
    s = _strip_comments(open(os.path.join(REPO, "src", "python", "_ext.cpp"), encoding="utf-8").read())
    out = {}
    for m in re.finditer(r"(make_\w+)\s*(<[^>]*>)?\s*\(\s*\w+\s*,\s*\"(\w+)\"\s*\)", s):
        out[m.group(3)] = m.group(1)
    if len(out) < 30:
        raise AnalysisError("only %d class registrations found in src/python/_ext.cpp" % len(out))
    _cache["r"] = out
    return out


def rule_py_bindings(rep, floor=150):
    import ast
    from .. import pyfront as pf
    r = rep.rule("TABLE.py-bindings", "every call in src/awkward of a class or function implemented in the extension module (ak.layout.X(...), ak.forms.X(...), ak.types.X(...), ak._ext.f(...)) matches one of the "
                 "pybind11 signatures declared in src/python/*.cpp: keyword names are py::arg names of that overload, positional arguments do not exceed it, required arguments are given", floor=floor)
    bs = bindings()
    reg = registered_classes()
    inits = {}
    for b in bs:
        if b.is_init and b.cls:
            inits.setdefault(b.cls, []).append(b)
    funcs = {}
    for b in bs:
        if not b.is_init and not b.is_property and b.cls is None:
            funcs.setdefault(b.name, []).append(b)
    # module-level functions are .def'ed on the module object inside helper functions too: index them by name when unambiguous
    byname = {}
    for b in bs:
        if not b.is_init and not b.is_property:
            byname.setdefault(b.name, []).append(b)

    def fits(call, b):
        if any(isinstance(x, ast.Starred) for x in call.args) or any(k.arg is None for k in call.keywords):
            return True
        npos = len(call.args)
        maxpos = len(b.args) if b.args else (b.arity if b.arity is not None else 99)
        if npos > maxpos:
            return False
        for k in call.keywords:
            if k.arg not in b.args:
                return False
            if k.arg in b.args[:npos]:
                return False
        if b.args:
            nreq = len(b.args) - b.ndefault
            given = set(b.args[:npos]) | {k.arg for k in call.keywords}
            if any(a not in given for a in b.args[:nreq]):
                return False
        return True
    cnt = {}
    for rel in [x for x in pf.all_modules() if "generated_parser" not in x]:
        m = pf.module(rel)
        for call in ast.walk(m.tree):
            if not isinstance(call, ast.Call) or not isinstance(call.func, ast.Attribute):
                continue
            d = pf.dotted(call.func)
            if not d:
                continue
            parts = d.split(".")
            if len(parts) != 3 or parts[0] != "ak" or parts[1] not in ("layout", "forms", "types", "_ext", "_io"):
                continue
            name = parts[2]
            cands = None
            if name in reg and reg[name] in inits:
                cands = inits[reg[name]]
            elif name in reg and [b for b in byname.get("@maker", []) if b.cls == reg[name]]:
                cands = [b for b in byname["@maker"] if b.cls == reg[name]]
            elif parts[1] == "_ext" and name in byname:
                cands = byname[name]
            if not cands:
                continue
            k0 = (rel, name)
            cnt[k0] = cnt.get(k0, 0) + 1
            key = "%s->%s#%d" % (rel, name, cnt[k0])
            ok = any(fits(call, b) for b in cands)
            r.check(ok, key, m.where(call), "call `%s(%s)` in %s matches none of the %d pybind11 signature(s) of %s %s" % (d, ", ".join([str(len(call.args)) + " positional"] + [k.arg + "=" for k in call.keywords if k.arg]), rel, len(cands), name,
                    [b.args for b in cands][:3]), detail="matches a declared overload")
    return r.done()


def _isinst(x):
    import ast
    if isinstance(x, ast.Call) and isinstance(x.func, ast.Name) and x.func.id == "isinstance" and len(x.args) == 2:
        a = x.args[1]
        elts = a.elts if isinstance(a, ast.Tuple) else [a]
        return ast.unparse(x.args[0]), [ast.unparse(e).split(".")[-1] for e in elts]
    return None


def rule_py_layout_attrs(rep, floor=500):
    import ast
    from .. import pyfront as pf
    r = rep.rule("TABLE.py-layout-attrs", "every attribute the Python layer reads or calls on a layout object (an expression named layout / ending in .layout / ._layout) is a name that src/python/*.cpp binds "
                 "(.def / .def_property...) or that the package itself defines: a mistyped or renamed method would be an AttributeError at run time; "
                 "(b) a name that content.cpp binds only with .def (a method, never a property) is called where it is used on a layout expression; "
                 "(c) RecordForm.contents, which forms.cpp returns as a key-sorted std::map, is only looked up by key, never iterated", floor=floor)
    bound = {b.name for b in bindings()}
    mods = [x for x in pf.all_modules() if "generated_parser" not in x]
    pym = set()
    for rel in mods:
        for n in ast.walk(pf.module(rel).tree):
            if isinstance(n, (ast.FunctionDef, ast.ClassDef)):
                pym.add(n.name)
            if isinstance(n, ast.Assign):
                for t in n.targets:
                    if isinstance(t, ast.Attribute):
                        pym.add(t.attr)
    cnt = {}
    for rel in mods:
        m = pf.module(rel)
        for c in ast.walk(m.tree):
            if not isinstance(c, ast.Attribute):
                continue
            recv = ast.unparse(c.value)
            if not (recv in ("layout", "self._layout", "self.layout") or recv.endswith(".layout") or recv.endswith("._layout")):
                continue
            if recv in ("ak.layout", "awkward.layout") or recv.endswith("_numba.layout"):
                continue   # the module ak.layout, not a layout object
            if c.attr.startswith("__") or c.attr == "setter":
                continue
            k0 = (rel, c.attr)
            cnt[k0] = cnt.get(k0, 0) + 1
            r.check(c.attr in bound or c.attr in pym, "%s:%s.%s#%d" % (rel, recv[-20:], c.attr, cnt[k0]), m.where(c),
                    "%s uses `%s.%s`, but no class of the extension module binds `%s` and the package does not define it" % (rel, recv, c.attr, c.attr), detail="bound or defined")
    # (b) names that src/python/content.cpp binds only as methods are called, not read
    cb = [b for b in bindings() if b.file.endswith("content.cpp") and not b.is_init]
    methods = {b.name for b in cb if not b.is_property} - {b.name for b in cb if b.is_property}

    def islay(v):
        recv = ast.unparse(v)
        if recv in ("ak.layout", "awkward.layout") or recv.endswith("_numba.layout"):
            return False
        if recv in ("layout", "self._layout", "self.layout", "content") or recv.endswith(".layout") or recv.endswith("._layout"):
            return True
        if isinstance(v, ast.Call) and isinstance(v.func, ast.Attribute) and v.func.attr in ("content", "field", "project", "simplify", "toListOffsetArray64", "toRegularArray") and islay(v.func.value):
            return True
        if isinstance(v, ast.Attribute) and v.attr in ("content", "array") and islay(v.value):
            return True
        return False
    # (c) properties bound as std::map come back key-sorted: fine for lookup, wrong for iteration when order matters
    sorted_props = {b.name for b in bindings() if b.is_property and b.returns_map and b.file.endswith("forms.cpp")}
    if "contents" not in sorted_props:
        raise AnalysisError("RecordForm.contents is no longer bound as a std::map property (anchor moved): clause (c) of TABLE.py-layout-attrs needs re-reading")
    for rel in mods:
        m = pf.module(rel)
        k = 0
        for c in ast.walk(m.tree):
            if not (isinstance(c, ast.Attribute) and c.attr in sorted_props and isinstance(c.ctx, ast.Load)):
                continue
            recv = ast.unparse(c.value)
            isrecform = any(inb and any(ic and ic[0] == recv and "RecordForm" in ic[1] for ic in [_isinst(x) for x in ast.walk(t)]) for t, inb in pf.enclosing_tests(c))
            isrecform = isrecform or (recv == "form" and any(getattr(p_, "name", "") in ("form_tolookup", "from_form") and any(getattr(q_, "name", "") == "RecordArrayType" for q_ in pf.parent_chain(p_)) for p_ in pf.parent_chain(c)))
            if not isrecform:
                continue
            k += 1
            p_ = getattr(c, "_parent", None)
            iterated = (isinstance(p_, ast.Attribute) and p_.attr in ("items", "values", "keys")) or (isinstance(p_, (ast.For, ast.comprehension)) and p_.iter is c) or (isinstance(p_, ast.Call) and isinstance(p_.func, ast.Name) and p_.func.id in ("list", "enumerate", "tuple", "iter"))
            r.check(not iterated, "%s:%s.%s#iter%d" % (rel, recv, c.attr, k), m.where(c), "%s iterates `%s.%s`, which forms.cpp returns as a std::map (sorted by key): the order of the record's fields is lost - use key(i)/content(i) for i in range(numfields)" % (rel, recv, c.attr), detail="only looked up by key")
    for rel in mods:
        m = pf.module(rel)
        par = {}
        for x in ast.walk(m.tree):
            for ch in ast.iter_child_nodes(x):
                par[ch] = x
        k = 0
        for c in ast.walk(m.tree):
            if isinstance(c, ast.Attribute) and isinstance(c.ctx, ast.Load) and c.attr in methods and islay(c.value):
                p_ = par.get(c)
                k += 1
                called = isinstance(p_, ast.Call) and p_.func is c
                r.check(called, "%s:method.%s#%d" % (rel, c.attr, k), m.where(c), "%s reads `%s` without calling it: content.cpp binds %s only as a method, so the expression is a bound method, not its value" % (
                    rel, ast.unparse(c)[:60], c.attr), detail="method is called")
    return r.done()


def rule_py_record_methods(rep, floor=20):
    import ast
    from .. import pyfront as pf
    r = rep.rule("TABLE.py-record-methods", "a function of src/awkward/operations that converts its argument with to_layout(..., allow_record=True) (the default) and then calls a method on the result outside any isinstance test of that variable "
                 "only calls methods that ak.layout.Record binds too (src/python/content.cpp make_Record): Record is not a Content subclass - withparameter, localindex, fillna, num ... do not exist on it, so the documented ak.Record input raises AttributeError; "
                 "(b) highlevel.Record reads on self.layout only what make_Record binds; (c) an isinstance arm that names ak.layout.Record next to other layout classes only uses attributes Record binds", floor=floor)
    rec = {b.name for b in bindings() if b.cls == "make_Record"}
    if len(rec) < 15:
        raise AnalysisError("only %d bindings found for ak.layout.Record (anchor moved?)" % len(rec))
    for rel in [x for x in pf.all_modules() if x.startswith("operations/")]:
        m = pf.module(rel)
        for fd in m.tree.body:
            if not isinstance(fd, ast.FunctionDef):
                continue
            lay = {}
            for s_ in ast.walk(fd):
                if isinstance(s_, ast.Assign) and len(s_.targets) == 1 and isinstance(s_.targets[0], ast.Name) and isinstance(s_.value, ast.Call) and (pf.dotted(s_.value.func) or "").endswith("to_layout"):
                    ar = {kw.arg: kw.value for kw in s_.value.keywords}.get("allow_record")
                    if ar is None or (isinstance(ar, ast.Constant) and ar.value is True):
                        lay[s_.targets[0].id] = s_.lineno
            for n in ast.walk(fd):
                if not (isinstance(n, ast.Attribute) and isinstance(n.value, ast.Name) and n.value.id in lay and n.lineno > lay[n.value.id]):
                    continue
                own = None
                for p_ in pf.parent_chain(n):
                    if isinstance(p_, (ast.FunctionDef, ast.Lambda)):
                        own = p_
                        break
                if own is not fd:
                    continue
                v = n.value.id
                # inside an arm that established a class for v (any positive isinstance test on v, or the else of a test that names Record)
                guarded = False
                for t, inb in pf.enclosing_tests(n):
                    txt = ast.unparse(t)
                    if ("isinstance(%s," % v) in txt and (inb or "Record" in txt):
                        guarded = True
                # an earlier `if isinstance(v, ...Record...)` arm of the same chain
                for p_ in pf.parent_chain(n):
                    if isinstance(p_, ast.If):
                        q_ = p_
                        while getattr(q_, "_parent", None) is not None and isinstance(q_._parent, ast.If) and q_._parent.orelse == [q_]:
                            q_ = q_._parent
                            if ("isinstance(%s," % v) in ast.unparse(q_.test) and "Record" in ast.unparse(q_.test):
                                guarded = True
                key = "%s:%s:%s.%s" % (rel, fd.name, v, n.attr)
                if guarded:
                    r.ok(key, "under a class test")
                    continue
                r.check(n.attr in rec, key, m.where(n), "%s in %s calls `%s.%s` on the result of to_layout(..., allow_record=True) without a class test: ak.layout.Record has no %s" % (fd.name, rel, v, n.attr, n.attr), detail="bound on Record")
    # (b) methods of highlevel.Record: self.layout is an ak.layout.Record
    m = pf.module("highlevel.py")
    for c in ast.walk(m.tree):
        if isinstance(c, ast.ClassDef) and c.name == "Record":
            seen = set()
            for n in ast.walk(c):
                if isinstance(n, ast.Attribute) and isinstance(n.value, ast.Attribute) and n.value.attr in ("layout", "_layout") and isinstance(n.value.value, ast.Name) and n.value.value.id == "self" and isinstance(n.ctx, ast.Load):
                    if n.attr.startswith("__") or n.attr in seen:
                        continue
                    seen.add(n.attr)
                    r.check(n.attr in rec, "highlevel.py:Record:self.layout.%s" % n.attr, m.where(n), "highlevel.Record uses `self.layout.%s`, but ak.layout.Record binds no %s (AttributeError)" % (n.attr, n.attr), detail="bound on Record")
    # (c) arms that name ak.layout.Record among the accepted classes
    for rel in [x for x in pf.all_modules() if "generated_parser" not in x and not x.startswith("_connect/_numba")]:
        m = pf.module(rel)
        seen = set()
        for n in ast.walk(m.tree):
            if not (isinstance(n, ast.Attribute) and isinstance(n.value, ast.Name) and isinstance(n.ctx, ast.Load)):
                continue
            v = n.value.id
            for t_, inb in pf.enclosing_tests(n)[:1]:
                if not inb:
                    continue
                for x in ast.walk(t_):
                    ic = _isinst(x)
                    if ic and ic[0] == v and "ak.layout.Record" in [e_.strip() for e_ in ast.unparse(x.args[1]).strip("()").split(",")] and len(ic[1]) > 1:
                        own = None
                        for p_ in pf.parent_chain(n):
                            if isinstance(p_, (ast.FunctionDef, ast.Lambda)):
                                own = p_
                                break
                        key = "%s:%s:%s.%s" % (rel, getattr(own, "name", "<module>"), v, n.attr)
                        if key in seen or n.attr.startswith("__"):
                            continue
                        seen.add(key)
                        r.check(n.attr in rec, key + "@record-arm", m.where(n), "%s: under `%s` the code calls `%s.%s`, which ak.layout.Record does not bind" % (rel, ast.unparse(t_)[:70], v, n.attr), detail="bound on Record")
    return r.done()
