"""Rule families over kernel call sites in libawkward:
   B.2 DISPATCH  kernel::K<T> forwards positionally to the awkward_* symbol of the same kernel
   D   ERRFLOW   every Error produced by a kernel is handled before anything else happens
   C   ROLE      role stems of parameter and argument agree (starts/stops/offsets/index/tags/mask/parents/carry/...)
   I   FRESH     out-parameters receive buffers created in the same function
"""
import re
from ..facts import find_all, walk
from ..core import AnalysisError, load_table

NEST = ("if", "while", "dowhile", "for", "foreach", "try", "switch")


def sub_blocks(s):
    h = s[0]
    if h == "if":
        return [s[2], s[3]]
    if h in ("while", "dowhile"):
        return [s[2]]
    if h == "for":
        return [s[2], s[3]]
    if h == "foreach":
        return [s[4]]
    if h == "try":
        return [s[1]] + [b for _, b in s[2]]
    if h == "switch":
        return [b for _, b in s[2]]
    return []


def head_exprs(s):
    """the expressions evaluated by statement s itself (not its nested blocks)"""
    h = s[0]
    if h == "if":
        c = s[1]
        return (c[3],) if c[0] == "declcond" else (c,)
    if h in ("while", "dowhile", "for"):
        c = s[1]
        return (c[3],) if c and c[0] == "declcond" else (c,)
    if h == "foreach":
        return (s[3],)
    if h == "switch":
        return (s[1],)
    if h == "try":
        return ()
    return tuple(x for x in s[1:-1] if isinstance(x, tuple))


def each_block(stmts, fn, lambdas=True):
    fn(stmts)
    for s in stmts:
        for b in sub_blocks(s):
            each_block(b, fn, lambdas)
        if lambdas:
            for e in head_exprs(s):
                for lam in find_all(e, lambda n: n[0] == "lambda"):
                    each_block(lam[2], fn, lambdas)


def is_kernel_call(e, api=None):
    return isinstance(e, tuple) and len(e) >= 3 and e[0] == "call" and e[1][0] == "fn" and isinstance(e[1][1], str) and e[1][1].startswith("kernel::")


def kernel_api(fb):
    """kernel::NAME -> {'ret':..., 'params': (names...), 'overloads': [params...]} from kernel-dispatch.cpp / .h"""
    api = {}
    for p, tu in fb.lib_tus().items():
        for f in tu["funcs"]:
            if f["cls"] != "kernel" and not f["qual"].startswith("kernel::"):
                continue
            a = api.setdefault(f["qual"], {"ret": f["ret"], "overloads": [], "file": f["file"]})
            names = tuple(p[0] for p in f["params"])
            if (names, f["params"]) not in [(o[0], o[1]) for o in a["overloads"]]:
                a["overloads"].append((names, f["params"], f))
    if len(api) < 150:
        raise AnalysisError("kernel dispatch API has only %d entries" % len(api))
    return api


WIDTH_WORD = re.compile(r"^(u?int)?(8|16|32|64|u32|u8|b)?$")


def words(name):
    ws = []
    for w in name.replace("awkward_", "").split("_"):
        w = w.lower()
        w = re.sub(r"(u32|u8|[0-9]+)", " ", w)
        for x in w.split():
            if x and not WIDTH_WORD.match(x) and x not in ("to", "from"):
                ws.append(x)
    return ws


def _uncast(e):
    while e and e[0] == "cast":
        e = e[3]
    return e


def _vars(e):
    return {n[1] for n in find_all((e,), lambda n: n[0] == "var" and len(n) == 2)}


def rule_dispatch(rep, fb):
    r = rep.rule("KSIB.dispatch", "every kernel::K specialisation forwards its own parameters (minus ptr_lib) positionally to one awkward_* symbol whose name carries K's words and whose specification args have the same names", floor=650)
    spec = fb.spec()
    s2k = {}
    sargs = {}
    for k in spec:
        for sp in k["specializations"]:
            s2k[sp["name"]] = k["name"]
            sargs[sp["name"]] = [a["name"] for a in sp["args"]]
    api = kernel_api(fb)
    targets = {}
    for q, a in sorted(api.items()):
        if a["ret"] != "Error":
            continue
        for names, params, f in a["overloads"]:
            if not f["file"].endswith("kernel-dispatch.cpp"):
                continue
            where = "%s:%d" % (f["file"], f["line"])
            ptypes = ",".join(t for _, t in params[1:])
            key = "%s(%s)" % (q, ptypes)
            calls = find_all(f["body"], lambda n: n[0] == "call" and n[1][0] == "fn" and isinstance(n[1][1], str) and n[1][1].startswith("awkward_"))
            if not calls:
                if q in ("kernel::copy_to",):
                    continue
                r.fail(key, where, "dispatch function calls no awkward_* kernel")
                continue
            c = calls[0]
            sym = c[1][1]
            ok = True
            msg = []
            own = tuple(("var", n) for n in names[1:]) if names and names[0] == "ptr_lib" else tuple(("var", n) for n in names)
            if len(c[2]) != len(own) or any(_vars(a) != {o[1]} for a, o in zip(c[2], own)):
                ok = False
                msg.append("does not forward its parameters positionally (passes %s)" % ([a[1] if a[0] == "var" else "<expr>" for a in c[2]],))
            if sym not in s2k:
                ok = False
                msg.append("calls %s which is not a specialisation in kernel-specification.yml" % sym)
            else:
                kw, sw = words(q.replace("kernel::", "")), words(sym)
                tmp = list(sw)
                for wi, w in enumerate(kw):
                    if w in tmp:
                        tmp.remove(w)
                    elif wi == 0 and w.endswith("array"):
                        continue  # node-class prefix of the dispatch name (NumpyArray_sort -> awkward_sort)
                    else:
                        ok = False
                        msg.append("calls %s, whose name lacks '%s' of %s" % (sym, w, q))
                        break
                if len(sargs[sym]) != len([n for n in names if n != "ptr_lib"]):
                    ok = False
                    msg.append("takes %d parameters but %s is specified with %d" % (len(names) - 1, sym, len(sargs[sym])))
            # the cuda branch must look up the same symbol name
            syms = [x[2][1] for x in find_all(f["body"], lambda n: n[0] == "call" and n[1][0] == "fn" and n[1][1] == "kernel::acquire_symbol")]
            for sx in syms:
                cs = find_all(sx, lambda n: n[0] == "const" and isinstance(n[1], str))
                if cs and cs[0][1] != sym:
                    ok = False
                    msg.append("CPU branch calls %s but the dynamic branch looks up '%s'" % (sym, cs[0][1]))
            targets.setdefault(sym, set()).add(key)
            r.check(ok, key, where, "; ".join(msg), detail="-> %s(%s)" % (sym, ", ".join(n for n in names if n != "ptr_lib")))
    r.count("dispatch_specialisations", r.obligations)
    return r.done()


# ------------------------------------------------------------------------------------------------
# call sites

class Site:
    __slots__ = ("func", "call", "stmt", "block", "idx", "name", "line", "cont")

    def __init__(self, func, call, stmt, block, idx, cont=()):
        self.func, self.call, self.stmt, self.block, self.idx = func, call, stmt, block, idx
        self.name = call[1][1]
        self.line = call[3]
        self.cont = cont   # ((parent_block, index_of_parent_stmt, parent_stmt_kind), ...) innermost first


def each_block_cont(stmts, fn, cont=()):
    """like each_block but passes the continuation chain (where control goes after the block ends)"""
    fn(stmts, cont)
    for i, s in enumerate(stmts):
        for b in sub_blocks(s):
            each_block_cont(b, fn, ((stmts, i, s[0]),) + cont)


def kernel_sites(fb, api=None, files=None, inst=False):
    """all calls of Error-returning kernel::K functions outside kernel-dispatch.cpp"""
    api = api or kernel_api(fb)
    sites = []
    for f in fb.lib_funcs(inst=inst):
        if f["file"].endswith("kernel-dispatch.cpp") or f["file"].endswith("kernel-dispatch.h"):
            continue
        if files is not None and f["file"] not in files:
            continue

        def onblock(stmts, cont, f=f):
            for i, s in enumerate(stmts):
                for e in head_exprs(s):
                    for c in find_all(e, is_kernel_call):
                        a = api.get(c[1][1])
                        if a is None or a["ret"] != "Error":
                            continue
                        sites.append(Site(f, c, s, stmts, i, cont))
        each_block_cont(f["body"], onblock)
        # lambdas
        for lam in find_all(f["body"], lambda n: n[0] == "lambda"):
            each_block_cont(lam[2], onblock)
    # de-duplicate (lambda bodies are also reachable through head_exprs of the enclosing statement)
    seen = set()
    out = []
    for s in sites:
        k = (s.func["qual"], s.func["file"], s.line, s.name, id(s.call))
        if id(s.call) in seen:
            continue
        seen.add(id(s.call))
        out.append(s)
    return out


def site_key(site, ordinal):
    return "%s#%s#%d" % (site.func["qual"], site.name.replace("kernel::", ""), ordinal)


def keyed(sites):
    """stable keys: function + kernel + ordinal of that kernel within the function"""
    cnt = {}
    out = []
    for s in sorted(sites, key=lambda s: (s.func["file"], s.func["qual"], s.func["line"], s.line)):
        k0 = (s.func["qual"], s.func["file"], s.func["line"], s.name)
        cnt[k0] = cnt.get(k0, 0) + 1
        out.append((site_key(s, cnt[k0]), s))
    return out


def mentions(x, var):
    return bool(find_all(x, lambda n: n == ("var", var)))


def has_exit(s):
    return bool(find_all((s,), lambda n: n[0] in ("return", "throw", "break", "continue", "goto") and isinstance(n[-1], int)))


def _encl_switch(cont):
    for pb, pi, pk in cont:
        if pk == "switch":
            return True
        if pk in ("while", "dowhile", "for", "foreach"):
            return False
    return False


def can_fail_map(fb):
    """kernel::K -> True if any awkward_* symbol it dispatches to can return failure(...) (transitively through
    same-file helpers/templates)"""
    kf = fb.kernel_functions()
    memo = {}

    def fails(name, depth=0):
        if name in memo:
            return memo[name]
        memo[name] = False
        res = False
        for f in kf.get(name, []):
            if f["inst"]:
                continue
            if find_all(f["body"], lambda n: n[0] == "call" and n[1][0] == "fn" and n[1][1] == "failure"):
                res = True
                break
            for c in find_all(f["body"], lambda n: n[0] == "call" and n[1][0] == "fn" and isinstance(n[1][1], str) and n[1][1] in kf):
                if depth < 4 and fails(c[1][1], depth + 1):
                    res = True
                    break
            if res:
                break
        if name not in kf:
            res = True  # unknown: assume it can fail
        memo[name] = res
        return res

    out = {}
    for q, a in kernel_api(fb).items():
        cf = False
        known = False
        for names, params, f in a["overloads"]:
            for c in find_all(f["body"], lambda n: n[0] == "call" and n[1][0] == "fn" and isinstance(n[1][1], str) and n[1][1].startswith("awkward_")):
                known = True
                if fails(c[1][1]):
                    cf = True
        out[q] = cf or not known
    return out


def rule_errflow(rep, fb, files=None, floor=400, sites=None):
    r = rep.rule("ERRFLOW.handled", "every struct Error returned by a kernel is passed to util::handle_error (or has .str inspected) before any other use, exit or later kernel call", floor=floor)
    api = kernel_api(fb)
    canfail = can_fail_map(fb)
    sites = sites if sites is not None else kernel_sites(fb, api, files)
    for key, s in keyed(sites):
        where = "%s:%d" % (s.func["file"], s.line)
        st = s.stmt
        c = s.call
        # (a) direct argument of handle_error
        direct = find_all(st, lambda n: n[0] == "call" and n[1][0] == "fn" and n[1][1] == "util::handle_error" and n[2] and n[2][0] is c)
        if direct:
            r.ok(key, "result passed directly to util::handle_error")
            continue
        var = None
        if st[0] == "decl" and st[3] is c:
            var = st[1]
        elif st[0] == "assign" and st[2] is c and st[1][0] == "var":
            var = st[1][1]
        elif st[0] == "return" and st[1] is c and s.func["ret"] in ("Error", "ERROR", "const Error"):
            r.ok(key, "Error returned to the caller, which is itself checked")
            continue
        if var is None:
            if not canfail.get(s.name, True):
                r.ok(key, "Error discarded, but no path of %s (or of anything it calls) returns failure(...)" % s.name)
                continue
            r.fail(key, where, "the Error returned by %s is discarded or used in an unrecognised way (%s statement)" % (s.name, st[0]))
            continue
        ok = False
        why = "Error variable '%s' of %s is never handled on the path that follows the call" % (var, s.name)
        block, idx, cont = s.block, s.idx, list(s.cont)
        steps = 0
        while not ok and steps < 6:
            steps += 1
            stop = False
            for nxt in block[idx + 1:]:
                if nxt[0] == "expr" and nxt[1][0] == "call" and nxt[1][1][0] == "fn" and nxt[1][1][1] == "util::handle_error" and nxt[1][2] and nxt[1][2][0] == ("var", var):
                    ok = True
                    break
                if nxt[0] == "if" and find_all(nxt[1], lambda n: n[0] == "member" and n[1] == ("var", var) and n[2] == "str"):
                    ok = True
                    break
                if nxt[0] == "break" and cont and _encl_switch(cont):
                    # leaves the enclosing switch: continue after it
                    while cont and cont[0][2] != "switch":
                        cont.pop(0)
                    break
                if mentions(nxt, var):
                    why = "Error variable '%s' of %s is used at line %s before being handled" % (var, s.name, nxt[-1])
                    stop = True
                    break
                if has_exit(nxt):
                    why = "a path leaves the block at line %s before Error '%s' of %s is handled" % (nxt[-1], var, s.name)
                    stop = True
                    break
                if any(api.get(k[1][1], {}).get("ret") == "Error" for k in find_all(nxt, is_kernel_call)):
                    why = "another kernel is called at line %s before Error '%s' of %s is handled" % (nxt[-1], var, s.name)
                    stop = True
                    break
            if ok or stop or not cont:
                break
            # fall through to the statement after the enclosing if / switch / try (not out of a loop body)
            pb, pi, pk = cont.pop(0)
            if pk not in ("if", "switch", "try"):
                why = "Error variable '%s' of %s is not handled before the end of the enclosing %s body" % (var, s.name, pk)
                break
            block, idx = pb, pi
        r.check(ok, key, where, why, detail="%s = %s(...); util::handle_error(%s, ...)" % (var, s.name, var))
    r.count("kernel_call_sites", len(sites))
    return r.done()


# ------------------------------------------------------------------------------------------------
# ROLE

STEMS = ["start", "stop", "offset", "index", "tag", "mask", "parent", "carry", "advanced", "shift", "missing",
         "nextcarry", "outindex", "count", "distinct", "gap", "ptr", "length", "size", "target"]
ROLE_STEMS = ["start", "stop", "offset", "index", "tag", "mask", "parent", "carry", "advanced", "shift", "missing"]


def stems_of(name):
    n = (name or "").lower()
    return {s for s in ROLE_STEMS if s in n}


def root_ident(e):
    """root identifier of an argument expression: x.data(), x.ptr().get(), &x, x[i], member this->x_ ..."""
    while True:
        if e is None:
            return None
        h = e[0]
        if h == "var":
            return e[1]
        if h == "member":
            if e[1] == ("this",):
                return e[2]
            return e[2] if e[2] not in ("first", "second") else root_ident(e[1])
        if h in ("deref", "addr"):
            e = e[1]
        elif h == "mcall":
            if e[1] in ("data", "ptr", "get", "ptr_lib", "offset", "length", "size", "getitem_at_nowrap", "begin", "at", "front", "back") and not (e[1] == "length" and e[3] == ("this",)):
                e = e[3]
            elif e[3] == ("this",) or e[3][0] in ("deref",) and e[3][1] == ("this",):
                return e[1]
            else:
                return e[1] if e[1] not in ("data",) else None
        elif h == "idx":
            e = e[1]
        elif h == "cast":
            e = e[3]
        elif h == "call":
            return None
        elif h == "bin":
            return None
        else:
            return None


def rule_role(rep, fb, files=None, floor=500, sites=None):
    r = rep.rule("ROLE.kernel-args", "at each kernel call, when the parameter name and the argument's root identifier both carry a role stem (start/stop/offset/index/tag/mask/parent/carry/advanced/shift/missing) the stems intersect", floor=floor)
    api = kernel_api(fb)
    table = load_table("role_exceptions.json")
    sites = sites if sites is not None else kernel_sites(fb, api, files)
    pairs = 0
    for key, s in keyed(sites):
        a = api[s.name]
        names = a["overloads"][0][0]
        args = s.call[2]
        if len(names) != len(args):
            # overloads differ in arity?
            cand = [o[0] for o in a["overloads"] if len(o[0]) == len(args)]
            if not cand:
                r.fail(key, "%s:%d" % (s.func["file"], s.line), "call passes %d arguments but %s takes %d" % (len(args), s.name, len(names)))
                continue
            names = cand[0]
        for i, (pn, ae) in enumerate(zip(names, args)):
            ps = stems_of(pn)
            if not ps:
                continue
            rid = root_ident(ae)
            asx = stems_of(rid)
            if not asx:
                continue
            pairs += 1
            k2 = "%s:%s<-%s" % (key, pn, rid)
            tk = "%s#%s:%s<-%s" % (s.func["qual"], s.name.replace("kernel::", ""), pn, rid)
            if ps & asx:
                r.ok(k2, "%s <- %s" % (pn, rid))
            elif tk in table:
                r.excepted(tk, table[tk])
                r.ok(k2)
            else:
                r.fail(tk, "%s:%d" % (s.func["file"], s.line), "parameter '%s' of %s receives '%s' (role stems %s vs %s)" % (pn, s.name, rid, sorted(ps), sorted(asx)))
    r.count("stem_bearing_pairs", pairs)
    return r.done()


# ------------------------------------------------------------------------------------------------
# FRESH

def scoped_defs(site):
    """name -> [nearest reaching definition statement] for the site: walk backwards through the site's block and
    its enclosing blocks; the first `decl name` / `name = e` met is the definition in scope (declarations of the same
    name in sibling scopes are not visible)"""
    class D(dict):
        def __missing__(self, name):
            res = []
            chain = [(site.block, site.idx)] + [(pb, pi) for pb, pi, pk in site.cont]
            found = None
            for blk, idx in chain:
                for st in reversed(blk[:idx]):
                    if st[0] == "decl" and st[1] == name:
                        found = st
                        break
                    if st[0] == "assign" and st[1] == ("var", name):
                        found = ("decl", name, "?assigned", st[2], st[-1])
                        break
                    if st[0] in ("if", "switch", "try") and found is None:
                        # a conditional re-assignment earlier in the chain: keep looking for the declaration but
                        # remember that the variable may also hold what the branch assigned
                        for a in find_all(st, lambda n: n[0] == "assign" and len(n) == 4 and n[1] == ("var", name)):
                            res.append(("decl", name, "?assigned", a[2], a[-1]))
                if found is not None:
                    break
                # the statement that owns this block may declare it (if (T x = ...), foreach)
            if found is not None:
                res.append(found)
            if not res:
                # declcond / foreach variables / lambda parameters
                for n in find_all(site.func["body"], lambda n: n[0] == "declcond" and n[1] == name):
                    res.append(("decl", n[1], n[2], n[3], 0))
            self[name] = res
            return res

        def __contains__(self, name):
            return bool(self[name])

        def get(self, name, default=None):
            v = self[name]
            return v if v else default
    return D()


def local_decls(func):
    """name -> decl statement for every local declared anywhere in the function (incl. lambdas)"""
    d = {}
    for n in find_all(func["body"], lambda n: n[0] == "decl" and len(n) == 5):
        d.setdefault(n[1], []).append(n)
    for n in find_all(func["body"], lambda n: n[0] == "declcond"):
        d.setdefault(n[1], []).append(("decl", n[1], n[2], n[3], 0))
    return d


def spec_dirs(fb):
    """kernel::K parameter name -> dir, via the specification of the awkward_* symbols it dispatches to"""
    spec = fb.spec()
    sdir = {}
    for k in spec:
        for sp in k["specializations"]:
            sdir[sp["name"]] = {a["name"]: (a.get("dir"), a["type"]) for a in sp["args"]}
    api = kernel_api(fb)
    out = {}
    for q, a in api.items():
        for names, params, f in a["overloads"]:
            calls = find_all(f["body"], lambda n: n[0] == "call" and n[1][0] == "fn" and isinstance(n[1][1], str) and n[1][1].startswith("awkward_"))
            if calls and calls[0][1][1] in sdir:
                out[q] = sdir[calls[0][1][1]]
                break
    return out


def origin(e, func, decls, depth=0):
    """classify the storage a pointer argument designates:
       ('fresh', how) buffer constructed in this function; ('member', name); ('param', name); ('unknown', text)"""
    params = {p[0] for p in func["params"]}
    while True:
        h = e[0]
        if h in ("deref", "addr", "cast"):
            e = e[1] if h != "cast" else e[3]
            continue
        if h == "idx":
            e = e[1]
            continue
        if h == "bin" and e[1] in ("+", "-"):
            e = e[2]
            continue
        if h == "mcall" and e[1] in ("data", "ptr", "get", "begin", "front"):
            e = e[3]
            continue
        if h == "cond":
            a = origin(e[2], func, decls, depth)
            b = origin(e[3], func, decls, depth)
            return a if a[0] != "fresh" else b
        break
    h = e[0]
    if h == "var":
        n = e[1]
        if n in decls:
            worst = None
            for d in decls[n]:
                init = d[3]
                t = d[2]
                if init is None:
                    res = ("fresh", "local %s %s" % (t, n))
                elif SCALAR_T.match(t):
                    res = ("fresh", "local scalar %s %s" % (t, n))
                elif init[0] in ("ctor", "make", "new"):
                    # constructed here; but a copy-construction from an existing object shares its buffer
                    args = init[2]
                    if len(args) >= 1 and depth < 4 and init[0] == "ctor" and args[0][0] in ("var", "member", "mcall", "deref") and re.match(r"(const )?(Index(Of<.*>|8|U8|32|U32|64)|NumpyArray|ContentPtr|shared_ptr<.*>)(?!\w)", t) and not _is_lengthlike(args[0], func, decls):
                        res = origin(args[0], func, decls, depth + 1)
                    else:
                        res = ("fresh", "constructed here: %s %s(...)" % (t, n))
                elif init[0] == "call" and init[1][0] == "fn" and init[1][1] in ("kernel::malloc",):
                    res = ("fresh", "kernel::malloc")
                elif depth < 4 and init[0] in ("var", "member", "mcall", "deref", "cast", "call"):
                    res = origin(init, func, decls, depth + 1)
                else:
                    res = ("fresh", "local value")
                if worst is None or (worst[0] == "fresh" and res[0] != "fresh"):
                    worst = res
            return worst
        if n in params:
            pt = [t for pn, t in func["params"] if pn == n][0]
            if pt.rstrip().endswith("&") and not pt.startswith("const "):
                return ("fresh", "declared output: non-const reference parameter %s %s" % (pt, n))
            return ("param", n)
        return ("unknown", n)
    if h == "member":
        if e[1] == ("this",):
            return ("member", e[2])
        return origin(e[1], func, decls, depth)
    if h == "mcall":
        # result of a method call: an accessor of this or of another object returns shared storage
        recv = e[3]
        if e[1] in SCALAR_METHODS:
            return ("fresh", "scalar")
        if e[1] in ("deep_copy",):
            return ("fresh", "deep copy")
        if e[1] in FRESH_RETURNERS:
            return ("fresh", "result of %s(), every definition of which returns storage it allocated" % e[1])
        if recv == ("this",) or recv[0] == "member" or recv[0] == "var" or recv[0] == "deref" or recv[0] == "mcall":
            ro = origin(recv, func, decls, depth + 1) if recv != ("this",) else ("member", "this")
            if ro[0] == "fresh":
                return ("fresh", "accessor of a fresh object")
            return (ro[0], "%s.%s()" % (ro[1], e[1]))
        return ("unknown", e[1])
    if h in ("ctor", "make", "new"):
        # a temporary built around an existing buffer (Index(ptr_, offset, length), NumpyArray(..., ptr_, ...)) shares that buffer
        t = str(e[1])
        if depth < 4 and re.match(r"(const )?(Index(Of<.*>|8|U8|32|U32|64)|NumpyArray|shared_ptr<.*>)(?!\w)", t):
            for a in e[2]:
                if a[0] in ("var", "member", "mcall", "deref") and not _is_lengthlike(a, func, decls):
                    o = origin(a, func, decls, depth + 1)
                    if o[0] in ("member", "param"):
                        return o
        return ("fresh", "temporary")
    if h == "call":
        if e[1][0] == "fn" and e[1][1] in ("kernel::malloc",):
            return ("fresh", "kernel::malloc")
        if e[1][0] == "fn" and re.search(r"GrowableBuffer(<.*>)?::(empty|full|arange)$", str(e[1][1])):
            return ("fresh", "GrowableBuffer factory")
        return ("unknown", "call")
    if h == "const":
        return ("fresh", "constant")
    if h == "this":
        return ("member", "this")
    return ("unknown", h)


SCALAR_T = re.compile(r"^(const )?(u?int\d+_t|int|long|unsigned( int| long)?|size_t|ssize_t|bool|T|double|float|char)( &)?$")
SCALAR_METHODS = ("length", "size", "getitem_at_nowrap", "getitem_at", "offset", "itemsize", "ndim", "bytelength")


def _is_lengthlike(e, func=None, decls=None):
    if e[0] == "mcall" and e[1] in SCALAR_METHODS or e[0] in ("const", "bin", "un", "cond", "sizeof"):
        return True
    if e[0] == "cast":
        return _is_lengthlike(e[3], func, decls)
    if e[0] == "var" and func is not None:
        for n, t in func["params"]:
            if n == e[1]:
                return bool(SCALAR_T.match(t))
        for d in (decls or {}).get(e[1], []):
            if SCALAR_T.match(d[2]):
                return True
        return False
    if e[0] == "member" and (e[2].endswith("length_") or e[2] in ("size_", "length_", "offset_", "itemsize_")):
        return True
    if e[0] == "member" and e[1] == ("this",) and func is not None and FIELD_TYPES:
        t = FIELD_TYPES.get((func.get("cls") or func["qual"].split("::")[0], e[2]))
        if t is not None and SCALAR_T.match(t):
            return True
    return False


FIELD_TYPES = {}


def load_field_types(fb):
    """(class, field) -> declared type, so that scalar data members are recognised as lengths rather than storage"""
    if not FIELD_TYPES:
        for cn, c in fb.classes().items():
            for fn, ft in c.get("fields") or ():
                FIELD_TYPES[(cn, fn)] = ft
    return FIELD_TYPES


FRESH_RETURNERS = set()


class _PseudoSite:
    def __init__(self, func, block, idx, cont):
        self.func, self.block, self.idx, self.cont = func, block, idx, cont


def compute_fresh_returners(fb):
    """method names all of whose definitions return, on every return statement, storage created in the method
    (e.g. Reducer*::apply_<dtype>: kernel::malloc'ed output)"""
    byname = {}
    for f in fb.lib_funcs():
        if "shared_ptr" in f["ret"] or ("Ptr" in f["ret"] and "Content" not in f["ret"]) or re.search(r"\bIndex(Of|8|U8|32|U32|64)\b", f["ret"]):
            byname.setdefault(f["name"], []).append(f)
    good = set()
    for name, fs in byname.items():
        allok = True
        nret = 0
        for f in fs:
            def onblock(stmts, cont, f=f):
                nonlocal allok, nret
                for i, st in enumerate(stmts):
                    if st[0] == "return" and st[1] is not None:
                        nret += 1
                        ps = _PseudoSite(f, stmts, i, cont)
                        o = origin(st[1], f, scoped_defs(ps))
                        if o[0] != "fresh":
                            allok = False
            each_block_cont(f["body"], onblock)
        if allok and nret:
            good.add(name)
    return good


def rule_fresh(rep, fb, files=None, floor=400, sites=None):
    global FRESH_RETURNERS
    load_field_types(fb)
    FRESH_RETURNERS = set()
    for _ in range(4):   # fixpoint: a returner may return the result of another returner
        nxt = compute_fresh_returners(fb)
        if nxt == FRESH_RETURNERS:
            break
        FRESH_RETURNERS = nxt
    r = rep.rule("FRESH.kernel-out", "every argument bound to a kernel parameter that is dir: out in the specification, or that the CPU kernel's body writes through (derived from the kernel source: many in-place kernels are annotated dir: in), "
                 "designates storage created in the calling function (never a data member, a parameter or another object's buffer), outside the tabled in-place APIs", floor=floor)
    api = kernel_api(fb)
    dirs = spec_dirs(fb)
    from . import kwrites
    written = kwrites.kernel_api_writes(fb)
    table = load_table("fresh_exceptions.json")
    sites = sites if sites is not None else kernel_sites(fb, api, files)
    nout = 0
    for key, s in keyed(sites):
        d = dirs.get(s.name) or {}
        wr = written.get(s.name, set())
        if not d and not wr:
            continue
        a = api[s.name]
        names = a["overloads"][0][0]
        args = s.call[2]
        if len(names) != len(args):
            continue
        decls = scoped_defs(s)
        for pn, ae in zip(names, args):
            if not ((pn in d and d[pn][0] == "out" and "List[" in d[pn][1]) or pn in wr):
                continue
            nout += 1
            o = origin(ae, s.func, decls)
            k2 = "%s:%s" % (key, pn)
            tk = "%s#%s:%s<-%s:%s" % (s.func["qual"], s.name.replace("kernel::", ""), pn, o[0], o[1])
            if o[0] == "fresh":
                r.ok(k2, "%s <- %s" % (pn, o[1]))
            elif tk in table:
                r.excepted(tk, table[tk])
                r.ok(k2)
            else:
                r.fail(tk, "%s:%d" % (s.func["file"], s.line), "out-parameter '%s' of %s is bound to %s '%s' (not a buffer created in %s)" % (pn, s.name, o[0], o[1], s.func["qual"]))
    r.count("out_arguments", nout)
    return r.done()
