"""C15 rules: JSON writer/reader alphabet agreement, ToJson clones, balanced begin/end in tojson_part."""
from ..facts import find_all
from ..core import AnalysisError
from .kspec import cexpr, unparse, cstmts
from . import callsites as cs

# rapidjson SAX event <-> ArrayBuilder alphabet (the documented meaning of the two APIs)
EVENT_OF = {"null": "Null", "boolean": "Bool", "integer": "Int64", "real": "Double", "string": "String", "beginlist": "StartArray", "endlist": "EndArray",
            "beginrecord": "StartObject", "field": "Key", "endrecord": "EndObject"}
SAME_EVENT = {"Int": "Int64", "Uint": "Int64", "Uint64": "Int64", "Int64": "Int64"}
WRITERS = ("ToJsonString::Impl", "ToJsonPrettyString::Impl", "ToJsonFile::Impl", "ToJsonPrettyFile::Impl")


def rule_json_alphabet(rep, fb, floor=50):
    r = rep.rule("TABLE.json-alphabet", "writer and reader are inverse on the builder alphabet: every ToJson*::m (null, boolean, integer, real, string, beginlist, endlist, beginrecord, field, endrecord) emits the "
                 "rapidjson event of that name, and the SAX Handler callback of each event calls exactly that builder method with its own argument; every callback returns true", floor=floor)
    funcs = [f for f in fb.lib_funcs() if f["file"].endswith("io/json.cpp")]
    by = {}
    for f in funcs:
        by.setdefault((f["cls"], f["name"]), f)
    for w in WRITERS:
        for m, ev in EVENT_OF.items():
            f = by.get((w, m))
            key = "%s::%s" % (w, m)
            if not r.check(f is not None, key, "src/libawkward/io/json.cpp", "%s does not define %s" % (w, m)):
                continue
            calls = [c[1] for c in find_all(f["body"], lambda n: n[0] == "mcall" and n[3] == ("member", ("this",), "writer_"))]
            where = "%s:%d" % (f["file"], f["line"])
            if m == "real":
                ok = "Double" in calls and all(c in ("Double", "String") for c in calls)
                r.check(ok, key, where, "%s::real emits %s (expected Double, and String only for the user-chosen nan/inf spellings)" % (w, calls), detail="Double | String(nan/inf)")
            else:
                r.check(calls == [ev], key, where, "%s::%s emits %s (expected exactly %s)" % (w, m, calls, ev), detail="-> writer_.%s" % ev)
            # the value written is the method's own argument
            if f["params"] and m in ("boolean", "integer", "string", "field"):
                arg0 = ("var", f["params"][0][0])
                passes = any(c[4] and find_all((c[4][0],), lambda k: k == arg0) for c in find_all(f["body"], lambda n: n[0] == "mcall" and n[3] == ("member", ("this",), "writer_")))
                r.check(passes, key + ":arg", where, "%s::%s does not write its own argument" % (w, m))
    inv = {v: k for k, v in EVENT_OF.items()}
    for ev in ["Null", "Bool", "Int", "Uint", "Int64", "Uint64", "Double", "String", "StartArray", "EndArray", "StartObject", "EndObject", "Key"]:
        f = by.get(("Handler", ev))
        key = "Handler::" + ev
        if not r.check(f is not None, key, "src/libawkward/io/json.cpp", "the SAX Handler has no %s callback" % ev):
            continue
        want = inv[SAME_EVENT.get(ev, ev)]
        calls = [c for c in find_all(f["body"], lambda n: n[0] == "mcall" and n[3] == ("member", ("this",), "builder_"))]
        names = [c[1] for c in calls]
        where = "%s:%d" % (f["file"], f["line"])
        if ev == "String":
            ok = "string" in names and all(n in ("string", "real") for n in names)
            r.check(ok, key, where, "Handler::String calls %s (expected builder.string, and builder.real only for the nan/inf spellings)" % names, detail="-> string | real(nan/inf)")
        elif ev == "Key":
            r.check(names in (["field_check"], ["field"], ["field_fast"]), key, where, "Handler::Key calls %s (expected builder.field*)" % names, detail="-> field_check")
        else:
            r.check(names == [want], key, where, "Handler::%s calls %s (expected exactly builder.%s)" % (ev, names, want), detail="-> builder.%s" % want)
        if f["params"] and ev in ("Bool", "Int", "Uint", "Int64", "Uint64", "Double"):
            arg0 = ("var", f["params"][0][0])
            r.check(any(c[4] and find_all((c[4][0],), lambda k: k == arg0) for c in calls), key + ":arg", where, "Handler::%s does not forward its own argument" % ev)
        rets = find_all(f["body"], lambda n: n[0] == "return" and isinstance(n[-1], int) and n[1] is not None)
        r.check(bool(rets) and all(cexpr(x[1]) == ("const", 1) for x in rets), key + ":returns-true", where, "Handler::%s does not return true on every path (a false return aborts the parse)" % ev)
    return r.done()


def rule_json_clones(rep, fb, floor=30):
    r = rep.rule("CLONE.json-writers", "the four ToJson*::Impl writer classes are clones of one another method by method (modulo class and rapidjson writer type names), "
                 "so string/pretty/file output agree on nan/inf/complex handling", floor=floor)
    from .structure import _strip_lines
    funcs = [f for f in fb.lib_funcs() if f["file"].endswith("io/json.cpp") and f["cls"] in WRITERS]
    by = {}
    for f in funcs:
        by.setdefault((f["cls"], f["name"], len(f["params"])), f)
    ref = WRITERS[0]
    for (cls, name, ar), f in sorted(by.items()):
        if cls == ref or name in ("Impl", "~Impl", "tostring"):
            continue
        g = by.get((ref, name, ar))
        key = "%s::%s~%s" % (cls, name, ref)
        if g is None:
            r.excepted(key, "no counterpart in %s" % ref)
            continue
        a, b = _strip_lines(cstmts(f["body"])), _strip_lines(cstmts(g["body"]))
        from .kspec import first_diff
        r.check(a == b, key, "%s:%d" % (f["file"], f["line"]), "%s::%s differs from %s::%s: %s" % (cls, name, ref, name, first_diff(a, b)), detail="identical")
    return r.done()


BEGIN_END = {"beginlist": ("L", 1), "endlist": ("L", -1), "beginrecord": ("R", 1), "endrecord": ("R", -1)}


def rule_json_balanced(rep, fb, floor=12):
    r = rep.rule("PAIR.tojson-balanced", "in every tojson_part / tojson helper that drives a ToJson builder, beginlist/endlist and beginrecord/endrecord are balanced on every path "
                 "(loop bodies and both arms of every branch have zero net effect; no return with an open list or record)", floor=floor)

    def net(stmts, key, where, f, flags=None, base=(0, 0)):
        """returns (dL, dR) or None if unbalanced was reported; flags: assumed values of boolean parameters tested as bare conditions"""
        flags = flags or {}
        tot = [0, 0]
        for s in stmts:
            h = s[0]
            if h == "if" and s[1][0] == "var" and s[1][1] in flags:
                a = net(s[2] if flags[s[1][1]] else s[3], key, where, f, flags, (base[0] + tot[0], base[1] + tot[1]))
                if a is None:
                    return None
                tot[0] += a[0]
                tot[1] += a[1]
            elif h == "if":
                a = net(s[2], key, where, f, flags, (base[0] + tot[0], base[1] + tot[1]))
                b = net(s[3], key, where, f, flags, (base[0] + tot[0], base[1] + tot[1]))
                if a is None or b is None:
                    return None
                ea, eb = _exits(s[2]), _exits(s[3])
                if ea and not eb:
                    a = b
                elif eb and not ea:
                    b = a
                if a != b:
                    r.fail(key + ":branch@%d" % s[-1], where, "%s: the two arms of the branch at line %d open/close a different number of lists/records (%s vs %s)" % (f["qual"], s[-1], a, b))
                    return None
                tot[0] += a[0]
                tot[1] += a[1]
            elif h in ("for", "while", "dowhile", "foreach"):
                body = s[2] if h != "foreach" else s[4]
                a = net(body, key, where, f, flags, (base[0] + tot[0], base[1] + tot[1]))
                if a is None:
                    return None
                if a != (0, 0):
                    r.fail(key + ":loop@%d" % s[-1], where, "%s: the loop at line %d has a net effect of %s on open lists/records per iteration" % (f["qual"], s[-1], a))
                    return None
            elif h in ("switch", "try"):
                for b_ in cs.sub_blocks(s):
                    a = net(b_, key, where, f, flags, (base[0] + tot[0], base[1] + tot[1]))
                    if a is None:
                        return None
            else:
                if h == "return" and (base[0] + tot[0] != 0 or base[1] + tot[1] != 0):
                    r.fail(key + ":return@%d" % s[-1], where, "%s returns at line %d with %d list(s) / %d record(s) still open" % (f["qual"], s[-1], tot[0], tot[1]))
                    return None
                for c in find_all((s,), lambda n: n[0] == "mcall" and n[1] in BEGIN_END and n[3] in (("var", "builder"), ("deref", ("var", "builder")))):
                    k, d = BEGIN_END[c[1]]
                    tot[0 if k == "L" else 1] += d
                    if base[0] + tot[0] < 0 or base[1] + tot[1] < 0:
                        r.fail(key + ":underflow@%d" % c[-1], where, "%s closes a list/record at line %d that it did not open" % (f["qual"], c[-1]))
                        return None
        return (tot[0], tot[1])

    def _exits(b):
        return bool(b) and b[-1][0] in ("return", "throw")

    n = 0
    for f in fb.lib_funcs():
        if not find_all(f["body"], lambda k: k[0] == "mcall" and k[1] in BEGIN_END and k[3] in (("var", "builder"), ("deref", ("var", "builder")))):
            continue
        if f["file"].endswith("io/json.cpp"):
            continue
        n += 1
        key = "%s/%d" % (f["qual"], len(f["params"]))
        where = "%s:%d" % (f["file"], f["line"])
        # boolean parameters that are tested as bare conditions and never assigned: analyse each valuation separately
        bflags = [pn for pn, pt in f["params"] if pt.replace("const ", "") == "bool" and find_all(f["body"], lambda k: k[0] == "if" and isinstance(k[-1], int) and k[1] == ("var", pn))
                  and not find_all(f["body"], lambda k: k[0] == "assign" and k[1] == ("var", pn))]
        import itertools
        for vals in itertools.product((True, False), repeat=len(bflags)):
            fl = dict(zip(bflags, vals))
            k2 = key + ("[" + ",".join("%s=%d" % (a, b) for a, b in fl.items()) + "]" if fl else "")
            res = net(f["body"], k2, where, f, fl)
            if res is not None:
                r.check(res == (0, 0), k2, where, "%s leaves %s lists/records open%s" % (f["qual"], res, " when " + str(fl) if fl else ""), detail="balanced")
    r.count("functions", n)
    return r.done()


def _all_paths_throw(block):
    if not block:
        return False
    last = block[-1]
    if last[0] == "throw":
        return True
    if last[0] == "if":
        return _all_paths_throw(last[2]) and _all_paths_throw(last[3])
    return False


def rule_json_parse_errors(rep, fb):
    r = rep.rule("ERRFLOW.json-parse", "do_parse tests the result of rapidjson's Parse for every document and throws on every path where parsing stopped before the document was complete "
                 "(malformed or truncated JSON never yields a partial array)", floor=2)
    fs = [f for f in fb.lib_funcs() if f["name"] == "do_parse" and f["file"].endswith("io/json.cpp")]
    if not fs:
        raise AnalysisError("do_parse not found in json.cpp")
    for f in fs:
        where = "%s:%d" % (f["file"], f["line"])
        decls = [d for d in find_all(f["body"], lambda n: n[0] == "decl" and len(n) == 5 and n[3] is not None and find_all((n[3],), lambda k: k[0] in ("mcall", "call") and "Parse" in str(k[1])))]
        if not r.check(bool(decls), "do_parse:calls-Parse", where, "do_parse does not keep the result of reader.Parse(...)"):
            continue
        var = decls[0][1]
        ok = False
        # the test must sit in the same block as the Parse call, right after it: a test nested under another condition
        # (as the original `if (handler.moved()) { if (!fully_parsed) ...` was) lets some failed parses through
        from .callsites import each_block
        blocks = []
        each_block(f["body"], lambda stmts: blocks.append(stmts))
        for stmts in blocks:
            idx = [i for i, st in enumerate(stmts) if st is decls[0]]
            if not idx:
                continue
            for iff in stmts[idx[0] + 1:]:
                if iff[0] != "if" or iff[1][0] == "declcond":
                    continue
                c = cexpr(iff[1])
                if c == ("un", "!", ("var", var)) and _all_paths_throw(iff[2]):
                    ok = True
                if c == ("var", var) and _all_paths_throw(iff[3]):
                    ok = True
        r.check(ok, "do_parse:incomplete-throws", where, "do_parse has no unconditional `if (!%s)` all of whose paths throw in the block that calls Parse: some incompletely parsed documents are no longer an error" % var, detail="if (!%s) throw ..., unconditionally after Parse" % var)
        # the snapshot is taken only after the loop (never returned from inside it)
        loops = find_all(f["body"], lambda n: n[0] == "while" and isinstance(n[-1], int))
        inside = any(find_all(l[2], lambda n: n[0] == "return") for l in loops)
        r.check(not inside, "do_parse:no-return-in-loop", where, "do_parse returns from inside the document loop (a partial result)", detail="result built after the loop")
    return r.done()


def rule_json_writer_result(rep, fb, floor=4):
    r = rep.rule("ERRFLOW.json-writer", "rapidjson's Writer::Double returns false (after having written the separating comma) when it refuses a non-finite value: every call of writer_.Double(...) in json.cpp tests the result "
                 "and turns a refusal into an exception - an ignored refusal leaves a hole in the text ([1.5,,])", floor=floor)
    fs = [f for f in fb.lib_funcs(inst=False) if f["file"].endswith("io/json.cpp")]
    if not fs:
        raise AnalysisError("no functions from io/json.cpp")
    n = 0
    for f in fs:
        def onblock(stmts, cont, f=f):
            nonlocal n
            for s in stmts:
                for c in find_all(tuple(head_exprs(s)), lambda k: k[0] == "mcall" and k[1] == "Double" and k[3] in (("member", ("this",), "writer_"), ("var", "writer_"))):
                    n += 1
                    tested = s[0] == "if" and bool(find_all((s[1],), lambda k: k is c)) and (_all_paths_throw(s[2]) or _all_paths_throw(s[3]))
                    r.check(tested, "%s#Double#%d" % (f["qual"], n), "%s:%d" % (f["file"], c[-1]), "%s ignores the result of writer_.Double(...): a refused NaN/infinity silently disappears from the output" % f["qual"],
                            detail="if (!writer_.Double(x)) throw")
        from .callsites import each_block_cont, head_exprs
        each_block_cont(f["body"], onblock)
    return r.done()


def rule_json_substitution(rep, fb, floor=4):
    r = rep.rule("FORWARD.json-substitution", "the nan/infinity substitution lives in ToJson*::real: the raw writer (impl_->real) is called only from a method named real, and no ToJson* method delegates a "
                 "floating-point value to impl_->complex (which writes both parts raw)", floor=floor)
    fs = [f for f in fb.lib_funcs(inst=False) if f["file"].endswith("io/json.cpp") and (f.get("cls") or "").startswith("ToJson")]
    if len(fs) < 20:
        raise AnalysisError("ToJson* methods not found in io/json.cpp")
    n = 0
    for f in fs:
        for c in find_all(f["body"], lambda k: k[0] == "mcall" and k[1] in ("real", "complex") and find_all((k[3],), lambda m: m == ("member", ("this",), "impl_"))):
            n += 1
            key = "%s->impl_.%s#%d" % (f["qual"], c[1], n)
            where = "%s:%d" % (f["file"], c[-1])
            if c[1] == "real":
                r.check(f["name"] == "real", key, where, "%s writes a double through impl_->real directly, bypassing the nan/infinity substitution of %s::real" % (f["qual"], f.get("cls")), detail="called from real()")
            else:
                r.fail(key, where, "%s delegates to impl_->complex, which writes the real and imaginary parts with the raw writer and bypasses the nan/infinity substitution" % f["qual"])
    return r.done()


def rule_json_flag(rep, fb, floor=15):
    from .callsites import each_block_cont, head_exprs
    r = rep.rule("PAIR.tojson-flag", "a tojson helper that takes include_beginendlist opens/closes the list around its own items (a beginlist/endlist outside every loop) only under `if (include_beginendlist)`: "
                 "callers that pass false (PartitionedArray, which concatenates the items of its partitions) rely on getting bare items", floor=floor)
    for f in fb.lib_funcs(inst=False):
        if "include_beginendlist" not in [p[0] for p in f["params"]]:
            continue
        n = 0

        def onblock(stmts, cont, f=f):
            nonlocal n
            inloop = any(pk in ("for", "foreach", "while", "dowhile") for pb, pi, pk in cont)
            guarded = any(pb[pi][0] == "if" and find_all((pb[pi][1],), lambda k: k == ("var", "include_beginendlist")) for pb, pi, pk in cont)
            for s in stmts:
                if s[0] != "expr":
                    continue
                for c in find_all((s[1],), lambda k: k[0] == "mcall" and k[1] in ("beginlist", "endlist") and k[3] == ("var", "builder")):
                    n += 1
                    key = "%s#%s#%d" % (f["qual"], c[1], n)
                    r.check(inloop or guarded, key, "%s:%d" % (f["file"], c[-1]), "%s calls builder.%s() around its items regardless of include_beginendlist" % (f["qual"], c[1]), detail="inside the item loop or under the flag")
        each_block_cont(f["body"], onblock)
    return r.done()


def rule_json_parameters(rep, fb, floor=10):
    r = rep.rule("GUARD.json-parameters", "the caller's numbers reach RapidJSON only after they were checked: (a) every buffer allocated in io/json.cpp for a RapidJSON stream has its size passed through "
                 "checked_buffersize (FileWriteStream with a zero-size buffer writes through buffer_[0]; FileReadStream needs 4 bytes); (b) every writer_.SetMaxDecimalPlaces(maxdecimals) sits under "
                 "`maxdecimals >= 1` after a test of maxdecimals that throws (0 prints 1.5 as '1.', more than 324 indexes past RapidJSON's tables); (c) the SAX handler counts nesting: StartArray/StartObject "
                 "call the depth check that throws, EndArray/EndObject undo it (the recursive descent of the parser and of every consumer of the built array is otherwise bounded only by the stack)", floor=floor)
    funcs = [f for f in fb.lib_funcs() if f["file"].endswith("io/json.cpp")]
    if len(funcs) < 40:
        raise AnalysisError("io/json.cpp: only %d functions found" % len(funcs))
    chk = [f for f in funcs if f["name"] == "checked_buffersize"]
    if r.check(bool(chk), "checked_buffersize", "src/libawkward/io/json.cpp", "checked_buffersize is gone"):
        f = chk[0]
        ok = bool(find_all(f["body"], lambda k: k[0] == "if" and find_all((k[1],), lambda m: m[0] == "bin" and m[1] in ("<", "<=", ">", ">=")) and find_all(k[2], lambda m: m[0] == "throw")))
        r.check(ok, "checked_buffersize:throws", "%s:%d" % (f["file"], f["line"]), "checked_buffersize no longer throws for a size below the minimum")
    n = 0
    for f in funcs:
        where = "%s:%d" % (f["file"], f["line"])
        allocs = list(find_all(f["body"], lambda k: k[0] == "call" and "malloc" in repr(k[1])))
        for name, init in (f.get("inits") or ()):
            allocs += list(find_all((init,), lambda k: k[0] == "call" and "malloc" in repr(k[1])))
        for a in allocs:
            n += 1
            size = a[2][-1] if a[2] else None
            ok = size is not None and size[0] == "call" and "checked_buffersize" in repr(size[1])
            r.check(ok, "%s#malloc" % f["qual"], where, "%s allocates a stream buffer whose size did not pass through checked_buffersize" % f["qual"], detail="size checked")
        for m in find_all(f["body"], lambda k: k[0] == "mcall" and k[1] == "SetMaxDecimalPlaces"):
            n += 1
            under = find_all(f["body"], lambda k: k[0] == "if" and cexpr(k[1]) in (("bin", "<", ("const", 0), ("var", "maxdecimals")), ("bin", "<=", ("const", 1), ("var", "maxdecimals"))) and find_all(k[2], lambda q: q is m))
            refuse = find_all(f["body"], lambda k: k[0] == "if" and "maxdecimals" in repr(k[1]) and find_all((k[1],), lambda q: q[0] == "bin" and q[1] == "==" and ("const", 0) in (q[2], q[3]))
                              and find_all((k[1],), lambda q: q[0] == "bin" and q[1] in (">", ">=", "<", "<=") and any(x[0] == "const" and isinstance(x[1], int) and 17 <= x[1] <= 324 for x in (q[2], q[3])))
                              and find_all(k[2], lambda q: q[0] == "throw"))
            r.check(bool(under) and bool(refuse), "%s#maxdecimals" % f["qual"], where, "%s hands maxdecimals to RapidJSON without refusing 0 and values beyond 324 first (guard `>= 1`: %s, refusal: %s)" % (f["qual"], bool(under), bool(refuse)),
                    detail="1..324 only")
    by = {f["name"]: f for f in funcs if (f.get("cls") or "") == "Handler"}
    for ev in ("StartArray", "StartObject"):
        f = by.get(ev)
        if r.check(f is not None, "Handler::%s" % ev, "src/libawkward/io/json.cpp", "Handler::%s not found" % ev):
            calls = [c[1] for c in find_all(f["body"], lambda k: k[0] == "mcall" and k[3] == ("this",))]
            deep = [by[c] for c in calls if c in by and find_all(by[c]["body"], lambda k: k[0] == "if" and "depth_" in repr(k[1]) and find_all(k[2], lambda q: q[0] == "throw"))]
            r.check(bool(deep), "Handler::%s:depth" % ev, "%s:%d" % (f["file"], f["line"]), "Handler::%s opens a nesting level without the depth check that throws" % ev, detail="depth checked")
    for ev in ("EndArray", "EndObject"):
        f = by.get(ev)
        if r.check(f is not None, "Handler::%s" % ev, "src/libawkward/io/json.cpp", "Handler::%s not found" % ev):
            dec = find_all(f["body"], lambda k: k[0] == "aug" and k[1] == "-" and k[2] == ("member", ("this",), "depth_"))
            r.check(bool(dec), "Handler::%s:depth" % ev, "%s:%d" % (f["file"], f["line"]), "Handler::%s closes a nesting level without decrementing depth_: a long flat sequence of small lists is refused as too deep" % ev, detail="depth undone")
    r.count("sites", n)
    return r.done()


def rule_json_int_width(rep, fb, floor=3):
    r = rep.rule("JSON.int-width", "a RapidJSON value read with GetInt64()/GetUint64() is tested with IsInt64()/IsUint64() on the same value, not with IsInt()/IsUint(): those answer whether the number fits 32 bits, "
                 "so a 64-bit field that the writer emits (a RegularForm size or inner_shape beyond 2^31) is refused by the reader", floor=floor)
    from .lints3 import cs_noline
    n = 0
    for f in fb.lib_funcs(inst=False):
        gets = find_all(f["body"], lambda k: k[0] == "mcall" and k[1] in ("GetInt64", "GetUint64"))
        if not gets:
            continue
        tests = {}
        for t in find_all(f["body"], lambda k: k[0] == "mcall" and k[1] in ("IsInt", "IsUint", "IsInt64", "IsUint64", "IsNumber")):
            tests.setdefault(repr(cs_noline(t[3])), set()).add(t[1])
        for g in gets:
            n += 1
            key = repr(cs_noline(g[3]))
            ts = tests.get(key, set())
            narrow = ts & {"IsInt", "IsUint"}
            r.check(not narrow, "%s#%d" % (f["qual"], n), "%s:%d" % (f["file"], g[-1] if isinstance(g[-1], int) else f["line"]),
                    "%s reads %s with %s() after testing it with %s(): numbers beyond 32 bits are refused although 64 are read" % (f["qual"], unparse(cexpr(g[3]))[:50], g[1], "/".join(sorted(narrow))), detail="tested with %s" % ("/".join(sorted(ts)) or "nothing narrower"))
    return r.done()
