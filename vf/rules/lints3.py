"""Typed lints (they read the types clang computed: the 'widen' marker, the type of a conditional expression) and a few
class-level rules written after the second baseline hunt (kernels vs. definitions, sort, LayoutBuilder, AwkwardForth)."""
import os
import re
from ..facts import find_all
from ..core import AnalysisError
from . import callsites as cs

_UNSIGNED = re.compile(r"^(const )?(unsigned (int|long|long long)|uint32_t|uint64_t|size_t|unsigned)$")


def _all_funcs(fb, inst):
    out = []
    for fs in fb.kernel_functions().values():
        out += [g for g in fs if bool(g["inst"]) == inst or (not inst and not g["inst"])]
    out += fb.lib_funcs(inst=inst)
    if not inst:
        out += fb.binding_funcs()
    return out


def _positive(kind):
    from .. import cxx
    sample = os.path.join(cxx.VERIF, "selftest", "positive", "narrow_arith.cpp")
    tu = cxx.parse_tu(sample, "lib")
    return sum(len(find_all(g["body"], kind)) for g in tu["funcs"])


def rule_narrow_arith(rep, fb, floor=1, name="WIDTH.narrow-arith"):
    r = rep.rule(name, "in every kernel specialisation and libawkward instantiation no sum or product is computed in 32 bits (or less) and only then widened to 64 bits for a comparison or a subscript "
                 "(`idx + 1 >= offsetslength` with a 32-bit idx): at the largest value of the narrow type the sum has already wrapped, so the range check passes and the access goes far out of bounds. "
                 "Differences (`stops[i] - starts[i]`) and shifts of byte-table entries are exempt", floor=floor)
    is_w = lambda k: k[0] == "widen" and k[3][0] == "bin" and k[3][1] in ("+", "*")
    n = 0
    for inst in (False, True):
        for f in _all_funcs(fb, inst):
            for w in find_all(f["body"], is_w):
                n += 1
                r.fail("%s%s#widen%d" % (f["qual"], list(f.get("ftargs") or f.get("targs") or ()), n), "%s:%d" % (f["file"], f["line"]),
                       "%s computes `%s` in %s and widens the result afterwards: cast an operand to int64_t first" % (f["qual"], str(cs.root_ident(w[3][2]) or w[3][2])[:30] + " " + w[3][1] + " ...", w[2]))
    if _positive(is_w) < 1:
        raise AnalysisError("the narrow-arithmetic matcher did not fire on selftest/positive/narrow_arith.cpp")
    r.ok("tree-wide", "matcher fires on the positive example; %d occurrences in the tree" % n)
    return r.done()


def rule_cond_unsigned(rep, fb, floor=1, name="SIGN.cond-unsigned"):
    r = rep.rule(name, "a conditional expression with a negative literal in one arm does not have an unsigned type (`m ? -1 : fromindex[i]` with fromindex of uint32_t yields 4294967295, not -1): "
                 "decided on clang's own type of the expression in every instantiation", floor=floor)

    def neg(e):
        return (e[0] == "un" and e[1] == "-" and e[2][0] == "const") or (e[0] == "const" and isinstance(e[1], (int, float)) and not isinstance(e[1], bool) and e[1] < 0)
    is_c = lambda k: k[0] == "cond" and len(k) >= 5 and (neg(k[2]) or neg(k[3])) and _UNSIGNED.match(str(k[4]) or "")
    n = m = 0
    for inst in (False, True):
        for f in _all_funcs(fb, inst):
            for c in find_all(f["body"], lambda k: k[0] == "cond" and len(k) >= 5 and (neg(k[2]) or neg(k[3]))):
                m += 1
                if _UNSIGNED.match(str(c[4]) or ""):
                    n += 1
                    r.fail("%s%s#cond%d" % (f["qual"], list(f.get("ftargs") or f.get("targs") or ()), n), "%s:%d" % (f["file"], f["line"]),
                           "%s: a conditional with a negative literal arm has type %s, so the negative value wraps to a large positive one" % (f["qual"], c[4]))
    if _positive(is_c) < 1:
        raise AnalysisError("the unsigned-conditional matcher did not fire on selftest/positive/narrow_arith.cpp")
    r.count("conditionals_with_negative_arm", m)
    for i in range(0, max(m, 1), 10):
        r.ok("cond#%d" % i, "signed result type")
    return r.done()


def rule_union_alternatives(rep, fb, floor=10, name="BUILDER.union-alternatives"):
    r = rep.rule(name, "every place where UnionBuilder adds an alternative (contents_.push_back) is preceded, in the same block, by a test of contents_.size() against kMaxInt8 that throws: tags and current_ are "
                 "8-bit and UnionArray itself supports kMaxInt8 = 127 contents (a literal 128 let one alternative too many in: every snapshot of the builder then raised)", floor=floor)
    fs = [f for f in fb.lib_funcs(inst=False) if (f.get("cls") or "") == "UnionBuilder"]
    if len(fs) < 15:
        raise AnalysisError("UnionBuilder methods not found")
    n = 0

    def onblock(stmts):
        nonlocal n
        for i, s in enumerate(stmts):
            if s[0] in ("if", "while", "for", "switch", "dowhile", "foreach", "try"):
                continue
            for m in find_all((s,), lambda k: k[0] == "mcall" and k[1] == "push_back" and k[3] == ("member", ("this",), "contents_")):
                n += 1
                guard = any(p[0] == "if" and "contents_" in repr(p[1]) and "kMaxInt8" in repr(p[1]) and find_all((p[1],), lambda k: k[0] == "mcall" and k[1] == "size") and find_all(p[2], lambda k: k[0] == "throw") for p in stmts[:i])
                r.check(guard, "%s#push_back%d" % (cur["qual"], n), "%s:%d" % (cur["file"], m[-1] if isinstance(m[-1], int) else cur["line"]), "%s adds an alternative without checking that the 8-bit tag can still number it" % cur["qual"], detail="size guard that throws")
    for f in fs:
        cur = f
        cs.each_block(f["body"], onblock)
    return r.done()


def rule_forth_source_literals(rep, fb, floor=20, name="FORTH.generated-source"):
    r = rep.rule(name, "the AwkwardForth text that the LayoutBuilder node classes assemble from string literals (src/libawkward/layoutbuilder/*.cpp) is well-formed and composable: "
                 "(a) `s\\\"` and `.\\\"` are followed by a blank (they are words, the string starts after the blank); (b) a `variable` is never declared under a fixed name in a node class - two nodes of that class "
                 "in one Form would declare it twice - its name contains the node's own vm_func_name_/vm_output_data_; (c) begin_list and end_list of one class do not have identical bodies", floor=floor)
    fs = [f for f in fb.lib_funcs(inst=False) if f["file"].startswith("src/libawkward/layoutbuilder/")]
    if len(fs) < 60:
        raise AnalysisError("only %d function bodies under src/libawkward/layoutbuilder" % len(fs))
    nlit = 0
    for f in fs:
        lits = [k for k in find_all(f["body"], lambda k: k[0] == "const" and isinstance(k[1], str))]
        k = 0
        for c in lits:
            t = c[1]
            nlit += 1
            for mm in re.finditer(r'(?:^|\s)(s"|\.")(\S)', t):
                k += 1
                r.fail("%s#strword%d" % (f["qual"], k), "%s:%d" % (f["file"], f["line"]), "%s emits `%s` without the blank after %s: the tokenizer reads one unknown word" % (f["qual"], t.strip()[:30], mm.group(1)))
            mm = re.search(r"\bvariable\s+([A-Za-z_][\w-]*)", t)
            if mm and (f.get("cls") or "") not in ("LayoutBuilder",):
                k += 1
                r.fail("%s#variable:%s" % (f["qual"], mm.group(1)), "%s:%d" % (f["file"], f["line"]), "%s declares the Forth variable `%s` under a fixed name: a Form with two %s nodes declares it twice and the machine refuses the program" % (f["qual"], mm.group(1), f.get("cls")))
        if lits and not k:
            r.ok(f["qual"], "%d literals" % len(lits))
    bycls = {}
    for f in fs:
        if f["name"] in ("begin_list", "end_list"):
            bycls.setdefault(f.get("cls"), {})[f["name"]] = f
    for c, d in sorted(bycls.items(), key=lambda kv: str(kv[0])):
        if len(d) == 2:
            same = cs_noline(d["begin_list"]["body"]) == cs_noline(d["end_list"]["body"])
            trivial = len(d["begin_list"]["body"]) <= 1 and not find_all(d["begin_list"]["body"], lambda k: k[0] in ("mcall", "call"))
            fwd = lambda b: [k[1] for k in find_all(b, lambda k: k[0] == "mcall" and k[1] in ("begin_list", "end_list"))]
            r.check(not same or trivial or fwd(d["begin_list"]["body"]) != fwd(d["end_list"]["body"]), "%s:begin~end" % c, "%s:%d" % (d["begin_list"]["file"], d["begin_list"]["line"]),
                    "%s::begin_list has the same body as end_list: opening a list closes one" % c, detail="distinct bodies")
    r.count("string_literals", nlit)
    return r.done()


def cs_noline(x):
    if isinstance(x, tuple):
        y = tuple(cs_noline(e) for e in x)
        if y and isinstance(y[0], str) and y[0] in ("decl", "assign", "aug", "expr", "if", "for", "while", "return", "throw", "mcall", "call", "ctor", "make", "foreach", "switch", "try", "dowhile") and isinstance(y[-1], int):
            return y[:-1]
        return y
    return x


def rule_forth_parse_depth(rep, fb, floor=8, name="FORTH.parse-depth"):
    r = rep.rule(name, "every recursive call of ForthMachineOf::parse that compiles the body of a control structure (if/else, do/loop, begin/until/while/repeat/again) passes exitdepth + 1: "
                 "each body is one more segment that `exit` has to unwind; a body compiled with the caller's own exitdepth makes `exit` inside it act as `continue`", floor=floor)
    fs = [f for f in fb.lib_funcs(inst=False) if (f.get("cls") or "").startswith("ForthMachineOf") and f["name"] == "parse"]
    if not fs:
        raise AnalysisError("ForthMachineOf::parse not found")
    f = fs[0]
    pnames = [p[0] for p in f["params"]]
    if "exitdepth" not in pnames:
        raise AnalysisError("ForthMachineOf::parse has no parameter exitdepth")
    ix = pnames.index("exitdepth")
    n = 0
    for c in find_all(f["body"], lambda k: (k[0] == "mcall" and k[1] == "parse" and len(k[4]) > ix) or (k[0] == "call" and k[1][0] == "fn" and str(k[1][1]).endswith("parse") and len(k[2]) > ix)):
        args = c[4] if c[0] == "mcall" else c[2]
        a = args[ix]
        n += 1
        ok = (a[0] == "bin" and a[1] == "+" and ("var", "exitdepth") in (a[2], a[3]) and ("const", 1) in (a[2], a[3])) or a[0] == "const"
        r.check(ok, "parse#call%d" % n, "%s:%d" % (f["file"], c[-1] if isinstance(c[-1], int) else f["line"]), "ForthMachineOf::parse compiles a nested body with exitdepth `%s` instead of exitdepth + 1" % (str(a)[:40]), detail="exitdepth + 1")
    return r.done()


def rule_narrow_accumulator(rep, fb, floor=1, name="WIDTH.narrow-accumulator"):
    r = rep.rule(name, "in every kernel specialisation, a running total that is stored into a 64-bit output (`tooffsets[i + 1] = offset`) is itself 64 bits wide: a local declared with the kernel's index type C "
                 "(int32_t / uint32_t in two of three specialisations) and advanced with `+=` wraps although each addend fits", floor=floor)
    n = m = 0
    for fs in fb.kernel_functions().values():
        for f in fs:
            if not f["inst"]:
                continue
            ptypes = dict(f["params"])
            for d in find_all(f["body"], lambda k: k[0] == "decl" and re.match(r"^(const )?(int|unsigned int|short|unsigned short|signed char|unsigned char|int32_t|uint32_t|int16_t|uint16_t|int8_t|uint8_t)$", str(k[2]) or "")):
                v = d[1]
                augs = find_all(f["body"], lambda k: (k[0] == "aug" and k[1] in ("+", "*") and k[2] == ("var", v) and not (k[3][0] == "const")) or (k[0] == "assign" and k[1] == ("var", v) and k[2][0] == "bin" and k[2][1] in ("+", "*") and ("var", v) in (k[2][2], k[2][3]) and not any(x[0] == "const" for x in (k[2][2], k[2][3]))))
                if not augs:
                    continue
                # stored into a 64-bit output array?
                stores = find_all(f["body"], lambda k: k[0] == "assign" and k[1][0] == "idx" and k[1][1][0] == "var" and re.search(r"\b(long|int64_t|unsigned long|uint64_t)\b", ptypes.get(k[1][1][1], "")) and find_all((k[2],), lambda q: q == ("var", v)))
                m += 1
                if stores:
                    n += 1
                    r.fail("%s%s#%s" % (f["qual"], list(f.get("ftargs") or ()), v), "%s:%d" % (f["file"], d[-1] if isinstance(d[-1], int) else f["line"]), "%s%s accumulates into `%s %s` and stores it into the 64-bit output %s: the total wraps at the narrow type's range" % (
                        f["qual"], list(f.get("ftargs") or ()), d[2], v, stores[0][1][1][1]))
    r.count("narrow_accumulators_seen", m)
    r.ok("tree-wide", "%d narrow accumulators, none stored into a wider output" % m)
    return r.done()


def rule_index_form_arms(rep, fb, floor=5, name="CLONE.index-form-arms"):
    r = rep.rule(name, "in a switch over Index::Form (i8 / u8 / i32 / u32 / i64), the arms are the same code once the index width is abstracted (Index32 ~ Index64, int32_t ~ int64_t, IndexedOptionArray32 ~ ...64): "
                 "an arm that builds its Index differently from its siblings (another offset, another length, another buffer) is a slip that only one index width exposes", floor=floor)

    def absw(x):
        s = repr(cs_noline(x))
        s = re.sub(r"(Array|Index|int|uint|toIndex)(U?8_U?32|8_64|8_U32|8_32|U8|U32|8|32|64)(_t)?", r"\1W", s)
        return s
    nsw = 0
    for f in fb.lib_funcs(inst=False):
        for s in find_all(f["body"], lambda k: k[0] == "switch"):
            arms = []
            for labels, body in s[2]:
                ls = [l[1].split("::")[-1] for l in labels if isinstance(l, tuple) and l[0] == "enum" and "Form::" in l[1]]
                if not ls or not body or body[0][0] in ("throw", "break"):
                    continue
                if not find_all(body, lambda k: k[0] in ("make", "ctor") and re.search(r"(Array|Index)", str(k[1]))):
                    continue     # a lookup table (names, formats): its arms differ by design
                arms.append((",".join(ls), absw(tuple(body))))
            if len(arms) < 2:
                continue
            nsw += 1
            forms = {}
            for lab, nf in arms:
                forms.setdefault(nf, []).append(lab)
            r.check(len(forms) == 1, "%s#switch@%d" % (f["qual"], nsw), "%s:%d" % (f["file"], s[-1] if isinstance(s[-1], int) else f["line"]),
                    "%s: the arms of the switch over Index::Form differ beyond the index width (%s)" % (f["qual"], " vs ".join("/".join(v) for v in forms.values())), detail="arms are clones modulo width")
    return r.done()


# ------------------------------------------------------------------------------------------------
# a freshly numbered set of union alternatives fits the 8-bit tag

_TAGCOUNT_EXCEPTIONS = {
    "UnionArrayOf::offsets_and_flattened": "the alternatives are this union's own contents_, flattened one for one: their number is unchanged",
    "Content::merge_as_union": "exactly two alternatives (this, other), tags 0 and 1 are literals",
    "UnionType::empty": "tags of length 0: no tag value is ever stored",
    "UnionArrayOf::carry": "tags gathered from tags_ by the carry; contents_ is passed on unchanged",
}


def rule_union_tag_count(rep, fb, floor=4, name="WIDTH.union-tag-count"):
    r = rep.rule(name, "a function that allocates a fresh tags index (an Index8 / IndexOf<T> named *tags built from a length) numbers a set of alternatives it has assembled itself; it compares the number of "
                 "alternatives (a .size()) with kMaxInt8 and throws, because the 8-bit tag (and an 8-bit loop counter `T tag`) wraps beyond 127 and the tags written are garbage or uninitialised", floor=floor)
    seen = 0
    for f in fb.lib_funcs(inst=False):
        ds = [d for d in find_all(f["body"], lambda k: k[0] == "decl" and isinstance(k[1], str) and k[1].endswith("tags") and re.match(r"(const )?(Index8|IndexOf<T>|IndexOf<int8_t>)$", str(k[2]))
                         and k[3] is not None and k[3][0] == "ctor" and len(k[3][2]) == 1)]
        if not ds:
            continue
        seen += 1
        q = f["qual"]
        if q in _TAGCOUNT_EXCEPTIONS:
            r.excepted(q, _TAGCOUNT_EXCEPTIONS[q])
            continue
        guard = find_all(f["body"], lambda k: k[0] == "if" and "kMaxInt8" in repr(k[1]) and find_all((k[1],), lambda m: m[0] == "mcall" and m[1] == "size") and find_all(k[2], lambda m: m[0] == "throw"))
        r.check(bool(guard), q, "%s:%d" % (f["file"], ds[0][-1] if isinstance(ds[0][-1], int) else f["line"]),
                "%s numbers union alternatives into a fresh 8-bit tags index `%s` without refusing more than kMaxInt8 alternatives" % (q, ds[0][1]), detail="size() compared with kMaxInt8, throws")
    if seen < 4:
        raise AnalysisError("only %d functions allocating a fresh tags index found" % seen)
    return r.done()


# ------------------------------------------------------------------------------------------------
# a counter advanced by the user's slice step saturates at the loop bound

def rule_range_step(rep, fb, floor=4, name="OVERFLOW.range-step"):
    r = rep.rule(name, "in a kernel that takes the slice's `step` (any int64 the user wrote), a loop counter is advanced by step only through the saturating form "
                 "`j = (bound - j > step ? j + step : bound)` (mirrored for a negative step): `j += step` overflows for steps near 2^63, the wrapped counter passes the loop test again "
                 "and the kernel reads and writes out of bounds", floor=floor)
    for fs in fb.kernel_functions().values():
        for f in fs:
            if f["inst"] or "step" not in dict(f["params"]):
                continue
            step = ("var", "step")

            def strip(e):
                while e and e[0] in ("cast", "narrow", "widen"):
                    e = e[3]
                return e
            n = 0
            guarded = set()
            for c in find_all(f["body"], lambda k: k[0] == "cond"):
                if find_all((c[1],), lambda k: k == step) and find_all((c[1],), lambda k: k[0] == "bin" and k[1] == "-"):
                    for b in find_all((c[2], c[3]), lambda k: k[0] == "bin" and k[1] == "+" and step in (strip(k[2]), strip(k[3]))):
                        guarded.add(id(b))
            # the other overflow-safe idiom: `if (bound - j <= step) break;` (or return) ahead of a plain `j += step` in the same block
            def break_guarded(stmts):
                out = set()
                for i, st in enumerate(stmts):
                    if st[0] == "if" and find_all((st[1],), lambda q: q == step) and find_all((st[1],), lambda q: q[0] == "bin" and q[1] == "-") and find_all(st[2], lambda q: q[0] in ("break", "return")):
                        for later in stmts[i + 1:]:
                            for q in find_all((later,), lambda q: q[0] == "aug" and q[1] in ("+", "-") and strip(q[3]) == step):
                                out.add(id(q))
                    for b in cs.sub_blocks(st):
                        out |= break_guarded(b)
                return out
            bguard = break_guarded(f["body"])
            for k in find_all(f["body"], lambda k: (k[0] == "aug" and k[1] in ("+", "-") and strip(k[3]) == step) or (k[0] == "bin" and k[1] == "+" and step in (strip(k[2]), strip(k[3])))):
                n += 1
                key = "%s#%d" % (f["qual"], n)
                where = "%s:%d" % (f["file"], k[-1] if isinstance(k[-1], int) else f["line"])
                r.check((k[0] == "bin" and id(k) in guarded) or id(k) in bguard, key, where, "%s advances a counter by the slice step without the saturating guard (overflow for |step| near 2^63)" % f["qual"], detail="saturating step")
    return r.done()


# ------------------------------------------------------------------------------------------------
# an offsets output is complete: element 0 is written on every path, not only inside the loop

def rule_offsets_first(rep, fb, floor=10, name="KWRITES.offsets-first"):
    r = rep.rule(name, "a kernel that fills a writable `*offsets` parameter through `X[i + 1] = ...` in a loop also writes X[0] before its first loop on every path (a top-level assignment, or an if/else "
                 "whose both arms assign it): with zero iterations X[0] is the only element, the caller reads it (as the length of the content, as the start of the first list), and the buffer is uninitialised", floor=floor)

    def strip(e):
        while e and e[0] in ("cast", "narrow", "widen"):
            e = e[3]
        return e

    def writes0(stmts, pn):
        """X[0] assigned on every path through this statement list, before any loop"""
        for s in stmts:
            if s[0] == "assign" and s[1][0] == "idx" and s[1][1] == ("var", pn) and strip(s[1][2]) == ("const", 0):
                return True
            if s[0] == "if" and s[3] and writes0(s[2], pn) and writes0(s[3], pn):
                return True
            if s[0] in ("for", "while", "dowhile", "foreach"):
                return False
        return False
    for name_, fs in sorted(fb.kernel_functions().items()):
        for f in fs:
            if f["inst"]:
                continue
            for pn, pt in f["params"]:
                if "offsets" not in pn or "const" in pt or "*" not in pt:
                    continue
                plus1 = find_all(f["body"], lambda k: k[0] == "assign" and k[1][0] == "idx" and k[1][1] == ("var", pn) and find_all((k[1][2],), lambda q: q[0] == "bin" and q[1] == "+" and ("const", 1) in (strip(q[2]), strip(q[3]))))
                if not plus1:
                    continue
                r.check(writes0(f["body"], pn), "%s#%s" % (f["qual"], pn), "%s:%d" % (f["file"], f["line"]),
                        "%s fills %s[i + 1] in a loop but does not write %s[0] on every path before the loop: for an input of length 0 the single offset is left uninitialised" % (f["qual"], pn, pn), detail="%s[0] written first" % pn)
    return r.done()


# ------------------------------------------------------------------------------------------------
# merged arrays keep only the parameters all inputs share, on every arm

def rule_merge_parameters(rep, fb, floor=8, name="META.merge-parameters"):
    r = rep.rule(name, "a mergemany / reverse_merge that builds its result with a local `parameters` copied from parameters_ narrows it with util::merge_parameters(parameters, <other>.parameters()) for the arrays "
                 "it merges; where the function has alternative arms (tuple / record) that each loop over the same arrays, every arm does so - otherwise the result claims parameters (__record__, __array__) "
                 "that some of the merged arrays do not have", floor=floor)

    def is_merge(k):
        return k[0] == "call" and "merge_parameters" in repr(k[1]) and k[2] and k[2][0] == ("var", "parameters")
    for f in fb.lib_funcs(inst=False):
        if f["name"] not in ("mergemany", "reverse_merge"):
            continue
        if not find_all(f["body"], lambda k: k[0] == "decl" and k[1] == "parameters" and "Parameters" in str(k[2])):
            continue
        where = "%s:%d" % (f["file"], f["line"])
        r.check(bool(find_all(f["body"], is_merge)), f["qual"], where, "%s builds its result with a copy of parameters_ and never narrows it by the other arrays' parameters" % f["qual"], detail="merge_parameters called")
        if (f.get("cls") or "") == "IndexedArrayOf":
            # the merged content is a concatenation of the inputs' contents: categories are no longer unique, the marker that asserts it must go
            drops = find_all(f["body"], lambda k: k[0] == "if" and "categorical" in repr(k[1]) and find_all(k[2], lambda m: m[0] == "mcall" and m[1] == "erase" and m[3] == ("var", "parameters")))
            r.check(bool(drops), f["qual"] + ":categorical", where, "%s concatenates the contents of indexed arrays and keeps __array__ = \"categorical\" on the result although the concatenated categories are not unique (the validity check rejects it)" % f["qual"],
                    detail="categorical marker erased")
        n = 0
        for s in find_all(f["body"], lambda k: k[0] == "if" and k[3]):
            la = [l for l in find_all(s[2], lambda k: k[0] == "foreach")]
            lb = [l for l in find_all(s[3], lambda k: k[0] == "foreach")]
            for a in la:
                for b in lb:
                    if a[3] != b[3] or a[3][0] != "var":
                        continue
                    ma, mb = bool(find_all(a[4], is_merge)), bool(find_all(b[4], is_merge))
                    if not (ma or mb):
                        continue
                    n += 1
                    r.check(ma and mb, "%s#arms%d" % (f["qual"], n), "%s:%d" % (f["file"], (b if ma else a)[-1] if isinstance((b if ma else a)[-1], int) else f["line"]),
                            "%s narrows the parameters in one arm's loop over `%s` but not in the sibling arm's loop over the same arrays" % (f["qual"], a[3][1]), detail="both arms narrow")
    return r.done()


# ------------------------------------------------------------------------------------------------
# an integer handed in from outside subscripts a member vector only between two bounds

def rule_child_accessor_bounds(rep, fb, floor=8, name="BOUND.child-accessor"):
    r = rep.rule(name, "a method of the node, form and type classes (src/libawkward/array, type, util::key) that subscripts a data-member vector (contents_, types_, recordlookup ...) with one of its own int64_t parameters cast to size_t has tested that parameter on both sides "
                 "(`p < 0` and `p >= size`) in an `if` that throws: these methods are bound to Python unchanged (form.content(i), layout.field(i), type.type(i)), and a negative or too large i reads outside the vector", floor=floor)
    n = 0
    for f in fb.lib_funcs(inst=False):
        ints = [pn for pn, pt in f["params"] if re.match(r"^(const )?(int64_t|long|ssize_t)$", str(pt).strip())]
        if not ints or not (f.get("cls") or f["qual"] == "util::key") or not re.match(r"src/libawkward/(array|type)/|src/libawkward/util\.cpp", f["file"]):
            continue
        for p in ints:
            subs = find_all(f["body"], lambda k: k[0] == "idx" and (k[1][0] == "member" and k[1][1] == ("this",) or (k[1][0] == "deref" and "member" in repr(k[1])))
                            and k[2][0] in ("cast", "var") and (k[2] == ("var", p) or (k[2][0] == "cast" and k[2][3] == ("var", p))))
            ats = find_all(f["body"], lambda k: k[0] == "mcall" and k[1] == "at" and len(k[4]) == 1 and (k[4][0] == ("var", p) or (k[4][0][0] == "cast" and k[4][0][3] == ("var", p))))
            if not subs and not ats:
                continue
            n += 1
            lower = upper = False
            for s in find_all(f["body"], lambda k: k[0] == "if" and find_all(k[2], lambda m: m[0] == "throw")):
                for c in find_all((s[1],), lambda k: k[0] == "bin" and k[1] in ("<", "<=", ">", ">=") and ("var", p) in (k[2], k[3])):
                    other = c[3] if c[2] == ("var", p) else c[2]
                    if other == ("const", 0):
                        lower = True
                    else:
                        upper = True
            # a wrapped index (regularize_at / `if (p < 0) p += n`) counts as tested below once it is re-tested; keep to the plain idiom
            r.check(lower and upper, "%s(%s)" % (f["qual"], p), "%s:%d" % (f["file"], f["line"]),
                    "%s subscripts a member vector with its parameter `%s` after testing %s" % (f["qual"], p, "only the upper bound" if upper else ("only the lower bound" if lower else "neither bound")), detail="0 <= %s < size tested" % p)
    if n < 4:
        raise AnalysisError("only %d integer child accessors found" % n)
    return r.done()


# ------------------------------------------------------------------------------------------------
# an option node steps aside only for another option node

def rule_option_shortcut(rep, fb, floor=2, name="CANON.option-shortcut"):
    r = rep.rule(name, "in simplify_optiontype of the option node classes and their forms, the arm that returns content_ itself (dropping this node) is guarded by dynamic_casts to option classes only "
                 "(IndexedOptionArray*/Form, ByteMasked, BitMasked, Unmasked): a non-option IndexedArray / IndexedForm in that test drops the option from the type", floor=floor)
    optional = re.compile(r"^(const )?(IndexedOptionArray(32|64)|IndexedOptionForm|ByteMasked(Array|Form)|BitMasked(Array|Form)|Unmasked(Array|Form)) \*$")
    for f in fb.lib_funcs(inst=False):
        if f["name"] != "simplify_optiontype":
            continue
        for s in find_all(f["body"], lambda k: k[0] == "if" and len(k[2]) == 1 and k[2][0][0] == "return" and k[2][0][1] == ("member", ("this",), "content_")):
            casts = [c[2] for c in find_all((s[1],), lambda k: k[0] == "cast" and k[1] == "dynamic")]
            bad = [c for c in casts if not optional.match(str(c))]
            r.check(bool(casts) and not bad, f["qual"], "%s:%d" % (f["file"], s[-1] if isinstance(s[-1], int) else f["line"]),
                    "%s returns content_ in place of this option node when the content is %s, which is not an option type" % (f["qual"], ", ".join(bad) or "anything"), detail="content_ returned only for %d option classes" % len(casts))
    return r.done()


# ------------------------------------------------------------------------------------------------
# fillna ends at the first option level on every encoding of an option

def rule_option_fillna_stops(rep, fb, floor=4, name="SIBLING.option-fillna"):
    r = rep.rule(name, "fillna of an option node replaces the missing values of that node and stops: none of the option encodings (IndexedOptionArray in its ISOPTION arm, ByteMaskedArray, BitMaskedArray, UnmaskedArray) "
                 "calls fillna on its content_ - one that does fills the None values of deeper levels too, which the caller (ak.fill_none with an axis) asked to keep", floor=floor)
    seen = 0
    for f in fb.lib_funcs(inst=False):
        cls = f.get("cls") or ""
        if f["name"] != "fillna" or cls not in ("IndexedArrayOf", "ByteMaskedArray", "BitMaskedArray", "UnmaskedArray"):
            continue
        seen += 1
        scope = f["body"]
        if cls == "IndexedArrayOf":
            arms = [s[2] for s in find_all(f["body"], lambda k: k[0] == "if" and k[1] == ("var", "ISOPTION"))]
            if not r.check(bool(arms), cls + "::fillna:arm", "%s:%d" % (f["file"], f["line"]), "IndexedArrayOf::fillna has no `if (ISOPTION)` arm any more"):
                continue
            scope = arms[0]
        deep = find_all(scope, lambda k: k[0] == "mcall" and k[1] == "fillna" and find_all((k[3],), lambda m: m == ("member", ("this",), "content_")))
        r.check(not deep, cls + "::fillna", "%s:%d" % (f["file"], deep[0][-1] if deep and isinstance(deep[0][-1], int) else f["line"]),
                "%s::fillna calls fillna on its content_: the missing values of deeper levels are filled as well" % cls, detail="stops at this option level")
    if seen < 4:
        raise AnalysisError("fillna of the four option encodings not found (%d)" % seen)
    return r.done()


# ------------------------------------------------------------------------------------------------
# what indexes a list node's content was computed from that node's own starts/stops/offsets

def rule_list_carry_origin(rep, fb, floor=12, name="ORIGIN.list-carry"):
    r = rep.rule(name, "in ListArray and ListOffsetArray methods, an Index X handed to content_.carry(X) has been written from this node's own starts_/stops_/offsets_: by a kernel call that also receives one of them "
                 "(or a local derived from them), or by setitem_at_nowrap with such a value. Positions taken from somewhere else (the rows of a jagged index, a counter) address content_ only when the node "
                 "happens to be compact and zero-based", floor=floor)
    OWN = ("starts_", "stops_", "offsets_")
    for f in fb.lib_funcs(inst=False):
        if (f.get("cls") or "") not in ("ListArrayOf", "ListOffsetArrayOf"):
            continue
        body = f["body"]
        sites = find_all(body, lambda k: k[0] == "mcall" and k[1] == "carry" and find_all((k[3],), lambda m: m == ("member", ("this",), "content_")) and k[4] and k[4][0][0] == "var")
        if not sites:
            continue
        derived = set()

        def mentions(e):
            return bool(find_all((e,), lambda m: (m[0] == "member" and m[1] == ("this",) and m[2] in OWN) or (m[0] == "var" and m[1] in derived)
                                 or (m[0] == "mcall" and m[1] in ("starts", "stops", "offsets", "compact_offsets64") and m[3] == ("this",))))
        grew = True
        while grew:
            grew = False
            for d in find_all(body, lambda k: k[0] == "decl" and k[3] is not None):
                if d[1] not in derived and mentions(d[3]):
                    derived.add(d[1])
                    grew = True
            for c in find_all(body, lambda k: k[0] == "call" and "kernel::" in repr(k[1])):
                if any(mentions(a) for a in c[2]):
                    for a in c[2]:
                        for m in find_all((a,), lambda m: (m[0] == "mcall" and m[1] == "data" and m[3][0] == "var") or (m[0] == "addr" and m[1][0] == "var")):
                            v = m[3][1] if m[0] == "mcall" else m[1][1]
                            if v not in derived:
                                derived.add(v)
                                grew = True
            for c in find_all(body, lambda k: k[0] == "mcall" and k[1] == "setitem_at_nowrap" and k[3][0] == "var"):
                if any(mentions(a) for a in c[4]) and c[3][1] not in derived:
                    derived.add(c[3][1])
                    grew = True
        n = 0
        for s in sites:
            n += 1
            x = s[4][0][1]
            r.check(x in derived, "%s#carry%d(%s)" % (f["qual"], n, x), "%s:%d" % (f["file"], s[-1] if isinstance(s[-1], int) else f["line"]),
                    "%s carries content_ with `%s`, which no statement of the function computes from this node's starts_/stops_/offsets_" % (f["qual"], x), detail="derived from own offsets")
    return r.done()


# ------------------------------------------------------------------------------------------------
# a position that is refused when too large is also refused when negative

def rule_kernel_one_sided(rep, fb, floor=5, name="KBOUND.two-sided"):
    r = rep.rule(name, "in a kernel, a signed position that is tested against its upper bound in an `if` that returns failure(...) and is then used as a subscript is also tested against 0 somewhere in the kernel "
                 "(`x < 0`, `0 <= x`, a regularising `if (x < 0) x += n`): the check shows the author does not trust the value, and a negative one reads before the buffer (contradiction rule: one side checked, the other used unchecked)", floor=floor)

    def strip(e):
        while e and e[0] in ("cast", "narrow", "widen"):
            e = e[3]
        return e
    flip = {"<": ">", "<=": ">=", ">": "<", ">=": "<="}
    n = 0
    for name_, fs in sorted(fb.kernel_functions().items()):
        for f in fs:
            if f["inst"]:
                continue
            ptypes = dict(f["params"])
            allcmps = find_all(f["body"], lambda k: k[0] == "bin" and k[1] in ("<", "<=", ">", ">=", "==", "!="))
            for s in find_all(f["body"], lambda k: k[0] == "if" and find_all(k[2], lambda m: m[0] == "return" and m[1] and "failure" in repr(m[1]))):
                for c in find_all((s[1],), lambda k: k[0] == "bin" and k[1] in ("<", "<=", ">", ">=")):
                    for side, other, op in ((strip(c[2]), strip(c[3]), c[1]), (strip(c[3]), strip(c[2]), flip[c[1]])):
                        if op not in (">", ">=") or side[0] not in ("idx", "var") or other[0] == "const":
                            continue
                        v = repr(cs_noline(side))
                        if not find_all(f["body"], lambda k: k[0] == "idx" and repr(cs_noline(strip(k[2]))) == v):
                            continue
                        # unsigned values cannot be negative
                        base = side[1][1] if side[0] == "idx" and side[1][0] == "var" else None
                        if base and re.search(r"\bu?int(8|16|32|64)_t\b", ptypes.get(base, "")) and "uint" in ptypes.get(base, ""):
                            continue
                        n += 1
                        low = any(("const", 0) in (strip(q[2]), strip(q[3])) and v in (repr(cs_noline(strip(q[2]))), repr(cs_noline(strip(q[3])))) for q in allcmps)
                        from .kspec import unparse as _u, cexpr as _c
                        r.check(low, "%s#%s" % (f["qual"], _u(_c(side))[:40]), "%s:%d" % (f["file"], s[-1] if isinstance(s[-1], int) else f["line"]),
                                "%s refuses %s when it is too large but never compares it with 0 before using it as a subscript" % (f["qual"], _u(_c(side))[:40]), detail="also compared with 0")
    return r.done()


# ------------------------------------------------------------------------------------------------
# an explicit length that the constructor takes on trust is examined by the validity check

def rule_valid_explicit_length(rep, fb, floor=2, name="VALID.explicit-length"):
    r = rep.rule(name, "a node class whose constructor stores a caller-supplied `length` in length_ without refusing negative values tests `length_ < 0` in its validityerror: every other length comparison there "
                 "(len(field) < length, len(mask)*8 < length) is vacuous for a negative length, and the documented invariant is length >= 0", floor=floor)
    by_cls = {}
    for f in fb.lib_funcs(inst=False):
        by_cls.setdefault(f.get("cls") or "", []).append(f)
    n = 0
    for cls, fs in sorted(by_cls.items()):
        ctors = [f for f in fs if f["name"] == cls and any(nm == "length_" and find_all((init,), lambda k: k == ("var", "length")) for nm, init in (f.get("inits") or ()))]
        if not ctors:
            continue
        refused = all(find_all(c["body"], lambda k: k[0] == "if" and find_all((k[1],), lambda m: m[0] == "bin" and m[1] in ("<", "<=", ">", ">=") and ("length" in repr(m))) and find_all(k[2], lambda m: m[0] == "throw")
                               and find_all((k[1],), lambda m: m == ("const", 0))) for c in ctors)
        if refused:
            continue
        vs = [f for f in fs if f["name"] == "validityerror"]
        if not vs:
            continue
        n += 1
        v = vs[0]
        ok = bool(find_all(v["body"], lambda k: k[0] == "if" and find_all((k[1],), lambda m: m[0] == "bin" and m[1] in ("<", ">") and ("member", ("this",), "length_") in (m[2], m[3]) and ("const", 0) in (m[2], m[3]))
                           and find_all(k[2], lambda m: m[0] == "return")))
        r.check(ok, cls + "::validityerror", "%s:%d" % (v["file"], v["line"]), "%s takes its length on trust and %s::validityerror never tests length_ < 0" % (cls, cls), detail="length_ < 0 reported")
    if n < 2:
        raise AnalysisError("only %d classes with a trusted explicit length found" % n)
    return r.done()


# ------------------------------------------------------------------------------------------------
# the byte extent of a strided array: (n - 1) steps only when there are items

def rule_extent_zero(rep, fb, floor=1, name="DIM.extent-zero"):
    r = rep.rule(name, "wherever libawkward or the pybind11 layer computes a byte extent from `(shape[i] - 1) * strides[i]`, the same function tests that shape entry against 0: for a zero-length dimension the term is "
                 "one step backward, which a negative stride turns into a positive extent over memory that holds no item", floor=floor)
    from .binding import lifted
    n = 0
    seen = set()
    for f in lifted(fb, with_lib=True):
        for m in find_all(f["body"], lambda k: k[0] == "bin" and k[1] == "*" and "strides" in repr(k) and "shape" in repr(k)):
            if id(m) in seen:
                continue
            minus = [s for s in (m[2], m[3]) if find_all((s,), lambda q: q[0] == "bin" and q[1] == "-" and "shape" in repr(q[2]) and q[3] == ("const", 1))]
            if not minus:
                continue
            seen.add(id(m))
            n += 1
            sh = find_all((minus[0],), lambda q: q[0] == "idx" and "shape" in repr(q[1]))
            tested = bool(sh) and bool(find_all(f["body"], lambda k: k[0] == "if" and find_all((k[1],), lambda q: q[0] == "bin" and q[1] in ("==", "<=", "<", "!=", ">") and ("const", 0) in (q[2], q[3]) and cs_noline(sh[0]) in (cs_noline(q[2]), cs_noline(q[3])))))
            r.check(tested, "%s#%d" % (f["qual"], n), "%s:%d" % (f["file"], m[-1] if isinstance(m[-1], int) else f["line"]), "%s adds (shape - 1) * stride without testing that shape entry for 0" % f["qual"], detail="zero-length dimension handled")
    return r.done()


# ------------------------------------------------------------------------------------------------
# a count built by multiplication is compared with limit / factor before each step

def rule_count_product(rep, fb, floor=3, name="OVERFLOW.count-product"):
    r = rep.rule(name, "a local count that a loop multiplies by a computed factor (`n *= size - j + 1`: binomial coefficients - not an element of a shape vector, whose product is bounded by the items in memory) is compared "
                 "with a limit divided by that factor, in an `if` that throws or returns failure, before the multiplication: the count later sizes buffers (times sizeof) that another kernel fills with the true number of items", floor=floor)
    funcs = []
    for name_, fs in sorted(fb.kernel_functions().items()):
        funcs += [f for f in fs if not f["inst"]]
    funcs += list(fb.lib_funcs(inst=False))
    n = 0
    for f in funcs:
        for lp in find_all(f["body"], lambda k: k[0] in ("for", "while")):
            body = lp[2]
            for i, a in enumerate(body):
                top = a[3] if a[0] == "aug" else None
                while top and top[0] in ("cast", "narrow", "widen"):
                    top = top[3]
                if not (a[0] == "aug" and a[1] == "*" and a[2][0] == "var" and top[0] == "bin" and top[1] in ("+", "-")):
                    continue
                n += 1
                fac = cs_noline(a[3])
                guard = [s for s in body[:i] if s[0] == "if" and find_all(s[2], lambda q: q[0] == "throw" or (q[0] == "return" and q[1] and "failure" in repr(q[1])))
                         and find_all((s[1],), lambda q: q[0] == "bin" and q[1] in (">", ">=", "<", "<=") and a[2] in (q[2], q[3])
                                      and any(x[0] == "bin" and x[1] == "/" and cs_noline(x[3]) == fac for x in (q[2], q[3])))]
                r.check(bool(guard), "%s#%s" % (f["qual"], a[2][1]), "%s:%d" % (f["file"], a[-1] if isinstance(a[-1], int) else f["line"]),
                        "%s multiplies the count `%s` by a computed factor without first comparing it with limit / factor" % (f["qual"], a[2][1]), detail="overflow refused")
    return r.done()


# ------------------------------------------------------------------------------------------------
# a mask byte is a truth value: any non-zero byte is "true"

def rule_bytemask_normalised(rep, fb, floor=8, name="KSIB.bytemask-normalised"):
    r = rep.rule(name, "in every kernel that takes an 8-bit mask together with validwhen / valid_when, a mask element is compared with the flag only after `!= 0` (`(mask[i] != 0) == validwhen`): "
                 "ByteMaskedArray accepts any non-zero byte as true (NumPy bool views, 0xFF masks), and the sibling kernels numnull / nextcarry / nextcarry_outindex / toIndexedOptionArray must agree on which items are valid - "
                 "a kernel that compares the raw byte counts fewer valid items than its siblings and leaves part of a buffer sized by them unwritten", floor=floor)
    for name_, fs in sorted(fb.kernel_functions().items()):
        for f in fs:
            if f["inst"]:
                continue
            flags = [pn for pn, pt in f["params"] if pn.replace("_", "") == "validwhen"]
            masks = [pn for pn, pt in f["params"] if "mask" in pn and "*" in pt and re.search(r"\bint8_t\b|\bchar\b|signed char", pt)]
            if not flags or not masks:
                continue
            n = 0
            for c in find_all(f["body"], lambda k: k[0] == "bin" and k[1] in ("==", "!=")):
                sides = [c[2], c[3]]

                def strip(e):
                    while e and e[0] in ("cast", "narrow", "widen"):
                        e = e[3]
                    return e
                ss = [strip(x) for x in sides]
                flagside = [x for x in ss if find_all((x,), lambda q: q[0] == "var" and q[1] in flags)]
                if not flagside:
                    continue
                other = [x for x in ss if x not in flagside]
                if not other:
                    continue
                o = other[0]
                raw = o[0] == "idx" and o[1][0] == "var" and o[1][1] in masks
                viavar = o[0] == "var" and any(d[3] is not None and strip(d[3])[0] == "idx" and strip(d[3])[1] == ("var", mk) for mk in masks for d in find_all(f["body"], lambda k: k[0] == "decl" and k[1] == o[1]))
                involves = bool(find_all((o,), lambda q: q[0] == "idx" and q[1][0] == "var" and q[1][1] in masks)) or viavar
                if not involves:
                    continue
                n += 1
                r.check(not (raw or viavar), "%s#%d" % (f["qual"], n), "%s:%d" % (f["file"], c[-1] if isinstance(c[-1], int) else f["line"]),
                        "%s compares the raw mask byte with %s: a non-zero byte other than 1 is treated as false here and as true by the sibling kernels" % (f["qual"], flags[0]), detail="(mask != 0) compared")
    return r.done()


# ------------------------------------------------------------------------------------------------
# the owner depth of a do-loop is sign-encoded

def rule_forth_depth_abs(rep, fb, floor=4, name="FORTH.loop-depth-abs"):
    r = rep.rule(name, "ForthMachine compares the recursion depth recorded for the innermost do-loop with recursion_current_depth_ only through do_abs_recursion_depth(): a `+loop` stores its depth bit-flipped "
                 "(negative) to tell itself from `loop`, so the raw do_recursion_depth() never equals the current depth and single-step mode would neither finish nor advance a +loop", floor=floor)
    n = 0
    for f in fb.lib_funcs(inst=False):
        if not f["file"].endswith("ForthMachine.cpp"):
            continue
        for c in find_all(f["body"], lambda k: k[0] == "bin" and k[1] in ("==", "!=", "<", "<=", ">", ">=") and "recursion_current_depth_" in repr(k)):
            calls = [m[1] for m in find_all((c,), lambda q: q[0] == "mcall" and q[1] in ("do_recursion_depth", "do_abs_recursion_depth"))]
            if not calls:
                continue
            n += 1
            r.check("do_recursion_depth" not in calls, "%s#%d" % (f["qual"], n), "%s:%d" % (f["file"], c[-1] if isinstance(c[-1], int) else f["line"]),
                    "%s compares the sign-encoded do_recursion_depth() with recursion_current_depth_" % f["qual"], detail="abs accessor")
    if n < 4:
        raise AnalysisError("ForthMachine.cpp: only %d comparisons of the loop owner depth found" % n)
    return r.done()


# ------------------------------------------------------------------------------------------------
# C library calls that answer with NULL

_NULLABLE_LIBC = ("gmtime", "localtime", "fopen", "dlopen", "dlsym", "getenv", "strchr", "strstr", "strrchr", "memchr", "tmpfile", "popen")


def rule_libc_null(rep, fb, floor=6, name="NULL.libc-result"):
    r = rep.rule(name, "the result of a C library call that answers failure with NULL (gmtime, localtime, fopen, dlopen, dlsym, getenv, strchr, ...) is bound to a local that the function compares with null "
                 "(or tests as a condition) - it is never handed straight to another call: gmtime(NULL-able) inside strftime(...) crashed for NaT and for instants outside the calendar's range", floor=floor)
    from .binding import lifted
    seen = set()
    n = 0
    for f in lifted(fb, with_lib=True):
        calls = find_all(f["body"], lambda k: k[0] == "call" and k[1][0] == "fn" and str(k[1][1]).split("::")[-1] in _NULLABLE_LIBC)
        for c in calls:
            if id(c) in seen:
                continue
            seen.add(id(c))
            n += 1
            fn = str(c[1][1]).split("::")[-1]
            # bound to a local?
            binders = [d for d in find_all(f["body"], lambda k: (k[0] == "decl" and k[3] is not None and find_all((k[3],), lambda q: q is c)) or (k[0] == "assign" and k[1][0] == "var" and find_all((k[2],), lambda q: q is c)))]
            ok = False
            why = "result used directly"
            if binders:
                b = binders[0]
                v = b[1] if b[0] == "decl" else b[1][1]
                tested = find_all(f["body"], lambda k: (k[0] == "bin" and k[1] in ("==", "!=") and ("var", v) in (k[2], k[3]) and (("const", None) in (k[2], k[3]) or "nullptr" in repr(k) or ("const", 0) in (k[2], k[3])))
                                  or (k[0] == "un" and k[1] == "!" and k[2] == ("var", v)) or (k[0] in ("if", "while") and k[1] == ("var", v)) or (k[0] == "cond" and k[1] == ("var", v)))
                ok = bool(tested)
                why = "bound to `%s`, %s" % (v, "tested against null" if ok else "never tested")
            r.check(ok, "%s#%s%d" % (f["qual"], fn, n), "%s:%d" % (f["file"], c[-1] if isinstance(c[-1], int) else f["line"]), "%s: the result of %s() is %s" % (f["qual"], fn, why), detail=why)
    return r.done()


# ------------------------------------------------------------------------------------------------
# the positions skipped so far travel down with the recursion

def rule_shifts_handed_down(rep, fb, floor=4, name="SHIFTS.handed-down"):
    r = rep.rule(name, "in reduce_next / argsort_next, a branch that builds its own `nextshifts` for the recursive call also reads the `shifts` it was given (adds them in, or tests their length): "
                 "`shifts` says how many positions were skipped above (missing lists, shorter lists) and the positions argmin / argmax / argsort report are offset by them; a branch that "
                 "rebuilds the vector from this level alone loses what the levels above counted", floor=floor)
    n = 0
    for f in fb.lib_funcs(inst=False):
        if f["name"] not in ("reduce_next", "argsort_next") or "shifts" not in [p[0] for p in f["params"]]:
            continue

        def onblock(stmts, f=f):
            nonlocal n
            decl = [s for s in stmts if s[0] == "decl" and s[1] == "nextshifts"]
            if not decl:
                return
            # is this nextshifts filled (a kernel call or setitem) and handed to the recursion?
            filled = find_all(stmts, lambda k: (k[0] == "call" and find_all(k[2], lambda q: q[0] == "mcall" and q[1] == "data" and q[3] == ("var", "nextshifts")))
                              or (k[0] == "mcall" and k[1] == "setitem_at_nowrap" and k[3] == ("var", "nextshifts")))
            if not filled:
                return
            n += 1
            reads = find_all(stmts, lambda k: k == ("var", "shifts"))
            r.check(bool(reads), "%s#nextshifts%d" % (f["qual"], n), "%s:%d" % (f["file"], decl[0][-1] if isinstance(decl[0][-1], int) else f["line"]),
                    "%s fills a fresh nextshifts for the recursive call without reading the shifts it was handed" % f["qual"], detail="shifts read")
        cs.each_block(f["body"], onblock)
    return r.done()


# ------------------------------------------------------------------------------------------------
# every mergeable looks through a lazy operand

def rule_mergeable_unwraps(rep, fb, floor=8, name="VIRTUAL.mergeable-unwraps"):
    r = rep.rule(name, "the `mergeable(other, mergebool)` of every node class that decides by the other's class or parameters first looks through a VirtualArray (`if (VirtualArray* raw = dynamic_cast<..>(other.get())) "
                 "return mergeable(raw->array(), mergebool);`): whether two arrays may be merged must not depend on one of them being lazy; classes that delegate outright (to content_, to array()) or "
                 "answer unconditionally are exempt", floor=floor)
    n = 0
    for f in fb.lib_funcs(inst=False):
        if f["name"] != "mergeable" or not f.get("cls") or len(f["params"]) != 2:
            continue
        body = f["body"]
        # delegates or constant answers
        if len(body) == 1 and body[0][0] in ("return", "throw"):
            continue
        other = f["params"][0][0]
        decides = find_all(body, lambda k: (k[0] == "cast" and k[1] == "dynamic" and find_all((k[3],), lambda q: q == ("var", other))) or (k[0] == "mcall" and k[1] in ("parameters", "parameter_equals") and find_all((k[3],), lambda q: q == ("var", other))))
        if not decides:
            continue
        n += 1
        unwrap = find_all(body, lambda k: k[0] == "if" and k[1][0] == "declcond" and "VirtualArray" in str(k[1][2]) and find_all(k[2], lambda q: q[0] == "mcall" and q[1] == "mergeable"))
        r.check(bool(unwrap), f["qual"], "%s:%d" % (f["file"], f["line"]), "%s decides by the class or parameters of `%s` without looking through a VirtualArray first" % (f["qual"], other), detail="virtual operand unwrapped")
    if n < 8:
        raise AnalysisError("only %d deciding mergeable implementations found" % n)
    return r.done()


# ------------------------------------------------------------------------------------------------
# a RegularArray whose size may be 0 knows its own length

_ZEROS_LITERAL_OK = {
    "Content::getitem": "the top-level wrapper: one row holding the whole array",
    "getitem_next_missing_jagged": "applied to the top-level wrapper only (`that` has length 1): one row",
    "IndexedArrayOf::sort_next": "a wrapper of size parents_length that is only used to carry the None positions; its zeros_length is never read (size 0 means no parents)",
    "IndexedArrayOf::argsort_next": "as sort_next",
    "RegularType::empty": "the empty array of a type has length 0 by definition",
}


def rule_regular_zeros_length(rep, fb, floor=3, name="REGULAR.zeros-length"):
    r = rep.rule(name, "a RegularArray constructed in libawkward with a size that is not a literal gets its zeros_length (the length it has when the size is 0) from a variable or expression that counts rows, "
                 "not from the literals 0 or 1: an index array of length 0 applied to n rows must give n empty rows ([[1,2],[3,4],[5,6]][:, []] is [[],[],[]]); the five functions that legitimately wrap exactly "
                 "one row (or none) are tabled", floor=floor)
    n = 0
    for f in fb.lib_funcs(inst=False):
        k = 0
        for m in find_all(f["body"], lambda q: q[0] in ("make", "ctor") and str(q[1]) == "RegularArray" and len(q[2]) >= 5):
            size, zl = m[2][3], m[2][4]
            while zl[0] in ("cast", "widen", "narrow"):
                zl = zl[3]
            if size[0] == "const":
                continue
            n += 1
            k += 1
            if zl[0] == "const":
                if f["qual"] in _ZEROS_LITERAL_OK:
                    r.excepted("%s#%d" % (f["qual"], k), _ZEROS_LITERAL_OK[f["qual"]])
                else:
                    r.fail("%s#%d" % (f["qual"], k), "%s:%d" % (f["file"], m[-1] if isinstance(m[-1], int) else f["line"]),
                           "%s builds a RegularArray of variable size with the literal zeros_length %r: when the size is 0 the number of rows is lost" % (f["qual"], zl[1]))
            else:
                r.ok("%s#%d" % (f["qual"], k), "zeros_length from an expression")
    if n < 10:
        raise AnalysisError("only %d RegularArray constructions with a variable size found" % n)
    return r.done()


# ------------------------------------------------------------------------------------------------
# strides are accumulated from the innermost dimension

def rule_strides_inner_first(rep, fb, floor=3, name="STRIDES.inner-first"):
    r = rep.rule(name, "a loop that builds C-order strides by prepending (`strides.insert(strides.begin(), ...)`, each new stride a product with what is already there) walks the dimensions from the innermost one: "
                 "a counter that decreases, or reverse iterators - a range-for or an increasing counter over the shape multiplies the outer extents into the inner strides (right shape, wrong items for "
                 "non-square index arrays)", floor=floor)
    n = 0
    for f in fb.lib_funcs(inst=False):
        for lp in find_all(f["body"], lambda k: k[0] in ("for", "foreach", "while")):
            body = lp[2] if lp[0] in ("for", "while") else lp[4]
            ins = find_all(body, lambda k: k[0] == "mcall" and k[1] == "insert" and k[3][0] == "var" and "stride" in k[3][1].lower() and k[4] and find_all((k[4][0],), lambda q: q[0] == "mcall" and q[1] == "begin" and q[3] == k[3]))
            # only the loop directly around the insert
            if not ins or any(find_all((b,), lambda q: q is ins[0]) for b in find_all(body, lambda k: k[0] in ("for", "foreach", "while"))):
                continue
            n += 1
            if lp[0] == "foreach":
                ok, how = False, "range-for (outermost first)"
            elif lp[0] == "for":
                txt = repr(lp[3]) + repr(lp[1])
                dec = bool(find_all(lp[3], lambda k: (k[0] == "aug" and k[1] == "-") or (k[0] == "un" and k[1] in ("--", "post--", "pre--")))) or "'--'" in repr(lp[3]) or "post--" in repr(lp[3])
                rev = "rend" in txt or "rbegin" in txt
                ok, how = (dec or rev), ("decreasing counter" if dec else ("reverse iterators" if rev else "increasing counter"))
            else:
                ok, how = True, "while loop (not classified)"
            r.check(ok, "%s#%s%d" % (f["qual"], ins[0][3][1], n), "%s:%d" % (f["file"], ins[0][-1] if isinstance(ins[0][-1], int) else f["line"]),
                    "%s prepends to `%s` in a loop that walks the dimensions with a %s" % (f["qual"], ins[0][3][1], how), detail=how)
    if n < 3:
        raise AnalysisError("only %d stride-prepending loops found" % n)
    return r.done()


# ------------------------------------------------------------------------------------------------
# both ends of a range on content_ are positions in the same numbering

def rule_range_same_base(rep, fb, floor=3, name="ORIGIN.range-one-base"):
    r = rep.rule(name, "in the list node classes, the two bounds of `content_.getitem_range[_nowrap](a, b)` are positions in one numbering: both taken from this node's own starts_/stops_/offsets_ (positions in content_) "
                 "or both zero-based - never one read from offsets_ and the other from a compacted copy (`compact_offsets64`, offsets of toListOffsetArray64(true)), whose values are smaller by offsets_[0]: "
                 "the mixed range cuts the content short by the first offset, which only views that do not start at 0 notice", floor=floor)
    n = 0
    for f in fb.lib_funcs(inst=False):
        if (f.get("cls") or "") not in ("ListOffsetArrayOf", "ListArrayOf"):
            continue
        body = f["body"]
        zero_idx, abs_names, zero_names = set(), set(), set()
        for d in find_all(body, lambda k: k[0] == "decl" and k[3] is not None):
            if find_all((d[3],), lambda q: q[0] == "mcall" and q[1] == "compact_offsets64"):
                zero_idx.add(d[1])
        grew = True
        while grew:
            grew = False
            for d in find_all(body, lambda k: k[0] == "decl" and k[3] is not None):
                if d[1] in abs_names or d[1] in zero_names or d[1] in zero_idx:
                    continue
                if find_all((d[3],), lambda q: (q[0] == "member" and q[1] == ("this",) and q[2] in ("offsets_", "starts_", "stops_")) or (q[0] == "var" and q[1] in abs_names)):
                    abs_names.add(d[1]); grew = True
                elif find_all((d[3],), lambda q: q[0] == "var" and (q[1] in zero_idx or q[1] in zero_names)):
                    zero_names.add(d[1]); grew = True

        def base(e):
            if find_all((e,), lambda q: (q[0] == "member" and q[1] == ("this",) and q[2] in ("offsets_", "starts_", "stops_")) or (q[0] == "var" and q[1] in abs_names)):
                return "own"
            if find_all((e,), lambda q: q[0] == "var" and (q[1] in zero_idx or q[1] in zero_names)):
                return "zero-based"
            return None
        for m in find_all(body, lambda k: k[0] == "mcall" and k[1] in ("getitem_range_nowrap", "getitem_range") and len(k[4]) == 2 and find_all((k[3],), lambda q: q == ("member", ("this",), "content_"))):
            a, b = base(m[4][0]), base(m[4][1])
            if a is None and b is None:
                continue
            n += 1
            r.check(not (a and b and a != b), "%s#range%d" % (f["qual"], n), "%s:%d" % (f["file"], m[-1] if isinstance(m[-1], int) else f["line"]),
                    "%s cuts content_ from a %s position to a %s position" % (f["qual"], a, b), detail="%s .. %s" % (a or "-", b or "-"))
    if n < 3:
        raise AnalysisError("only %d ranges on content_ with classified bounds found" % n)
    return r.done()



# ------------------------------------------------------------------------------------------------
# a union is as long as its tags

def rule_union_length_is_tags(rep, fb, floor=4, name="LENGTH.union-tags"):
    r = rep.rule(name, "in UnionArrayOf, the length of the array is the length of tags_ (index_ may be longer: the constructor only requires len(index) >= len(tags)); index_.length() is read only to compare it with "
                 "the tags' length - it is never handed to a kernel as the number of items nor used as a loop bound: the items beyond len(tags) are not part of the array, and tags_ has no entries for them", floor=floor)
    n = 0
    for f in fb.lib_funcs(inst=False):
        if (f.get("cls") or "") != "UnionArrayOf":
            continue
        uses = find_all(f["body"], lambda k: k[0] == "mcall" and k[1] == "length" and k[3] == ("member", ("this",), "index_"))
        if not uses:
            continue
        cmps = find_all(f["body"], lambda k: k[0] == "bin" and k[1] in ("<", "<=", ">", ">=", "==", "!="))
        for u in uses:
            n += 1
            incmp = any(find_all((c[2],), lambda q: q is u) or find_all((c[3],), lambda q: q is u) for c in cmps)
            if not incmp:
                # `int64_t n = index_.length();` is as good if the local is only ever compared
                holders = [d for d in find_all(f["body"], lambda k: k[0] == "decl" and k[3] is u)]
                if holders:
                    v = ("var", holders[0][1])
                    reads = find_all(f["body"], lambda q: q == v)
                    incmp = bool(reads) and all(any(find_all((c[2],), lambda q: q is rd) or find_all((c[3],), lambda q: q is rd) for c in cmps) for rd in reads)
            r.check(incmp, "%s#index_.length%d" % (f["qual"], n), "%s:%d" % (f["file"], u[-1] if isinstance(u[-1], int) else f["line"]),
                    "%s uses index_.length() as a count of items (the array has tags_.length() items)" % f["qual"], detail="only compared")
    if n < 4:
        raise AnalysisError("only %d reads of index_.length() in UnionArrayOf found" % n)
    return r.done()


# ------------------------------------------------------------------------------------------------
# the offset of an Identities view counts elements of the buffer

def rule_identities_offset_units(rep, fb, floor=4, name="UNIT.identities-offset"):
    r = rep.rule(name, "in IdentitiesOf, offset_ counts elements of the flat buffer (data() is ptr_ + offset_; value(row, col) is ptr_[offset_ + row*width_ + col]): wherever it takes part in an address or in the "
                 "offset of a derived view it is added, never multiplied by width_ - rows are scaled by width_, the offset already is", floor=floor)
    n = 0
    for f in fb.lib_funcs(inst=False):
        if (f.get("cls") or "") != "IdentitiesOf":
            continue
        for m in find_all(f["body"], lambda k: k[0] == "bin" and k[1] == "*"):
            sides = (m[2], m[3])
            if not any(find_all((s_,), lambda q: q == ("member", ("this",), "offset_")) for s_ in sides):
                continue
            # offset_ inside a product: allowed only as (offset_ + ...) * sizeof (byte counts)
            n += 1
            other = [s_ for s_ in sides if not find_all((s_,), lambda q: q == ("member", ("this",), "offset_"))]
            bytes_ = bool(other) and bool(find_all((other[0],), lambda q: q[0] == "sizeof"))
            r.check(bytes_, "%s#scaled%d" % (f["qual"], n), "%s:%d" % (f["file"], m[-1] if isinstance(m[-1], int) else f["line"]), "%s multiplies an expression containing offset_ (already in elements) by something other than sizeof(T)" % f["qual"], detail="byte count")
        for a in find_all(f["body"], lambda k: k[0] == "bin" and k[1] == "+" and ("member", ("this",), "offset_") in (k[2], k[3])):
            n += 1
            r.ok("%s#added%d" % (f["qual"], n), "offset_ added")
    if n < 4:
        raise AnalysisError("only %d uses of offset_ in IdentitiesOf arithmetic found" % n)
    return r.done()


# ------------------------------------------------------------------------------------------------
# a local that replaces a member for the rest of a computation

def rule_adjusted_twin(rep, fb, floor=2, name="TWIN.adjusted-local"):
    r = rep.rule(name, "where a method copies a member into a local of the same stem (`int64_t size = size_;`) and then adjusts the local (`size += n - 1`), the local is the quantity the computation continues with: "
                 "an `if` that compares a variable with the adjusted local does not recompute that variable from the unadjusted member in its body (`if (thisn*2 > size) thisn = size_ - thisn;`) - "
                 "the two agree whenever the adjustment is zero, so only the adjusted case (combinations with replacement) goes wrong", floor=floor)
    n = 0
    for f in fb.lib_funcs(inst=False):
        decls = find_all(f["body"], lambda k: k[0] == "decl" and k[3] is not None and k[3][0] == "member" and k[3][1] == ("this",) and isinstance(k[3][2], str)
                         and k[3][2] != k[1] and k[3][2].rstrip("_") == k[1])
        for d in decls:
            L, M = d[1], d[3][2]
            mods = find_all(f["body"], lambda k: (k[0] == "aug" and k[2] == ("var", L)) or (k[0] == "assign" and k[1] == ("var", L)))
            if not mods:
                continue
            for j, st in enumerate(find_all(f["body"], lambda k: k[0] == "if" and find_all((k[1],), lambda q: q == ("var", L)))):
                others = {q[1] for q in find_all((st[1],), lambda q: q[0] == "var" and q[1] != L)}
                n += 1
                bad = [a for a in find_all(st[2], lambda k: (k[0] == "assign" and k[1][0] == "var" and k[1][1] in others) or (k[0] == "aug" and k[2][0] == "var" and k[2][1] in others))
                       if find_all((a[2] if a[0] == "assign" else a[3],), lambda q: q == ("member", ("this",), M))]
                r.check(not bad, "%s#%s@if%d" % (f["qual"], L, j + 1), "%s:%d" % (f["file"], st[-1] if isinstance(st[-1], int) else f["line"]),
                        "%s compares with the adjusted local `%s` and then recomputes the compared variable from the member `%s`" % (f["qual"], L, M), detail="adjusted local used")
    if n < 2:
        raise AnalysisError("only %d conditions on adjusted member copies found" % n)
    return r.done()


# ------------------------------------------------------------------------------------------------
# the regularised copy of an index replaces the raw one

def rule_regularized_copy_used(rep, fb, floor=2, name="GUARD.regularized-copy"):
    r = rep.rule(name, "where a method keeps the user's positions `X` and a kernel-made regularised copy `regular_X` (negative positions wrapped, range checked), every later kernel call reads the positions through "
                 "`regular_X.data()`: `X.data()` still holds the negative values, which the consuming kernels use as they are (x[[0,1,2],[0,-1,-2]] read the wrong row elements); "
                 "`X.length()` is the same number and may be used", floor=floor)
    n = 0
    for f in fb.lib_funcs(inst=False):
        locs = {d[1] for d in find_all(f["body"], lambda k: k[0] == "decl")}
        for R in sorted(x for x in locs if x.startswith("regular_") and x[len("regular_"):] in locs):
            X = R[len("regular_"):]
            is_data = lambda a, v: a[0] == "mcall" and a[1] == "data" and a[3] == ("var", v)
            calls = [c for c in find_all(f["body"], lambda k: k[0] == "call" and k[1][0] == "fn" and isinstance(k[2], (list, tuple)))
                     if any(is_data(a, R) or is_data(a, X) for a in c[2] if isinstance(a, tuple) and a)]
            producers = [c for c in calls if any(is_data(a, R) for a in c[2]) and any(is_data(a, X) for a in c[2])]
            if not producers:
                continue
            for j, c in enumerate(c for c in calls if c not in producers):
                n += 1
                raw = [a for a in c[2] if is_data(a, X)]
                r.check(not raw, "%s#%s@%s#%d" % (f["qual"], R, str(c[1][1]).split("::")[-1], j + 1), "%s:%d" % (f["file"], c[-1] if isinstance(c[-1], int) else f["line"]),
                        "%s hands the raw positions `%s.data()` to %s although the regularised copy `%s` exists" % (f["qual"], X, str(c[1][1]).split("::")[-1], R), detail="regularised copy read")
    if n < 2:
        raise AnalysisError("only %d kernel calls after a regularised copy found" % n)
    return r.done()


# ------------------------------------------------------------------------------------------------
# a byte buffer for a strided copy is len * stride bytes

def _nocast(e):
    while isinstance(e, tuple) and e and e[0] == "cast":
        e = e[3]
    if isinstance(e, tuple) and e and e[0] == "bin":
        return ("bin", e[1], _nocast(e[2]), _nocast(e[3]))
    if isinstance(e, tuple) and e and e[0] == "paren":
        return _nocast(e[1])
    if isinstance(e, tuple):
        return tuple(_nocast(x) if isinstance(x, tuple) else x for x in e if not isinstance(x, int) or x is e[0] or True)
    return e


def _noline3(e):
    if isinstance(e, tuple):
        t = tuple(_noline3(x) for x in e)
        if t and isinstance(t[-1], int) and t[0] in ("mcall", "call", "ctor", "make"):
            t = t[:-1]
        return t
    return e


def rule_alloc_len_stride(rep, fb, floor=3, name="ALLOC.len-times-stride"):
    r = rep.rule(name, "a raw byte buffer obtained with kernel::malloc<void>(lib, SIZE) and handed to a kernel that copies `len` chunks of `stride` bytes into it (parameters named len/length/lenstarts and stride of the "
                 "kernel's dispatch function) has SIZE = len * stride, with the very expressions that are passed as those two arguments: sizing it by the item size where the chunks are whole rows "
                 "(strides_[0]) makes every copy of a 3-d or deeper array write past the end", floor=floor)
    sigs = {}
    for f in fb.lib_funcs(inst=False):
        if f["file"].endswith("kernel-dispatch.cpp"):
            sigs.setdefault(f["name"], [p[0] for p in f["params"]])
    n = 0
    for f in fb.lib_funcs(inst=False):
        if f["file"].endswith("kernel-dispatch.cpp"):
            continue
        for d in find_all(f["body"], lambda k: k[0] == "decl" and k[3] is not None and find_all((k[3],), lambda q: q[0] == "call" and q[1][0] == "fn" and "malloc" in str(q[1][1]) and len(q[2]) == 2)):
            m_ = find_all((d[3],), lambda q: q[0] == "call" and q[1][0] == "fn" and "malloc" in str(q[1][1]) and len(q[2]) == 2)[0]
            size = _noline3(_nocast(m_[2][1]))
            if size[0] == "var":
                # `int64_t nbytes = len*stride;` first: look through one local
                holder = [k for k in find_all(f["body"], lambda k: k[0] == "decl" and k[1] == size[1] and k[3] is not None)]
                if len(holder) == 1:
                    size = _noline3(_nocast(holder[0][3]))
            P = d[1]
            for c in find_all(f["body"], lambda k: k[0] == "call" and k[1][0] == "fn" and str(k[1][1]).split("::")[-1] in sigs):
                kn = str(c[1][1]).split("::")[-1]
                ps = sigs[kn]
                if len(ps) != len(c[2]) or "stride" not in ps:
                    continue
                # the buffer is the first pointer argument (the `to` side)?
                toidx = next((i for i, p in enumerate(ps) if p.startswith("to")), None)
                if toidx is None or not find_all((c[2][toidx],), lambda q: q == ("var", P)):
                    continue
                # two branches may each declare a `ptr`: the call belongs to the nearest declaration above it
                dl, cl = (d[-1] if isinstance(d[-1], int) else 0), (c[-1] if isinstance(c[-1], int) else 0)
                if not dl <= cl or any(dl < (o[-1] if isinstance(o[-1], int) else 0) <= cl for o in find_all(f["body"], lambda k: k[0] == "decl" and k[1] == P and k is not d)):
                    continue
                lidx = next((i for i, p in enumerate(ps) if p in ("len", "length", "lenstarts", "lencarry")), None)
                if lidx is None:
                    continue
                n += 1
                L = _noline3(_nocast(c[2][lidx]))
                S = _noline3(_nocast(c[2][ps.index("stride")]))
                ok = size in (("bin", "*", L, S), ("bin", "*", S, L))
                r.check(ok, "%s#%s@%s" % (f["qual"], P, kn), "%s:%d" % (f["file"], d[-1] if isinstance(d[-1], int) else f["line"]),
                        "%s allocates `%s` with a size that is not (len argument) * (stride argument) of %s" % (f["qual"], P, kn), detail="len * stride")
    if n < 2:
        raise AnalysisError("only %d strided copies into raw buffers found" % n)
    return r.done()


# ------------------------------------------------------------------------------------------------
# a search that ends in "not found: append" looks at the whole table

def rule_search_whole_table(rep, fb, floor=2, name="SEARCH.whole-table"):
    r = rep.rule(name, "a counting loop that looks an item up in a member table (`T_[j]` compared inside an `if` that returns on a match) in a method that appends to the same table when nothing was found "
                 "starts at 0: a search that starts at a hint (`j = nexttotry_`) without wrapping around misses the entries before the hint, and the method then appends a duplicate "
                 "(RecordBuilder::field_fast created a second field \"x\")", floor=floor)
    n = 0
    for f in fb.lib_funcs(inst=False):
        pushes = {k[3][2] for k in find_all(f["body"], lambda k: k[0] == "mcall" and k[1] in ("push_back", "emplace_back") and k[3][0] == "member" and k[3][1] == ("this",))}
        if not pushes:
            continue

        def onblock(stmts, f=f, pushes=pushes):
            nonlocal n
            for i, st in enumerate(stmts):
                if st[0] != "for" or i == 0 or stmts[i - 1][0] != "decl":
                    continue
                ctr = stmts[i - 1][1]
                if not find_all((st[1],), lambda q: q == ("var", ctr)) or not (st[1][0] == "bin" and st[1][1] in ("<", "!=")):
                    continue
                tables = set()
                for cond_if in find_all(st[2], lambda k: k[0] == "if" and find_all(k[2], lambda q: q[0] == "return")):
                    for sub in find_all((cond_if[1],), lambda q: q[0] == "idx" and q[1][0] == "member" and q[1][1] == ("this",) and find_all((q[2],), lambda z: z == ("var", ctr))):
                        tables.add(sub[1][2])
                hit = sorted(tables & pushes)
                if not hit:
                    continue
                n += 1
                init = stmts[i - 1][3]
                while isinstance(init, tuple) and init and init[0] == "cast":
                    init = init[3]
                zero = init is not None and init[0] == "const" and init[1] in (0, "0")
                r.check(zero, "%s#%s@%d" % (f["qual"], hit[0], n), "%s:%d" % (f["file"], st[-1] if isinstance(st[-1], int) else f["line"]),
                        "%s searches `%s` from `%s` upwards only and appends to it when nothing is found: entries before the start are never compared" % (f["qual"], hit[0], str(_noline3(init))[:40]), detail="from 0")
        cs.each_block(f["body"], onblock)
        # the do-while form: it may start at a hint if it wraps around (`if (i >= size) i = 0;` inside)
        for lp in find_all(f["body"], lambda k: k[0] == "dowhile"):
            body = [x for x in lp[1:] if isinstance(x, tuple) and x and isinstance(x[0], tuple)]
            body = body[0] if body else ()
            tables = set()
            for cond_if in find_all(body, lambda k: k[0] == "if" and find_all(k[2], lambda q: q[0] == "return")):
                for sub in find_all((cond_if[1],), lambda q: q[0] == "idx" and q[1][0] == "member" and q[1][1] == ("this",) and q[2] and find_all((q[2],), lambda z: z[0] == "var")):
                    tables.add((sub[1][2], find_all((sub[2],), lambda z: z[0] == "var")[0][1]))
            for T, ctr in sorted(t for t in tables if t[0] in pushes):
                n += 1
                wraps = bool(find_all(body, lambda k: k[0] == "assign" and k[1] == ("var", ctr) and k[2][0] == "const" and k[2][1] in (0, "0")))
                r.check(wraps, "%s#%s@dowhile%d" % (f["qual"], T, n), "%s:%d" % (f["file"], lp[-1] if isinstance(lp[-1], int) else f["line"]),
                        "%s searches `%s` in a do-while loop that never wraps its counter `%s` back to 0 and appends when nothing is found" % (f["qual"], T, ctr), detail="wraps around")
    if n < 2:
        raise AnalysisError("only %d find-or-append searches found" % n)
    return r.done()
