"""Typed lints (they read the types clang computed: the 'widen' marker, the type of a conditional expression) and a few
class-level rules written after the second baseline hunt (kernels vs. definitions, sort, LayoutBuilder, AwkwardForth)."""
import os
import re
from ..facts import find_all
from ..core import AnalysisError
from . import callsites as cs

_UNSIGNED = re.compile(r"^(const )?(unsigned (int|long|long long)|uint32_t|uint64_t|size_t|unsigned)$")


def _all_funcs(fb, inst):
    out = []
    for fs in fb.kernel_functions().values():
        out += [g for g in fs if bool(g["inst"]) == inst or (not inst and not g["inst"])]
    out += fb.lib_funcs(inst=inst)
    if not inst:
        out += fb.binding_funcs()
    return out


def _positive(kind):
    from .. import cxx
    sample = os.path.join(cxx.VERIF, "selftest", "positive", "narrow_arith.cpp")
    tu = cxx.parse_tu(sample, "lib")
    return sum(len(find_all(g["body"], kind)) for g in tu["funcs"])


def rule_narrow_arith(rep, fb, floor=1, name="WIDTH.narrow-arith"):
    r = rep.rule(name, "in every kernel specialisation and libawkward instantiation no sum or product is computed in 32 bits (or less) and only then widened to 64 bits for a comparison or a subscript "
                 "(`idx + 1 >= offsetslength` with a 32-bit idx): at the largest value of the narrow type the sum has already wrapped, so the range check passes and the access goes far out of bounds. "
                 "Differences (`stops[i] - starts[i]`) and shifts of byte-table entries are exempt", floor=floor)
    is_w = lambda k: k[0] == "widen" and k[3][0] == "bin" and k[3][1] in ("+", "*")
    n = 0
    for inst in (False, True):
        for f in _all_funcs(fb, inst):
            for w in find_all(f["body"], is_w):
                n += 1
                r.fail("%s%s#widen%d" % (f["qual"], list(f.get("ftargs") or f.get("targs") or ()), n), "%s:%d" % (f["file"], f["line"]),
                       "%s computes `%s` in %s and widens the result afterwards: cast an operand to int64_t first" % (f["qual"], str(cs.root_ident(w[3][2]) or w[3][2])[:30] + " " + w[3][1] + " ...", w[2]))
    if _positive(is_w) < 1:
        raise AnalysisError("the narrow-arithmetic matcher did not fire on selftest/positive/narrow_arith.cpp")
    r.ok("tree-wide", "matcher fires on the positive example; %d occurrences in the tree" % n)
    return r.done()


def rule_cond_unsigned(rep, fb, floor=1, name="SIGN.cond-unsigned"):
    r = rep.rule(name, "a conditional expression with a negative literal in one arm does not have an unsigned type (`m ? -1 : fromindex[i]` with fromindex of uint32_t yields 4294967295, not -1): "
                 "decided on clang's own type of the expression in every instantiation", floor=floor)

    def neg(e):
        return (e[0] == "un" and e[1] == "-" and e[2][0] == "const") or (e[0] == "const" and isinstance(e[1], (int, float)) and not isinstance(e[1], bool) and e[1] < 0)
    is_c = lambda k: k[0] == "cond" and len(k) >= 5 and (neg(k[2]) or neg(k[3])) and _UNSIGNED.match(str(k[4]) or "")
    n = m = 0
    for inst in (False, True):
        for f in _all_funcs(fb, inst):
            for c in find_all(f["body"], lambda k: k[0] == "cond" and len(k) >= 5 and (neg(k[2]) or neg(k[3]))):
                m += 1
                if _UNSIGNED.match(str(c[4]) or ""):
                    n += 1
                    r.fail("%s%s#cond%d" % (f["qual"], list(f.get("ftargs") or f.get("targs") or ()), n), "%s:%d" % (f["file"], f["line"]),
                           "%s: a conditional with a negative literal arm has type %s, so the negative value wraps to a large positive one" % (f["qual"], c[4]))
    if _positive(is_c) < 1:
        raise AnalysisError("the unsigned-conditional matcher did not fire on selftest/positive/narrow_arith.cpp")
    r.count("conditionals_with_negative_arm", m)
    for i in range(0, max(m, 1), 10):
        r.ok("cond#%d" % i, "signed result type")
    return r.done()


def rule_union_alternatives(rep, fb, floor=10, name="BUILDER.union-alternatives"):
    r = rep.rule(name, "every place where UnionBuilder adds an alternative (contents_.push_back) is preceded, in the same block, by a test of contents_.size() that throws: tags and current_ are 8-bit, "
                 "so a 129th alternative wraps to a negative tag and indexes contents_ out of bounds", floor=floor)
    fs = [f for f in fb.lib_funcs(inst=False) if (f.get("cls") or "") == "UnionBuilder"]
    if len(fs) < 15:
        raise AnalysisError("UnionBuilder methods not found")
    n = 0

    def onblock(stmts):
        nonlocal n
        for i, s in enumerate(stmts):
            if s[0] in ("if", "while", "for", "switch", "dowhile", "foreach", "try"):
                continue
            for m in find_all((s,), lambda k: k[0] == "mcall" and k[1] == "push_back" and k[3] == ("member", ("this",), "contents_")):
                n += 1
                guard = any(p[0] == "if" and "contents_" in repr(p[1]) and find_all((p[1],), lambda k: k[0] == "mcall" and k[1] == "size") and find_all(p[2], lambda k: k[0] == "throw") for p in stmts[:i])
                r.check(guard, "%s#push_back%d" % (cur["qual"], n), "%s:%d" % (cur["file"], m[-1] if isinstance(m[-1], int) else cur["line"]), "%s adds an alternative without checking that the 8-bit tag can still number it" % cur["qual"], detail="size guard that throws")
    for f in fs:
        cur = f
        cs.each_block(f["body"], onblock)
    return r.done()


def rule_forth_source_literals(rep, fb, floor=20, name="FORTH.generated-source"):
    r = rep.rule(name, "the AwkwardForth text that the LayoutBuilder node classes assemble from string literals (src/libawkward/layoutbuilder/*.cpp) is well-formed and composable: "
                 "(a) `s\\\"` and `.\\\"` are followed by a blank (they are words, the string starts after the blank); (b) a `variable` is never declared under a fixed name in a node class - two nodes of that class "
                 "in one Form would declare it twice - its name contains the node's own vm_func_name_/vm_output_data_; (c) begin_list and end_list of one class do not have identical bodies", floor=floor)
    fs = [f for f in fb.lib_funcs(inst=False) if f["file"].startswith("src/libawkward/layoutbuilder/")]
    if len(fs) < 60:
        raise AnalysisError("only %d function bodies under src/libawkward/layoutbuilder" % len(fs))
    nlit = 0
    for f in fs:
        lits = [k for k in find_all(f["body"], lambda k: k[0] == "const" and isinstance(k[1], str))]
        k = 0
        for c in lits:
            t = c[1]
            nlit += 1
            for mm in re.finditer(r'(?:^|\s)(s"|\.")(\S)', t):
                k += 1
                r.fail("%s#strword%d" % (f["qual"], k), "%s:%d" % (f["file"], f["line"]), "%s emits `%s` without the blank after %s: the tokenizer reads one unknown word" % (f["qual"], t.strip()[:30], mm.group(1)))
            mm = re.search(r"\bvariable\s+([A-Za-z_][\w-]*)", t)
            if mm and (f.get("cls") or "") not in ("LayoutBuilder",):
                k += 1
                r.fail("%s#variable:%s" % (f["qual"], mm.group(1)), "%s:%d" % (f["file"], f["line"]), "%s declares the Forth variable `%s` under a fixed name: a Form with two %s nodes declares it twice and the machine refuses the program" % (f["qual"], mm.group(1), f.get("cls")))
        if lits and not k:
            r.ok(f["qual"], "%d literals" % len(lits))
    bycls = {}
    for f in fs:
        if f["name"] in ("begin_list", "end_list"):
            bycls.setdefault(f.get("cls"), {})[f["name"]] = f
    for c, d in sorted(bycls.items(), key=lambda kv: str(kv[0])):
        if len(d) == 2:
            same = cs_noline(d["begin_list"]["body"]) == cs_noline(d["end_list"]["body"])
            trivial = len(d["begin_list"]["body"]) <= 1 and not find_all(d["begin_list"]["body"], lambda k: k[0] in ("mcall", "call"))
            fwd = lambda b: [k[1] for k in find_all(b, lambda k: k[0] == "mcall" and k[1] in ("begin_list", "end_list"))]
            r.check(not same or trivial or fwd(d["begin_list"]["body"]) != fwd(d["end_list"]["body"]), "%s:begin~end" % c, "%s:%d" % (d["begin_list"]["file"], d["begin_list"]["line"]),
                    "%s::begin_list has the same body as end_list: opening a list closes one" % c, detail="distinct bodies")
    r.count("string_literals", nlit)
    return r.done()


def cs_noline(x):
    if isinstance(x, tuple):
        y = tuple(cs_noline(e) for e in x)
        if y and isinstance(y[0], str) and y[0] in ("decl", "assign", "aug", "expr", "if", "for", "while", "return", "throw", "mcall", "call", "ctor", "make", "foreach", "switch", "try", "dowhile") and isinstance(y[-1], int):
            return y[:-1]
        return y
    return x


def rule_forth_parse_depth(rep, fb, floor=8, name="FORTH.parse-depth"):
    r = rep.rule(name, "every recursive call of ForthMachineOf::parse that compiles the body of a control structure (if/else, do/loop, begin/until/while/repeat/again) passes exitdepth + 1: "
                 "each body is one more segment that `exit` has to unwind; a body compiled with the caller's own exitdepth makes `exit` inside it act as `continue`", floor=floor)
    fs = [f for f in fb.lib_funcs(inst=False) if (f.get("cls") or "").startswith("ForthMachineOf") and f["name"] == "parse"]
    if not fs:
        raise AnalysisError("ForthMachineOf::parse not found")
    f = fs[0]
    pnames = [p[0] for p in f["params"]]
    if "exitdepth" not in pnames:
        raise AnalysisError("ForthMachineOf::parse has no parameter exitdepth")
    ix = pnames.index("exitdepth")
    n = 0
    for c in find_all(f["body"], lambda k: (k[0] == "mcall" and k[1] == "parse" and len(k[4]) > ix) or (k[0] == "call" and k[1][0] == "fn" and str(k[1][1]).endswith("parse") and len(k[2]) > ix)):
        args = c[4] if c[0] == "mcall" else c[2]
        a = args[ix]
        n += 1
        ok = (a[0] == "bin" and a[1] == "+" and ("var", "exitdepth") in (a[2], a[3]) and ("const", 1) in (a[2], a[3])) or a[0] == "const"
        r.check(ok, "parse#call%d" % n, "%s:%d" % (f["file"], c[-1] if isinstance(c[-1], int) else f["line"]), "ForthMachineOf::parse compiles a nested body with exitdepth `%s` instead of exitdepth + 1" % (str(a)[:40]), detail="exitdepth + 1")
    return r.done()


def rule_narrow_accumulator(rep, fb, floor=1, name="WIDTH.narrow-accumulator"):
    r = rep.rule(name, "in every kernel specialisation, a running total that is stored into a 64-bit output (`tooffsets[i + 1] = offset`) is itself 64 bits wide: a local declared with the kernel's index type C "
                 "(int32_t / uint32_t in two of three specialisations) and advanced with `+=` wraps although each addend fits", floor=floor)
    n = m = 0
    for fs in fb.kernel_functions().values():
        for f in fs:
            if not f["inst"]:
                continue
            ptypes = dict(f["params"])
            for d in find_all(f["body"], lambda k: k[0] == "decl" and re.match(r"^(const )?(int|unsigned int|short|unsigned short|signed char|unsigned char|int32_t|uint32_t|int16_t|uint16_t|int8_t|uint8_t)$", str(k[2]) or "")):
                v = d[1]
                augs = find_all(f["body"], lambda k: (k[0] == "aug" and k[1] in ("+", "*") and k[2] == ("var", v) and not (k[3][0] == "const")) or (k[0] == "assign" and k[1] == ("var", v) and k[2][0] == "bin" and k[2][1] in ("+", "*") and ("var", v) in (k[2][2], k[2][3]) and not any(x[0] == "const" for x in (k[2][2], k[2][3]))))
                if not augs:
                    continue
                # stored into a 64-bit output array?
                stores = find_all(f["body"], lambda k: k[0] == "assign" and k[1][0] == "idx" and k[1][1][0] == "var" and re.search(r"\b(long|int64_t|unsigned long|uint64_t)\b", ptypes.get(k[1][1][1], "")) and find_all((k[2],), lambda q: q == ("var", v)))
                m += 1
                if stores:
                    n += 1
                    r.fail("%s%s#%s" % (f["qual"], list(f.get("ftargs") or ()), v), "%s:%d" % (f["file"], d[-1] if isinstance(d[-1], int) else f["line"]), "%s%s accumulates into `%s %s` and stores it into the 64-bit output %s: the total wraps at the narrow type's range" % (
                        f["qual"], list(f.get("ftargs") or ()), d[2], v, stores[0][1][1][1]))
    r.count("narrow_accumulators_seen", m)
    r.ok("tree-wide", "%d narrow accumulators, none stored into a wider output" % m)
    return r.done()


def rule_index_form_arms(rep, fb, floor=5, name="CLONE.index-form-arms"):
    r = rep.rule(name, "in a switch over Index::Form (i8 / u8 / i32 / u32 / i64), the arms are the same code once the index width is abstracted (Index32 ~ Index64, int32_t ~ int64_t, IndexedOptionArray32 ~ ...64): "
                 "an arm that builds its Index differently from its siblings (another offset, another length, another buffer) is a slip that only one index width exposes", floor=floor)

    def absw(x):
        s = repr(cs_noline(x))
        s = re.sub(r"(Array|Index|int|uint|toIndex)(U?8_U?32|8_64|8_U32|8_32|U8|U32|8|32|64)(_t)?", r"\1W", s)
        return s
    nsw = 0
    for f in fb.lib_funcs(inst=False):
        for s in find_all(f["body"], lambda k: k[0] == "switch"):
            arms = []
            for labels, body in s[2]:
                ls = [l[1].split("::")[-1] for l in labels if isinstance(l, tuple) and l[0] == "enum" and "Form::" in l[1]]
                if not ls or not body or body[0][0] in ("throw", "break"):
                    continue
                if not find_all(body, lambda k: k[0] in ("make", "ctor") and re.search(r"(Array|Index)", str(k[1]))):
                    continue     # a lookup table (names, formats): its arms differ by design
                arms.append((",".join(ls), absw(tuple(body))))
            if len(arms) < 2:
                continue
            nsw += 1
            forms = {}
            for lab, nf in arms:
                forms.setdefault(nf, []).append(lab)
            r.check(len(forms) == 1, "%s#switch@%d" % (f["qual"], nsw), "%s:%d" % (f["file"], s[-1] if isinstance(s[-1], int) else f["line"]),
                    "%s: the arms of the switch over Index::Form differ beyond the index width (%s)" % (f["qual"], " vs ".join("/".join(v) for v in forms.values())), detail="arms are clones modulo width")
    return r.done()
