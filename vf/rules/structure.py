"""Rule families F (AXIS), E (FAMILY / CLONE) over libawkward."""
import re
from ..facts import find_all
from ..core import load_table
from .callsites import each_block, each_block_cont, root_ident, scoped_defs, _PseudoSite
from .kspec import cexpr, unparse

LIST_CLASSES = ("ListArrayOf", "ListOffsetArrayOf", "RegularArray")
AXIS_METHODS = ("num", "offsets_and_flattened", "rpad", "rpad_and_clip", "localindex", "combinations")
NEG_METHODS = ("reduce_next", "sort_next", "argsort_next")
SELF_REENCODE = ("toListOffsetArray64", "toRegularArray", "toByteMaskedArray", "toIndexedOptionArray64", "array", "shallow_copy", "simplify_optiontype", "simplify_uniontype")


def _depth_form(e):
    """'depth' | 'depth+1' | other text"""
    c = cexpr(e)
    if c == ("var", "depth"):
        return "depth"
    if c in (("bin", "+", ("const", 1), ("var", "depth")), ("bin", "+", ("var", "depth"), ("const", 1))):
        return "depth+1"
    return unparse(c)


def _child_of_content(e, site_defs, depth=0):
    """does the receiver expression designate the node one level down (derived from content_ / .content()) ?
       returns 'child' | 'self' | None"""
    if e is None or depth > 5:
        return None
    h = e[0]
    if h == "deref":
        return _child_of_content(e[1], site_defs, depth)
    if h == "member":
        if e[2] in ("content_", "contents_"):
            return "child"
        return _child_of_content(e[1], site_defs, depth + 1) if e[1] != ("this",) else None
    if h == "mcall":
        name, recv = e[1], e[3]
        if name in ("content", "contents"):
            return "child"
        if recv == ("this",) or recv == ("deref", ("this",)):
            if name in SELF_REENCODE:
                return "self"
            return None
        inner = _child_of_content(recv, site_defs, depth + 1)
        if inner == "child" and name in ("getitem_range_nowrap", "getitem_range", "carry", "shallow_copy", "getitem_nothing", "get"):
            return "child"
        if inner == "self":
            return "self"
        return inner
    if h == "var":
        for d in site_defs.get(e[1]) or []:
            r = _child_of_content(d[3], site_defs, depth + 1) if d[3] is not None else None
            if r:
                return r
        return None
    if h == "idx":
        return _child_of_content(e[1], site_defs, depth + 1)
    if h == "cast":
        return _child_of_content(e[3], site_defs, depth + 1)
    if h == "this":
        return "self"
    return None


_SIBLING_STEPS = set()


def rule_axis(rep, fb, methods=AXIS_METHODS, floor=40, name="AXIS.depth"):
    r = rep.rule(name, "in every (axis, depth) method, a recursive call on the node one level down in a list class passes depth+1, "
                 "a call on the node itself re-encoded or on the content of a non-list class passes depth; the axis passed on is axis or the wrapped posaxis; "
                 "axis/depth comparisons are against depth (and depth+1 in list classes) only", floor=floor)
    for f in fb.lib_funcs():
        if f["name"] not in methods:
            continue
        pn = [p[0] for p in f["params"]]
        if "depth" not in pn or "axis" not in pn:
            continue
        di, ai = pn.index("depth"), pn.index("axis")
        cls = f["cls"] or ""
        islist = cls in LIST_CLASSES
        r.count("methods")

        def onblock(stmts, cont, f=f):
            for i, st in enumerate(stmts):
                from .callsites import head_exprs
                for e in head_exprs(st):
                    for m in find_all((e,), lambda n: n[0] == "mcall" and n[1] == f["name"]):
                        args = m[4]
                        if len(args) != len(pn):
                            continue
                        where = "%s:%d" % (f["file"], m[-1])
                        defs = scoped_defs(_PseudoSite(f, stmts, i, cont))
                        kind = _child_of_content(m[3], defs)
                        df = _depth_form(args[di])
                        recvtxt = unparse(cexpr(m[3]))[:60]
                        key = "%s::%s->%s[%s]" % (cls, f["name"], recvtxt, df)
                        if islist:
                            if kind == "child":
                                r.check(df == "depth+1", key, where, "%s::%s recurses into its content (%s) with depth argument '%s' instead of depth + 1" % (cls, f["name"], recvtxt, df),
                                        detail="content of a list node receives depth + 1")
                            elif kind == "self":
                                r.check(df == "depth", key, where, "%s::%s re-dispatches on the same node (%s) with depth argument '%s' instead of depth" % (cls, f["name"], recvtxt, df),
                                        detail="same node re-encoded receives depth")
                            else:
                                r.fail(key, where, "cannot classify the receiver '%s' of the recursive %s call in list class %s (neither content nor a re-encoding of this)" % (recvtxt, f["name"], cls))
                        else:
                            r.check(df == "depth", key, where, "%s::%s (not a list level) passes depth argument '%s' instead of depth" % (cls, f["name"], df),
                                    detail="non-list node forwards depth unchanged")
                        # axis argument
                        aa = cexpr(args[ai])
                        okaxis = aa == ("var", "axis")
                        if aa[0] == "var" and not okaxis:
                            for d in defs.get(aa[1]) or []:
                                if d[3] is not None and find_all((d[3],), lambda n: n[0] == "mcall" and n[1] == "axis_wrap_if_negative") and find_all((d[3],), lambda n: n == ("var", "axis")):
                                    okaxis = True
                        r.check(okaxis, key + ":axis", where, "%s::%s passes '%s' as axis (expected axis or the wrapped posaxis)" % (cls, f["name"], unparse(aa)))
                        # one level down the axis must be the wrapped one: a negative axis re-wrapped by the child is counted from the wrong node
                        if df == "depth+1" and find_all(f["body"], lambda n: n[0] == "decl" and n[3] is not None and find_all((n[3],), lambda k: k[0] == "mcall" and k[1] == "axis_wrap_if_negative")):
                            r.check(aa != ("var", "axis"), key + ":wrapped", where, "%s::%s recurses one level down (depth + 1) with the raw `axis` although it has computed the wrapped posaxis: a negative axis is wrapped again, relative to the child" % (cls, f["name"]),
                                    detail="depth + 1 goes with the wrapped axis")
                    # a recursive step must stay in the same operation: calling a sibling (axis, depth) method on the content changes the operation below this level
                    for m in find_all((e,), lambda n: n[0] == "mcall" and n[1] in methods and n[1] != f["name"] and len(n[4]) >= 2):
                        args = m[4]
                        if not (any(_depth_form(a) in ("depth", "depth+1") for a in args) and any(cexpr(a) in (("var", "axis"), ("var", "posaxis")) for a in args)):
                            continue
                        if m[3] == ("this",):
                            continue   # the node's own sibling operation under a guard (rpad -> rpad_and_clip when nothing is clipped): not a step into the content
                        where = "%s:%d" % (f["file"], m[-1])
                        key = "%s::%s->%s#sibling" % (cls, f["name"], m[1])
                        allowed = (f["name"], m[1]) in _SIBLING_STEPS
                        r.check(allowed, key, where, "%s::%s continues the recursion with %s(...) - a different (axis, depth) operation - on %s" % (cls, f["name"], m[1], unparse(cexpr(m[3]))[:50]),
                                detail="tabled sibling step")
        each_block_cont(f["body"], onblock)
        # the wrap of a negative axis is relative to this node's depth: the one-argument form counts from the top of *this* node,
        # which is the whole array only at depth 0 (below a record or union the result is off by `depth` levels)
        for m in find_all(f["body"], lambda n: n[0] == "mcall" and n[1] == "axis_wrap_if_negative"):
            aa = [cexpr(a) for a in m[4]]
            r.check(aa == [("var", "axis"), ("var", "depth")], "%s::%s:wrap" % (cls, f["name"]), "%s:%d" % (f["file"], m[-1]),
                    "%s::%s wraps a negative axis with axis_wrap_if_negative(%s) instead of (axis, depth): the wrapped axis is not counted from this node's depth" % (cls, f["name"], ", ".join(unparse(a) for a in aa)),
                    detail="negative axis wrapped relative to depth")
        # comparisons between (pos)axis and depth
        for c in find_all(f["body"], lambda n: n[0] == "bin" and n[1] in ("==", "!=", "<", "<=", ">", ">=")):
            txt = repr(c)
            if "'depth'" not in txt or ("'posaxis'" not in txt and "'axis'" not in txt):
                continue
            cc = cexpr(c)
            sides = [cc[2], cc[3]]
            dside = [s for s in sides if "'depth'" in repr(s)]
            if len(dside) != 1:
                continue
            df = _depth_form(dside[0])
            allowed = ("depth", "depth+1")
            key = "%s::%s:cmp[%s]" % (cls, f["name"], unparse(cc))
            r.check(df in allowed, key, "%s:%d" % (f["file"], f["line"]), "%s::%s compares the axis with '%s' (allowed: %s)" % (cls, f["name"], df, allowed),
                    detail="axis compared with %s" % df)
    return r.done()


def _var_is_self(recv, stmts):
    """receiver is a local variable initialised (in this block) from a re-encoding of this"""
    e = recv
    while e and e[0] == "deref":
        e = e[1]
    if not e or e[0] != "var":
        return False
    for st in stmts:
        if st[0] == "decl" and st[1] == e[1] and st[3] is not None and find_all((st[3],), lambda n: n[0] == "mcall" and n[1] in SELF_REENCODE and n[3] == ("this",)):
            return True
    return False


def rule_negaxis(rep, fb, floor=40):
    r = rep.rule("AXIS.negaxis", "reduce_next/sort_next/argsort_next pass negaxis on unchanged, except the non-local branch of the list-offset node "
                 "(guarded by negaxis == branchdepth.second) which passes negaxis - 1 to its content", floor=floor)
    for f in fb.lib_funcs():
        if f["name"] not in NEG_METHODS:
            continue
        pn = [p[0] for p in f["params"]]
        if "negaxis" not in pn:
            continue
        ni = pn.index("negaxis")
        cls = f["cls"] or ""

        def visit(stmts, under_nonlocal, f=f):
            from .callsites import head_exprs, sub_blocks
            stmts_ctx = stmts
            for st in stmts:
                for e in head_exprs(st):
                    for m in find_all((e,), lambda n: n[0] == "mcall" and n[1] == f["name"]):
                        args = m[4]
                        if len(args) != len(pn):
                            continue
                        a = cexpr(args[ni])
                        form = "negaxis" if a == ("var", "negaxis") else ("negaxis-1" if a == ("bin", "-", ("var", "negaxis"), ("const", 1)) else unparse(a))
                        # a re-dispatch on the same node re-encoded (toListOffsetArray64(true) ...) keeps negaxis on every branch
                        selfcall = bool(find_all((m[3],), lambda n: n[0] == "mcall" and n[1] in SELF_REENCODE)) or _var_is_self(m[3], stmts_ctx)
                        want = "negaxis-1" if (under_nonlocal and cls == "ListOffsetArrayOf" and not selfcall) else "negaxis"
                        recvtxt = unparse(cexpr(m[3]))[:50]
                        key = "%s::%s->%s[%s]" % (cls, f["name"], recvtxt, "nonlocal" if under_nonlocal else "local")
                        r.check(form == want, key, "%s:%d" % (f["file"], m[-1]), "%s::%s passes '%s' as negaxis on the %s branch (expected %s)" % (cls, f["name"], form, "non-local" if under_nonlocal else "local/forwarding", want),
                                detail="passes %s" % form)
                        # the number of output groups goes with the parents handed down: the caller's own pair unchanged, or, below a list-offset node,
                        # the groups this node has just formed (maxnextparents + 1 across lists, one per list within lists)
                        if "parents" in pn and "outlength" in pn:
                            pa, oa = cexpr(args[pn.index("parents")]), cexpr(args[pn.index("outlength")])
                            if pa == ("var", "parents") or cls != "ListOffsetArrayOf":
                                wanto = ("var", "outlength")
                            elif under_nonlocal:
                                wanto = cexpr(("bin", "+", ("var", "maxnextparents"), ("const", 1)))
                            else:
                                wanto = cexpr(("bin", "-", ("mcall", "length", None, ("member", ("this",), "offsets_"), ()), ("const", 1)))
                            r.check(oa == wanto, key + ":outlength", "%s:%d" % (f["file"], m[-1]),
                                    "%s::%s hands parents '%s' down with outlength '%s' (expected '%s'): the callee sizes its output by outlength, one slot per distinct parent" % (cls, f["name"], unparse(pa), unparse(oa), unparse(wanto)),
                                    detail="outlength matches the parents passed")
                if st[0] == "if":
                    c = cexpr(st[1]) if st[1][0] != "declcond" else None
                    isnl = bool(c) and bool(find_all((c,), lambda n: n[0] == "bin" and n[1] == "==" and "negaxis" in repr(n) and "branchdepth" in repr(n)))
                    visit(st[2], under_nonlocal or isnl)
                    visit(st[3], under_nonlocal)
                else:
                    for b in sub_blocks(st):
                        visit(b, under_nonlocal)
        visit(f["body"], False)
        # an option node hands back the content's result untouched whenever the reduction is at this node or above it (negaxis >= depth below):
        # with `==` the levels above fall into the "reduction is deeper" arm, which re-wraps the already reduced content with the unreduced index
        if f["name"] == "reduce_next" and cls in ("IndexedArrayOf", "ByteMaskedArray"):
            for st in find_all(f["body"], lambda n: n[0] == "if" and len(n[2]) == 1 and n[2][0][0] == "return" and n[2][0][1] == ("var", "out")
                               and find_all((n[1],), lambda k: k[0] == "bin" and "negaxis" in repr(k) and "branchdepth" in repr(k) and k[1] in ("==", ">=", ">", "<", "<=", "!="))):
                cmpx = [k for k in find_all((st[1],), lambda k: k[0] == "bin" and k[1] in ("==", ">=", ">", "<", "<=", "!=") and "negaxis" in repr(k))]
                ok = all(cexpr(k) == ("bin", "<=", ("member", ("var", "branchdepth"), "second"), ("var", "negaxis")) for k in cmpx)
                r.check(ok, "%s::reduce_next:early-return" % cls, "%s:%d" % (f["file"], st[-1] if isinstance(st[-1], int) else f["line"]),
                        "%s::reduce_next returns the content's result as it is only for `%s` (expected negaxis >= branchdepth.second)" % (cls, " / ".join(unparse(cexpr(k)) for k in cmpx)), detail="negaxis >= branchdepth.second")
    return r.done()


# ------------------------------------------------------------------------------------------------
# FAMILY

FAMILIES = {
    "ListArray": ["ListArray32", "ListArrayU32", "ListArray64"],
    "ListOffsetArray": ["ListOffsetArray32", "ListOffsetArrayU32", "ListOffsetArray64"],
    "IndexedArray": ["IndexedArray32", "IndexedArrayU32", "IndexedArray64"],
    "IndexedOptionArray": ["IndexedOptionArray32", "IndexedOptionArray64"],
    "UnionArray": ["UnionArray8_32", "UnionArray8_U32", "UnionArray8_64"],
}
MEMBER = {m: k for k, v in FAMILIES.items() for m in v}
WIDTH_OF = {}
for _k, _v in FAMILIES.items():
    for _m in _v:
        WIDTH_OF[_m] = "U32" if "U32" in _m else ("32" if _m.endswith("32") else "64")


def cast_type(c):
    return re.sub(r"^const ", "", c[2]).replace("*", "").strip()


def if_chain(s):
    out = []
    while True:
        out.append((s[1], s[2], s))
        els = s[3]
        if len(els) == 1 and els[0][0] == "if":
            s = els[0]
        else:
            return out, els


def families_of_chains(fb):
    """yield (func, first_if, chain[(cond, body, stmt)], else_block)"""
    for f in fb.lib_funcs():
        seen = set()
        res = []

        def onblock(stmts, f=f):
            for s in stmts:
                if s[0] != "if" or id(s) in seen:
                    continue
                ch, els = if_chain(s)
                for _, _, st in ch:
                    seen.add(id(st))
                res.append((f, s, ch, els))
        each_block(f["body"], onblock)
        for x in res:
            yield x


def _subject_is_operand(func, subj_root):
    if subj_root is None:
        return False
    params = {p[0] for p in func["params"]}
    if subj_root in params or subj_root.endswith("_"):
        return True
    # loop variable over a parameter / member
    for fe in find_all(func["body"], lambda n: n[0] == "foreach" and n[1] == subj_root):
        rr = root_ident(fe[3])
        if rr in params or (rr or "").endswith("_"):
            return True
    return False


def rule_family(rep, fb, floor=25):
    r = rep.rule("FAMILY.cast-dispatch", "an if/else-if chain of dynamic_casts that dispatches on an operand (parameter, data member, element of them) "
                 "and names one member of an index-width family names every member of it", floor=floor)
    table = load_table("family_exceptions.json")
    skipped = 0
    for f, s, ch, els in families_of_chains(fb):
        names, subs = [], []
        for cond, _, _ in ch:
            for c in find_all((cond,), lambda n: n[0] == "cast" and n[1] == "dynamic"):
                names.append(cast_type(c))
                subs.append(root_ident(c[3]))
        fams = sorted({MEMBER[n] for n in names if n in MEMBER})
        if not fams:
            continue
        operand = any(_subject_is_operand(f, x) for x in subs)
        if not operand:
            skipped += 1
            continue
        for fam in fams:
            miss = [m for m in FAMILIES[fam] if m not in names]
            key = "%s:%s:%s" % (f["qual"], fam, ",".join(sorted(set(x or "?" for x in subs))))
            if key in table and miss:
                r.excepted(key, table[key])
                r.ok(key)
                continue
            r.check(not miss, key, "%s:%d" % (f["file"], s[-1]), "dispatch over %s in %s handles %s but not %s" % (fam, f["qual"], [n for n in names if MEMBER.get(n) == fam], miss),
                    detail="all of %s present" % FAMILIES[fam])
    r.count("chains_on_computed_values_skipped", skipped)
    return r.done()


# ---- clone agreement between the width branches of one chain

WHOLE = {"32": {"int", "int32_t"}, "U32": {"unsigned int", "uint32_t"}, "64": {"long", "int64_t"}}
TOKPAIR = {"32": {"32": "W", "int": "I"}, "U32": {"U32": "W", "32": "W", "uint": "I"}, "64": {"64": "W", "int": "I"}}
_TOK = re.compile(r"U?\d+|[A-Za-z]+|_|.", re.S)


def _toks(x):
    return [t for t in _TOK.findall(re.sub(r"(U\d+|\d+)", "\x00\\1\x00", x)) if t != "\x00"]


def _wnorm_equal(a, b, wa, wb):
    """strings equal up to width tokens: a belongs to the branch of width wa, b to the branch of width wb"""
    if a == b:
        return True
    if a in WHOLE[wa] and b in WHOLE[wb]:
        return True
    ta, tb = _toks(a), _toks(b)
    if len(ta) != len(tb):
        return False
    for x, y in zip(ta, tb):
        if x == y:
            continue
        cx, cy = TOKPAIR[wa].get(x), TOKPAIR[wb].get(y)
        if cx is None or cx != cy:
            return False
    return True


def _strip_lines(x):
    """drop trailing line numbers of statements / calls so that clones on different lines compare equal"""
    if isinstance(x, tuple):
        if x and isinstance(x[0], str):
            h = x[0]
            if h in ("decl", "assign", "aug", "expr", "if", "while", "dowhile", "for", "foreach", "return", "break", "continue", "throw", "try", "switch", "goto", "label") and isinstance(x[-1], int):
                x = x[:-1]
            elif h in ("call", "mcall", "ctor", "make", "new") and isinstance(x[-1], int):
                x = x[:-1]
        return tuple(_strip_lines(y) for y in x)
    if isinstance(x, str) and "#L" in x:
        return re.sub(r"#L\d+", "#L", x)
    return x


def anti_unify(a, b, wa, wb, diffs, path=""):
    if a == b:
        return True
    if isinstance(a, str) and isinstance(b, str):
        if _wnorm_equal(a, b, wa, wb):
            diffs.append((a, b))
            return True
        diffs.append(("!", path, a, b))
        return False
    if isinstance(a, tuple) and isinstance(b, tuple) and len(a) == len(b):
        ok = True
        for i, (x, y) in enumerate(zip(a, b)):
            if not anti_unify(x, y, wa, wb, diffs, path + "/%d" % i):
                ok = False
                break
        return ok
    diffs.append(("!", path, a if not isinstance(a, tuple) else unparse(a)[:80], b if not isinstance(b, tuple) else unparse(b)[:80]))
    return False


def rule_clone(rep, fb, floor=20):
    r = rep.rule("CLONE.width-branches", "the branches of a dispatch chain that belong to one index-width family are clones: they differ only "
                 "in width tokens (Index32/IndexU32/Index64, int32_t/..., 32/U32/64 name infixes) consistent with the class cast in each branch", floor=floor)
    table = load_table("clone_exceptions.json")
    for f, s, ch, els in families_of_chains(fb):
        byfam = {}
        for cond, body, st in ch:
            cs = find_all((cond,), lambda n: n[0] == "cast" and n[1] == "dynamic")
            if len(cs) != 1:
                continue
            t = cast_type(cs[0])
            if t in MEMBER:
                byfam.setdefault(MEMBER[t], []).append((t, cond, body, st))
        for fam, brs in byfam.items():
            if len(brs) < 2:
                continue
            ref = brs[-1]   # the 64-bit branch is conventionally last
            for br in brs[:-1]:
                wa, wb = WIDTH_OF[br[0]], WIDTH_OF[ref[0]]
                diffs = []
                a = _strip_lines((br[1], br[2]))
                b = _strip_lines((ref[1], ref[2]))
                ok = anti_unify(a, b, wa, wb, diffs)
                key = "%s:%s~%s" % (f["qual"], br[0], ref[0])
                if not ok and key in table:
                    r.excepted(key, table[key])
                    r.ok(key)
                    continue
                bad = [d for d in diffs if d[0] == "!"]
                r.check(ok, key, "%s:%d" % (f["file"], br[3][-1]), "branch for %s is not a width-clone of the branch for %s: %s" % (br[0], ref[0], bad[:1]),
                        detail="%d width-token differences only" % len(diffs))
    return r.done()



def rule_orderdep(rep, fb, floor=1):
    """a boolean accumulated over a loop must be monotone: otherwise the result depends on which element comes last"""
    from .callsites import each_block
    r = rep.rule("ORDER.loop-flag", "a boolean local declared before a loop over the operands, set to a constant inside the loop and read after it, is only ever set to ONE constant inside the loop "
                 "(a flag assigned true for some operands and false for others records only the last operand: the result would depend on operand order)", floor=floor)
    n = 0
    for f in fb.lib_funcs():
        def onblock(stmts, f=f):
            nonlocal n
            for i, s in enumerate(stmts):
                if s[0] != "foreach":   # range-for over a collection of operands (index/while loops are scanners with legitimate state flags)
                    continue
                body = s[4] if s[0] == "foreach" else s[2]
                asg = find_all(body, lambda k: k[0] == "assign" and len(k) == 4 and k[1][0] == "var" and k[2][0] == "const" and isinstance(k[2][1], bool))
                byvar = {}
                for a in asg:
                    byvar.setdefault(a[1][1], set()).add(a[2][1])
                for v, vals in byvar.items():
                    declared_before = any(st[0] == "decl" and st[1] == v and (st[2] or "").replace("const ", "") == "bool" for st in stmts[:i])
                    read_after = bool(find_all(tuple(stmts[i + 1:]), lambda k: k == ("var", v)))
                    if not (declared_before and read_after):
                        continue
                    n += 1
                    r.check(len(vals) == 1, "%s:%s" % (f["qual"], v), "%s:%d" % (f["file"], s[-1]),
                            "%s: flag '%s' is set to true for some loop elements and to false for others and read after the loop: only the last element decides" % (f["qual"], v),
                            detail="'%s' only set to %s inside the loop" % (v, sorted(vals)))
        each_block(f["body"], onblock)
    r.count("loop_flags", n)
    return r.done()
