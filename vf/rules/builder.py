"""Rule family M (BUILDER): the promotion table of ArrayBuilder's leaf builders, ArrayBuilder::maybeupdate discipline,
GrowableBuffer append-only stores."""
from ..facts import find_all
from ..core import AnalysisError
from .kspec import cexpr, unparse

ALPHA = "null boolean integer real complex datetime timedelta string beginlist endlist begintuple index endtuple beginrecord field endrecord append".split()
VALUE_M = "boolean integer real complex datetime timedelta string beginlist begintuple beginrecord append".split()
CLOSERS = "endlist index endtuple field endrecord".split()
RANK = {"Int64Builder": 1, "Float64Builder": 2, "Complex128Builder": 3}
RANK_M = {"integer": 1, "real": 2, "complex": 3}
BY_RANK = {1: "Int64Builder", 2: "Float64Builder", 3: "Complex128Builder"}
FROM_SUFFIX = {"Int64Builder": "fromint64", "Float64Builder": "fromfloat64"}
OWN = {"BoolBuilder": ["boolean"], "DatetimeBuilder": ["datetime", "timedelta"], "StringBuilder": ["string"]}
EMPTY_OF = {"boolean": "BoolBuilder", "integer": "Int64Builder", "real": "Float64Builder", "complex": "Complex128Builder", "datetime": "DatetimeBuilder",
            "timedelta": "DatetimeBuilder", "string": "StringBuilder", "beginlist": "ListBuilder", "begintuple": "TupleBuilder", "beginrecord": "RecordBuilder"}
LEAVES = ["BoolBuilder", "Int64Builder", "Float64Builder", "Complex128Builder", "DatetimeBuilder", "StringBuilder"]


def _facts(f):
    b = f["body"]
    rets = find_all(b, lambda n: n[0] == "return" and isinstance(n[-1], int))
    thr = find_all(b, lambda n: n[0] == "throw")
    via = set()
    for c in find_all(b, lambda n: n[0] == "call" and n[1][0] == "fn" and isinstance(n[1][1], str) and "Builder::from" in n[1][1]):
        parts = c[1][1].split("::")
        via.add(parts[-2] + "::" + parts[-1])
    app = bool(find_all(b, lambda n: n[0] == "mcall" and n[1] == "append" and n[3] == ("member", ("this",), "buffer_")))
    ret_this = any(r[1] is not None and find_all((r[1],), lambda n: n[0] == "mcall" and n[1] == "shared_from_this") for r in rets)
    return dict(throws=bool(thr), returns=bool(rets), via=via, append=app, ret_this=ret_this)


def rule_builder_table(rep, fb, floor=100):
    r = rep.rule("BUILDER.promotion-table", "for every leaf builder x every ArrayBuilder alphabet method, the extracted action equals the documented unification: "
                 "null -> option; a number of rank <= the builder's (int64 < float64 < complex128) is accepted in place, a higher rank promotes to exactly that rank's builder; "
                 "own-kind values are accepted; anything else -> union; endlist/endtuple/endrecord/field/index outside the matching open state throw; "
                 "UnknownBuilder starts the builder of the value's kind (wrapped in option iff nulls were seen)", floor=floor)
    by = {}
    for f in fb.lib_funcs():
        if f["cls"] in LEAVES + ["UnknownBuilder"] and f["name"] in ALPHA:
            by.setdefault((f["cls"], f["name"]), []).append(f)
    for cls in LEAVES + ["UnknownBuilder"]:
        for m in ALPHA:
            fs = by.get((cls, m))
            key = "%s::%s" % (cls, m)
            if not fs:
                r.fail(key, "src/libawkward/builder/%s.cpp" % cls, "%s does not define alphabet method %s" % (cls, m))
                continue
            for f in fs:
                x = _facts(f)
                where = "%s:%d" % (f["file"], f["line"])
                if m in CLOSERS:
                    r.check(x["throws"] and not x["returns"], key, where, "%s::%s must throw (no matching begin is open in a leaf builder) but %s" % (cls, m, "returns normally" if x["returns"] else "does not throw"),
                            detail="throws")
                    continue
                if cls == "UnknownBuilder":
                    if m == "null":
                        r.check(x["ret_this"] and not x["via"], key, where, "UnknownBuilder::null must only count the null and stay", detail="counts nulls")
                    elif m == "append":
                        r.check(any(v.endswith("::fromnulls") for v in x["via"]), key, where, "UnknownBuilder::append must start an indexed builder from the counted nulls")
                    else:
                        want = EMPTY_OF[m] + "::fromempty"
                        r.check(want in x["via"] and "OptionBuilder::fromnulls" in x["via"], key, where, "UnknownBuilder::%s must start %s (option-wrapped when nulls were counted); found %s" % (m, want, sorted(x["via"])),
                                detail="-> %s (+ OptionBuilder::fromnulls)" % want)
                    continue
                if m == "null":
                    r.check(x["via"] == {"OptionBuilder::fromvalids"}, key, where, "%s::null must wrap in OptionBuilder::fromvalids; found %s" % (cls, sorted(x["via"])), detail="-> OptionBuilder::fromvalids")
                    continue
                if cls in RANK and m in RANK_M:
                    if RANK_M[m] <= RANK[cls]:
                        r.check(x["append"] and x["ret_this"] and not x["via"], key, where, "%s::%s (rank %d <= %d) must be accepted in place; found via=%s append=%s" % (cls, m, RANK_M[m], RANK[cls], sorted(x["via"]), x["append"]),
                                detail="accepted in place")
                    else:
                        want = "%s::%s" % (BY_RANK[RANK_M[m]], FROM_SUFFIX[cls])
                        r.check(x["via"] == {want}, key, where, "%s::%s (rank %d > %d) must promote through %s; found %s" % (cls, m, RANK_M[m], RANK[cls], want, sorted(x["via"])),
                                detail="-> " + want)
                    continue
                if m in OWN.get(cls, []):
                    if cls == "BoolBuilder":
                        r.check(x["append"] and x["ret_this"] and not x["via"], key, where, "BoolBuilder::boolean must be accepted in place")
                    else:
                        r.check(x["ret_this"], key, where, "%s::%s must (conditionally) accept its own kind in place" % (cls, m), detail="own kind accepted (datetime: when the unit matches)")
                    continue
                r.check(x["via"] == {"UnionBuilder::fromsingle"} and not x["append"], key, where, "%s::%s must become a union (UnionBuilder::fromsingle); found via=%s append=%s" % (cls, m, sorted(x["via"]), x["append"]),
                        detail="-> UnionBuilder::fromsingle")
    return r.done()


def rule_arraybuilder_update(rep, fb, floor=20):
    r = rep.rule("BUILDER.maybeupdate", "every ArrayBuilder method that forwards an alphabet call to builder_ passes the returned BuilderPtr to maybeupdate (a promoted builder replaces the old one)", floor=floor)
    for f in fb.lib_funcs():
        if f["cls"] != "ArrayBuilder":
            continue
        calls = find_all(f["body"], lambda n: n[0] == "mcall" and n[1] in ALPHA and find_all((n[3],), lambda k: k == ("member", ("this",), "builder_")))
        for i, c in enumerate(calls):
            key = "ArrayBuilder::%s->%s#%d" % (f["name"], c[1], i)
            where = "%s:%d" % (f["file"], c[-1])
            direct = find_all(f["body"], lambda n: n[0] == "mcall" and n[1] == "maybeupdate" and n[4] and n[4][0] is c)
            ok = bool(direct)
            if not ok:
                # BuilderPtr tmp = builder_->m(...); ... maybeupdate(tmp);
                for d in find_all(f["body"], lambda n: n[0] in ("decl",) and len(n) == 5 and n[3] is c) + find_all(f["body"], lambda n: n[0] == "assign" and len(n) == 4 and n[2] is c and n[1][0] == "var"):
                    var = d[1] if d[0] == "decl" else d[1][1]
                    if find_all(f["body"], lambda n: n[0] == "mcall" and n[1] == "maybeupdate" and n[4] and n[4][0] == ("var", var)):
                        ok = True
            r.check(ok, key, where, "ArrayBuilder::%s discards the builder returned by builder_->%s(...) (a promotion would be lost)" % (f["name"], c[1]), detail="maybeupdate(builder_->%s(...))" % c[1])
    return r.done()


def rule_growable(rep, fb, floor=4):
    r = rep.rule("BUILDER.append-only", "GrowableBuffer stores through ptr_ only at index length_ (immediately followed by length_++, after the reserved_ growth check) and otherwise only replaces ptr_ by freshly "
                 "allocated storage: a snapshot, which shares the prefix [0, length), never changes", floor=floor)
    fs = [f for f in fb.lib_funcs() if f["cls"] == "GrowableBuffer"]
    if len(fs) < 8:
        raise AnalysisError("only %d GrowableBuffer methods found" % len(fs))
    for f in fs:
        where = "%s:%d" % (f["file"], f["line"])
        stores = find_all(f["body"], lambda n: n[0] == "assign" and len(n) == 4 and n[1][0] == "idx" and find_all((n[1][1],), lambda k: k == ("member", ("this",), "ptr_")))
        for s in stores:
            ok = f["name"] == "append" and s[1][2] == ("member", ("this",), "length_")
            if ok:
                body = f["body"]
                i = [j for j, st in enumerate(body) if st is s]
                ok = bool(i) and i[0] + 1 < len(body) and body[i[0] + 1][0] == "aug" and body[i[0] + 1][2] == ("member", ("this",), "length_") and body[i[0] + 1][1] == "+" \
                    and i[0] >= 1 and body[0][0] == "if" and "reserved_" in repr(body[0][1]) and bool(find_all(body[0][2], lambda n: n[0] == "mcall" and n[1] == "set_reserved"))
            r.check(ok, "GrowableBuffer::%s:store" % f["name"], "%s:%d" % (f["file"], s[-1]), "GrowableBuffer::%s writes through ptr_ other than `ptr_[length_] = datum; length_++` after the growth check" % f["name"],
                    detail="ptr_[length_] = datum; length_++")
        for a in find_all(f["body"], lambda n: n[0] == "assign" and len(n) == 4 and n[1] == ("member", ("this",), "ptr_")):
            rhs = a[2]
            fresh = bool(find_all((rhs,), lambda n: n[0] == "call" and n[1][0] == "fn" and n[1][1] == "kernel::malloc"))
            if not fresh and rhs[0] == "var":
                for d in find_all(f["body"], lambda n: n[0] == "decl" and len(n) == 5 and n[1] == rhs[1]):
                    if d[3] is not None and find_all((d[3],), lambda n: n[0] == "call" and n[1][0] == "fn" and n[1][1] == "kernel::malloc"):
                        fresh = True
            r.check(fresh, "GrowableBuffer::%s:ptr" % f["name"], "%s:%d" % (f["file"], a[-1]), "GrowableBuffer::%s points ptr_ at storage that is not freshly allocated" % f["name"], detail="ptr_ = kernel::malloc(...)")
        # length_ may only go down together with an unconditional replacement of ptr_ in the same block
        # (otherwise later appends overwrite elements that an earlier snapshot still shares)
        if f["kind"] != "CXXConstructorDecl":
            from .callsites import each_block
            def onblock(stmts, f=f):
                for s_ in stmts:
                    if s_[0] == "assign" and s_[1] == ("member", ("this",), "length_"):
                        repl = any(x[0] == "assign" and x[1] == ("member", ("this",), "ptr_") for x in stmts)
                        if not repl and f["name"] == "set_length":
                            # allowed when every caller applies it to a buffer it has just created (no snapshot can exist yet)
                            callers_ok, ncall = True, 0
                            for g in fb.lib_funcs():
                                for c in find_all(g["body"], lambda n: n[0] == "mcall" and n[1] == "set_length"):
                                    ncall += 1
                                    recv = c[3]
                                    fresh = False
                                    if recv[0] == "var":
                                        for d in find_all(g["body"], lambda n: n[0] == "decl" and len(n) == 5 and n[1] == recv[1]):
                                            if d[3] is not None and find_all((d[3],), lambda n: n[0] == "call" and n[1][0] == "fn" and isinstance(n[1][1], str) and n[1][1].split("::")[-1] in ("empty", "full", "arange")):
                                                fresh = True
                                    callers_ok = callers_ok and fresh
                            repl = callers_ok and ncall > 0
                        r.check(repl, "GrowableBuffer::%s:length-reset" % f["name"], "%s:%d" % (f["file"], s_[-1]),
                                "GrowableBuffer::%s resets length_ without unconditionally replacing ptr_: appends after it overwrite storage that earlier snapshots share" % f["name"],
                                detail="length_ reset together with ptr_ = fresh storage")
            each_block(f["body"], onblock)
        for c in find_all(f["body"], lambda n: n[0] == "call" and n[1][0] == "fn" and (n[1][1] or "").endswith("memcpy")):
            dst = c[2][0]
            tomember = bool(find_all((dst,), lambda n: n == ("member", ("this",), "ptr_")))
            r.check(not tomember, "GrowableBuffer::%s:memcpy" % f["name"], "%s:%d" % (f["file"], c[-1]), "GrowableBuffer::%s memcpy's into the shared ptr_ buffer" % f["name"], detail="memcpy into the new buffer only")
    return r.done()


def rule_builder_discipline(rep, fb, floor=10):
    """four small necessary conditions on the builder classes (src/libawkward/builder)"""
    from .lints import _norm_len, _noline
    r = rep.rule("BUILDER.discipline", "(a) a conversion that copies an old buffer item by item into a new one loops exactly to the length it then declares with set_length; (b) every parameter of a value-appending builder method is read "
                 "(an ignored `encoding` means byte strings are stored as strings); (c) clear() does not put length_ into the negative 'fields not known yet' state while keeping contents_; "
                 "(d) a node built around X->content() does not take X->content()'s own parameters (they belong to the inner node)", floor=floor)
    bfs = [f for f in fb.lib_funcs(inst=False) if "/builder/" in f["file"]]
    if len(bfs) < 150:
        raise AnalysisError("builder functions not found")
    n = [0, 0, 0, 0]
    for f in bfs:
        # (a)
        sl = find_all(f["body"], lambda k: k[0] == "mcall" and k[1] == "set_length" and k[4])
        loops = [lp for lp in find_all(f["body"], lambda k: k[0] == "for") if find_all(lp[2], lambda k: k[0] == "assign" and k[1][0] == "idx")]
        if sl and loops:
            want = repr(_norm_len(sl[0][4][0], {}))
            for lp in loops:
                c = lp[1]
                if c[0] == "bin" and c[1] == "<":
                    n[0] += 1
                    r.check(repr(_norm_len(c[3], {})) == want, "%s#copy-loop#%d" % (f["qual"], n[0]), "%s:%d" % (f["file"], lp[-1]),
                            "%s copies items up to %s but declares the new buffer's length as %s" % (f["qual"], str(_noline(c[3]))[:60], str(_noline(sl[0][4][0]))[:60]), detail="loop bound == set_length argument")
        # (b)
        if f["name"] in ("null", "boolean", "integer", "real", "complex", "datetime", "timedelta", "string", "bytestring", "append", "field", "index") and (f.get("cls") or "").endswith("Builder") \
                and (f.get("cls") or "") not in ("FormBuilder", "LayoutBuilder", "EmptyArrayBuilder") and "layoutbuilder" not in f["file"]:
            body = f["body"]
            trivial = len(body) <= 1 and body and body[0][0] in ("throw", "return")
            if not trivial and f["params"]:
                used = {v[1] for v in find_all(body, lambda k: k[0] == "var")}
                for pn, pt in f["params"]:
                    if not pn:
                        continue
                    n[1] += 1
                    r.check(pn in used, "%s#param:%s" % (f["qual"], pn), "%s:%d" % (f["file"], f["line"]), "%s never reads its parameter `%s`" % (f["qual"], pn), detail="parameter read")
        # (c)
        if f["name"] == "clear" and (f.get("cls") or "").endswith("Builder"):
            neg = find_all(f["body"], lambda k: k[0] == "assign" and k[1] == ("member", ("this",), "length_") and (k[2] == ("const", -1) or (k[2][0] == "un" and k[2][1] == "-")))
            guarded = [a for a in neg if any(find_all(iff[2], lambda k: k is a) for iff in find_all(f["body"], lambda k: k[0] == "if"))]
            emptied = bool(find_all(f["body"], lambda k: k[0] == "mcall" and k[1] == "clear" and k[3] == ("member", ("this",), "contents_")))
            has_contents = bool(find_all(f["body"], lambda k: k == ("member", ("this",), "contents_")))
            if has_contents or neg:
                n[2] += 1
                r.check(not [a for a in neg if a not in guarded] or emptied, "%s#sentinel" % f["qual"], "%s:%d" % (f["file"], f["line"]),
                        "%s sets length_ to the negative 'not begun' sentinel but keeps contents_: length() is then negative and keys/contents disagree" % f["qual"], detail="length_ stays >= 0 or contents_ emptied")
        # (d)
        for m in find_all(f["body"], lambda k: k[0] in ("make", "ctor") and len(k[2]) >= 3 and str(k[1]).split("<")[0].endswith(("Array64", "Array32", "ArrayU32", "Array", "Array8_64"))):
            a1 = m[2][1]
            if a1[0] == "mcall" and a1[1] == "parameters":
                owner = repr(_norm_len(a1[3], {}))
                others = [repr(_norm_len(x, {})) for x in m[2][2:]]
                n[3] += 1
                r.check(owner not in others, "%s#%s#params#%d" % (f["qual"], m[1], n[3]), "%s:%d" % (f["file"], m[-1] if isinstance(m[-1], int) else f["line"]),
                        "%s builds a %s around a node and also gives it that inner node's parameters" % (f["qual"], m[1]), detail="parameters of the replaced node, not of its content")
    return r.done()
