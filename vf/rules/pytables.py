"""Rule family J (TABLE), Python side: to_buffers (writer) vs _form_to_layout (reader)."""
import ast
import re
from .. import pyfront as pf
from ..core import AnalysisError
from .pyrules import _chains, _isinstance_classes


def _attr_keys(node):
    """all attribute="..." string constants of key_format(...) calls under node"""
    out = []
    for c in ast.walk(node):
        if isinstance(c, ast.Call) and isinstance(c.func, ast.Name) and c.func.id == "key_format":
            for k in c.keywords:
                if k.arg == "attribute" and isinstance(k.value, ast.Constant):
                    out.append((k.value.value, c))
    return out


def _branches(func, subj):
    """[(class names tested, body stmts)] of the top-level if/elif chain of func testing isinstance(subj, ...)"""
    out = []
    for first, tests, has_else, else_body in _chains(func):
        cur = first
        ok = False
        while True:
            ic = None
            for x in ast.walk(cur.test):
                ic = _isinstance_classes(x)
                if ic and ic[0] == subj:
                    break
                ic = None
            if ic:
                ok = True
                out.append((ic[1], cur.body, cur))
            if len(cur.orelse) == 1 and isinstance(cur.orelse[0], ast.If):
                cur = cur.orelse[0]
            else:
                break
        if ok and len(out) >= 8:
            return out
        out = []
    return out


def rule_buffers_tables(rep, floor=40):
    r = rep.rule("TABLE.buffers", "to_buffers.fill (writer) and _form_to_layout (reader) agree: per Form class the same buffer attribute names are written and read, each written "
                 "buffer is the layout attribute of that name, every node class written as Form F is constructible from F, index_form / _index_form_to_index / _index_form_to_dtype are mutually "
                 "consistent (signedness and bit width), and _form_to_layout_class maps (Form, width) to the node class of that width", floor=floor)
    m = pf.module("operations/convert.py")
    fill = m.func("to_buffers.fill")
    reader = m.func("_form_to_layout")
    wb = _branches(fill, "layout")
    rb = _branches(reader, "form")
    if len(wb) < 10 or len(rb) < 10:
        raise AnalysisError("could not find the writer/reader dispatch chains (writer %d, reader %d branches)" % (len(wb), len(rb)))
    written = {}   # Form -> {"attrs": set, "classes": set}
    for classes, body, node in wb:
        forms = set()
        for c in ast.walk(ast.Module(body=body, type_ignores=[])):
            if isinstance(c, ast.Call):
                d = pf.dotted(c.func) or ""
                if d.startswith("ak.forms.") and d.endswith("Form"):
                    forms.add(d.split(".")[-1])
        attrs = _attr_keys(ast.Module(body=body, type_ignores=[]))
        # each stored buffer is the attribute of that name
        stmts = body
        for i, s in enumerate(stmts):
            if isinstance(s, ast.Assign) and isinstance(s.targets[0], ast.Name) and s.targets[0].id == "key":
                ak_ = _attr_keys(s)
                if not ak_:
                    continue
                aname = ak_[0][0]
                nxt = stmts[i + 1] if i + 1 < len(stmts) else None
                if isinstance(nxt, ast.Assign) and isinstance(nxt.targets[0], ast.Subscript) and ast.unparse(nxt.targets[0]) == "container[key]":
                    val = ast.unparse(nxt.value)
                    if aname == "data":
                        ok = "layout" in val
                    else:
                        ok = ("layout.%s" % aname) in val
                    r.check(ok, "writer:%s:%s" % ("/".join(sorted(classes)), aname), m.where(nxt), "to_buffers stores %s under attribute '%s'" % (val[:60], aname), detail="attribute '%s' <- layout.%s" % (aname, aname))
        for f in forms:
            w = written.setdefault(f, {"attrs": set(), "classes": set(), "node": node})
            w["attrs"] |= {a for a, _ in attrs}
            w["classes"] |= set(classes)
    read = {}
    for forms, body, node in rb:
        mod = ast.Module(body=body, type_ignores=[])
        attrs = {a for a, _ in _attr_keys(mod)}
        classes = set()
        uses_table = False
        for c in ast.walk(mod):
            if isinstance(c, ast.Call):
                d = pf.dotted(c.func) or ""
                if d.startswith("ak.layout.") and not d.split(".")[-1].startswith("Index"):
                    classes.add(d.split(".")[-1])
            if isinstance(c, ast.Subscript) and pf.dotted(c.value) == "_form_to_layout_class":
                uses_table = True
        for f in forms:
            rd = read.setdefault(f, {"attrs": set(), "classes": set(), "table": False, "node": node})
            rd["attrs"] |= attrs
            rd["classes"] |= classes
            rd["table"] = rd["table"] or uses_table
    # the three tables
    tabs = {}
    for n in ast.walk(reader):
        if isinstance(n, ast.Assign) and isinstance(n.targets[0], ast.Name) and isinstance(n.value, ast.Dict):
            tabs[n.targets[0].id] = n.value
    for t in ("_index_form_to_dtype", "_index_form_to_index", "_form_to_layout_class"):
        if t not in tabs:
            raise AnalysisError("table %s not found in _form_to_layout" % t)
    cls_table = {}
    for k, v in zip(tabs["_form_to_layout_class"].keys, tabs["_form_to_layout_class"].values):
        if isinstance(k, ast.Tuple) and len(k.elts) == 2 and isinstance(k.elts[1], ast.Constant):
            F = (pf.dotted(k.elts[0]) or "").split(".")[-1]
            w = k.elts[1].value
            C = (pf.dotted(v) or "").split(".")[-1]
            cls_table.setdefault(F, {})[w] = C
            want = {"i32": r"(?<!U)32$", "u32": r"U32$", "i64": r"64$"}.get(w)
            r.check(bool(want) and re.search(want, C) is not None, "class-table:%s:%s" % (F, w), m.where(k), "_form_to_layout_class maps (%s, %r) to %s (width mismatch)" % (F, w, C), detail="(%s,%s)->%s" % (F, w, C))
    where = m.where(reader)
    for F, w in sorted(written.items()):
        rd = read.get(F)
        if not r.check(rd is not None, "reader-branch:" + F, where, "to_buffers writes %s but _form_to_layout has no branch for it" % F):
            continue
        if F == "VirtualForm":
            continue  # read lazily from a 'virtual' pseudo-buffer; to_buffers materialises virtual arrays instead of writing this Form
        r.check(rd["attrs"] <= w["attrs"], "attrs:" + F, m.where(rd["node"]), "%s: _form_to_layout reads buffers %s but to_buffers writes only %s" % (F, sorted(rd["attrs"]), sorted(w["attrs"])),
                detail="reads %s of written %s" % (sorted(rd["attrs"]), sorted(w["attrs"])))
        constructible = set(rd["classes"]) | (set(cls_table.get(F, {}).values()) if rd["table"] else set())
        miss = sorted(c for c in w["classes"] if c not in constructible and not c.endswith("types"))
        r.check(not miss, "classes:" + F, m.where(rd["node"]), "%s: node classes %s are written but cannot be rebuilt by _form_to_layout (it builds %s)" % (F, miss, sorted(constructible)),
                detail="rebuilds %s" % sorted(w["classes"]))
    for F in sorted(read):
        if F not in written and F not in ("VirtualForm",):
            r.fail("writer-branch:" + F, where, "_form_to_layout reads %s which to_buffers never writes" % F)
    # index form tables
    dt = {k.value: ast.unparse(v) for k, v in zip(tabs["_index_form_to_dtype"].keys, tabs["_index_form_to_dtype"].values)}
    ix = {k.value: (pf.dotted(v) or "").split(".")[-1] for k, v in zip(tabs["_index_form_to_index"].keys, tabs["_index_form_to_index"].values)}
    idxf = m.func("to_buffers.index_form")
    wmap = {}
    cur = [s for s in idxf.body if isinstance(s, ast.If)]
    node = cur[0] if cur else None
    while node is not None:
        ic = None
        for x in ast.walk(node.test):
            ic = _isinstance_classes(x) or ic
        ret = [s for s in node.body if isinstance(s, ast.Return) and isinstance(s.value, ast.Constant)]
        if ic and ret:
            for c in ic[1]:
                wmap[c] = ret[0].value.value
        node = node.orelse[0] if len(node.orelse) == 1 and isinstance(node.orelse[0], ast.If) else None
    for code in sorted(set(dt) | set(ix) | set(wmap.values())):
        mm = re.match(r"^([iu])(8|32|64)$", code)
        key = "index-form:" + code
        if not r.check(bool(mm) and code in dt and code in ix, key, where, "index form %r is not present in both _index_form_to_dtype and _index_form_to_index" % code):
            continue
        sign, bits = mm.group(1), int(mm.group(2))
        d = re.search(r"['\"]([<>=|]?)([iu])(\d)['\"]", dt[code])
        okd = bool(d) and d.group(2) == sign and int(d.group(3)) * 8 == bits and d.group(1) in ("<", "")
        oki = ix[code] == "Index%s%d" % ("U" if sign == "u" else "", bits)
        okw = wmap.get(ix[code]) == code
        r.check(okd and oki and okw, key, where, "index form %r: dtype %s, Index class %s, writer index_form(%s) = %r are inconsistent" % (code, dt[code], ix[code], ix[code], wmap.get(ix[code])),
                detail="%s <-> %s <-> %s" % (code, dt[code], ix[code]))
    return r.done()


def rule_pickle_roundtrip(rep):
    r = rep.rule("FORWARD.pickle", "Array/Record __getstate__ serialise through to_buffers and __setstate__ rebuilds through from_buffers with the same key_format and the stored form/length/container", floor=4)
    m = pf.module("highlevel.py")
    for cls in ("Array", "Record"):
        gs = m.func(cls + ".__getstate__")
        ss = m.func(cls + ".__setstate__")
        tb = [c for c in ast.walk(gs) if isinstance(c, ast.Call) and (pf.dotted(c.func) or "").endswith("to_buffers")]
        fb = [c for c in ast.walk(ss) if isinstance(c, ast.Call) and (pf.dotted(c.func) or "").endswith("from_buffers")]
        r.check(len(tb) == 1, cls + ":getstate", m.where(gs), "%s.__getstate__ does not call to_buffers exactly once" % cls, detail="to_buffers")
        r.check(len(fb) == 1, cls + ":setstate", m.where(ss), "%s.__setstate__ does not call from_buffers exactly once" % cls, detail="from_buffers")
        if tb and fb:
            kw_w = {k.arg: ast.unparse(k.value) for k in tb[0].keywords}
            kw_r = {k.arg: ast.unparse(k.value) for k in fb[0].keywords}
            cv = pf.module("operations/convert.py")

            def default_of(fn, name):
                f = cv.func(fn)
                a = f.args
                names = [x.arg for x in a.args]
                if name in names:
                    i = names.index(name) - (len(names) - len(a.defaults))
                    if i >= 0:
                        return ast.unparse(a.defaults[i])
                return None
            kfw = kw_w.get("key_format") or default_of("to_buffers", "key_format")
            kfr = kw_r.get("key_format") or default_of("from_buffers", "key_format")
            r.check(kfw is not None and kfw == kfr, cls + ":key_format", m.where(fb[0]), "%s pickles with key_format=%s but unpickles with key_format=%s" % (cls, kfw, kfr), detail="key_format %s" % kfw)
    return r.done()
