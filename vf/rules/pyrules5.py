"""Python-side rules, fourth set (2026-10-05): results of loops that may not run."""
import ast
import re
from .. import pyfront as pf
from ..core import AnalysisError, load_table
from .pyrules3 import _mods, _owner_func, _funcs


def _blocks(stmts):
    yield stmts
    for t in stmts:
        for fld in ("body", "orelse", "finalbody"):
            b = getattr(t, fld, None)
            if isinstance(b, list) and b and isinstance(b[0], ast.stmt) and not isinstance(t, (ast.FunctionDef, ast.AsyncFunctionDef, ast.ClassDef)):
                for x in _blocks(b):
                    yield x
        if isinstance(t, ast.Try):
            for h in t.handlers:
                for x in _blocks(h.body):
                    yield x


def rule_py_none_after_loop(rep, floor=10):
    r = rep.rule("NONE.py-loop-result", "a name set to None before a `for` loop and assigned only inside it is, after the loop, either tested against None (or asserted) or used only where None is acceptable; "
                 "where it is handed on as a number or a sequence (`range(v)`, `x.extend(v)`, arithmetic, subscripting, iteration) the loop must be known to run - otherwise an empty collection "
                 "(a record array without fields, a union without contents) turns into a TypeError about NoneType. Sites in tables/py_none_after_loop_exceptions.json are accepted with a reason", floor=floor)
    table = load_table("py_none_after_loop_exceptions.json")
    for rel in _mods():
        m = pf.module(rel)
        for fn in _funcs(m.tree):
            occurrence = {}
            for blk in _blocks(fn.body):
                for i, s in enumerate(blk):
                    if not (isinstance(s, ast.Assign) and len(s.targets) == 1 and isinstance(s.targets[0], ast.Name) and isinstance(s.value, ast.Constant) and s.value.value is None):
                        continue
                    v = s.targets[0].id
                    # the next statements up to a for loop that assigns v
                    loop = None
                    for j in range(i + 1, len(blk)):
                        t = blk[j]
                        if isinstance(t, ast.For) and any(isinstance(a, ast.Assign) and any(isinstance(x, ast.Name) and x.id == v for tt in a.targets for x in ast.walk(tt)) for a in ast.walk(t)):
                            loop = j
                            break
                        if any(isinstance(x, ast.Name) and x.id == v for x in ast.walk(t)):
                            break
                    if loop is None:
                        continue
                    # inside the loop v must be assigned only (besides None tests)
                    after = blk[loop + 1:]
                    occurrence[v] = occurrence.get(v, 0) + 1
                    key = "%s:%s#%s%s" % (rel, fn.name, v, "" if occurrence[v] == 1 else "@%d" % occurrence[v])
                    guarded = False
                    risky = None
                    for t in after:
                        # a guard: `if v is None` / `if v is not None` / assert ... v ... / `v = ...`
                        if isinstance(t, (ast.If, ast.Assert)):
                            test = t.test
                            if any(isinstance(c, ast.Compare) and isinstance(c.left, ast.Name) and c.left.id == v and any(isinstance(o, (ast.Is, ast.IsNot)) for o in c.ops) for c in ast.walk(test)):
                                guarded = True
                                break
                        if isinstance(t, ast.Assign) and any(isinstance(x, ast.Name) and x.id == v for tt in t.targets for x in ast.walk(tt)):
                            guarded = True
                            break
                        for n in ast.walk(t):
                            if isinstance(n, ast.Call):
                                fnname = pf.dotted(n.func) or ""
                                if fnname.split(".")[-1] in ("range", "extend", "len", "enumerate", "zip", "list", "tuple", "sum", "max", "min") and any(isinstance(a, ast.Name) and a.id == v for a in n.args):
                                    risky = n
                            elif isinstance(n, ast.BinOp) and any(isinstance(a, ast.Name) and a.id == v for a in (n.left, n.right)):
                                risky = n
                            elif isinstance(n, ast.Subscript) and isinstance(n.value, ast.Name) and n.value.id == v and isinstance(n.ctx, ast.Load):
                                risky = n
                            elif isinstance(n, (ast.For, ast.comprehension)) and isinstance(n.iter, ast.Name) and n.iter.id == v:
                                risky = n.iter
                            if risky is not None:
                                break
                        if risky is not None:
                            break
                    if risky is None and not guarded:
                        continue
                    if guarded:
                        r.ok(key, "tested against None after the loop")
                        continue
                    if key in table:
                        r.excepted(key, table[key])
                        continue
                    r.fail(key, m.where(risky), "%s: %s uses `%s` as `%s` after a loop that may not have run (it is None then)" % (rel, fn.name, v, ast.unparse(risky)[:50]))
    return r.done()
