"""Python-side rules, fourth set (2026-10-05): results of loops that may not run."""
import ast
import re
from .. import pyfront as pf
from ..core import AnalysisError, load_table
from .pyrules3 import _mods, _owner_func, _funcs


def _blocks(stmts):
    yield stmts
    for t in stmts:
        for fld in ("body", "orelse", "finalbody"):
            b = getattr(t, fld, None)
            if isinstance(b, list) and b and isinstance(b[0], ast.stmt) and not isinstance(t, (ast.FunctionDef, ast.AsyncFunctionDef, ast.ClassDef)):
                for x in _blocks(b):
                    yield x
        if isinstance(t, ast.Try):
            for h in t.handlers:
                for x in _blocks(h.body):
                    yield x


def rule_py_none_after_loop(rep, floor=10):
    r = rep.rule("NONE.py-loop-result", "a name set to None before a `for` loop and assigned only inside it is, after the loop, either tested against None (or asserted) or used only where None is acceptable; "
                 "where it is handed on as a number or a sequence (`range(v)`, `x.extend(v)`, arithmetic, subscripting, iteration) the loop must be known to run - otherwise an empty collection "
                 "(a record array without fields, a union without contents) turns into a TypeError about NoneType. Sites in tables/py_none_after_loop_exceptions.json are accepted with a reason", floor=floor)
    table = load_table("py_none_after_loop_exceptions.json")
    for rel in _mods():
        m = pf.module(rel)
        for fn in _funcs(m.tree):
            occurrence = {}
            for blk in _blocks(fn.body):
                for i, s in enumerate(blk):
                    if not (isinstance(s, ast.Assign) and len(s.targets) == 1 and isinstance(s.targets[0], ast.Name) and isinstance(s.value, ast.Constant) and s.value.value is None):
                        continue
                    v = s.targets[0].id
                    # the next statements up to a for loop that assigns v
                    loop = None
                    for j in range(i + 1, len(blk)):
                        t = blk[j]
                        if isinstance(t, ast.For) and any(isinstance(a, ast.Assign) and any(isinstance(x, ast.Name) and x.id == v for tt in a.targets for x in ast.walk(tt)) for a in ast.walk(t)):
                            loop = j
                            break
                        if any(isinstance(x, ast.Name) and x.id == v for x in ast.walk(t)):
                            break
                    if loop is None:
                        continue
                    # inside the loop v must be assigned only (besides None tests)
                    after = blk[loop + 1:]
                    occurrence[v] = occurrence.get(v, 0) + 1
                    key = "%s:%s#%s%s" % (rel, fn.name, v, "" if occurrence[v] == 1 else "@%d" % occurrence[v])
                    guarded = False
                    risky = None
                    for t in after:
                        # a guard: `if v is None` / `if v is not None` / assert ... v ... / `v = ...`
                        if isinstance(t, (ast.If, ast.Assert)):
                            test = t.test
                            if any(isinstance(c, ast.Compare) and isinstance(c.left, ast.Name) and c.left.id == v and any(isinstance(o, (ast.Is, ast.IsNot)) for o in c.ops) for c in ast.walk(test)):
                                guarded = True
                                break
                        if isinstance(t, ast.Assign) and any(isinstance(x, ast.Name) and x.id == v for tt in t.targets for x in ast.walk(tt)):
                            guarded = True
                            break
                        for n in ast.walk(t):
                            if isinstance(n, ast.Call):
                                fnname = pf.dotted(n.func) or ""
                                if fnname.split(".")[-1] in ("range", "extend", "len", "enumerate", "zip", "list", "tuple", "sum", "max", "min") and any(isinstance(a, ast.Name) and a.id == v for a in n.args):
                                    risky = n
                            elif isinstance(n, ast.BinOp) and any(isinstance(a, ast.Name) and a.id == v for a in (n.left, n.right)):
                                risky = n
                            elif isinstance(n, ast.Subscript) and isinstance(n.value, ast.Name) and n.value.id == v and isinstance(n.ctx, ast.Load):
                                risky = n
                            elif isinstance(n, (ast.For, ast.comprehension)) and isinstance(n.iter, ast.Name) and n.iter.id == v:
                                risky = n.iter
                            if risky is not None:
                                break
                        if risky is not None:
                            break
                    if risky is None and not guarded:
                        continue
                    if guarded:
                        r.ok(key, "tested against None after the loop")
                        continue
                    if key in table:
                        r.excepted(key, table[key])
                        continue
                    r.fail(key, m.where(risky), "%s: %s uses `%s` as `%s` after a loop that may not have run (it is None then)" % (rel, fn.name, v, ast.unparse(risky)[:50]))
    return r.done()


def rule_py_filtered_ordinal(rep, floor=1):
    r = rep.rule("INDEX.py-filtered-ordinal", "where a function collects per-input data only for the inputs of some class (`for x in xs: if isinstance(x, T): L.append(..)`) and later walks the same inputs again to look that "
                 "data up by ordinal, the ordinal counts the inputs of that class only (a manual counter advanced under the same isinstance test), not all inputs (`for i, x in enumerate(xs)`): "
                 "with a non-T input in front, position and ordinal differ (`10 + union_array` looked up combo[\"1\"])", floor=floor)
    n = 0
    for rel in _mods():
        m = pf.module(rel)
        for fn in _funcs(m.tree):
            # filtered builds: for x in XS: if isinstance(x, T): L.append(...)
            builds = []
            for lp in ast.walk(fn):
                if not (isinstance(lp, ast.For) and isinstance(lp.iter, ast.Name) and isinstance(lp.target, ast.Name)):
                    continue
                for t in lp.body:
                    if isinstance(t, ast.If) and isinstance(t.test, ast.Call) and isinstance(t.test.func, ast.Name) and t.test.func.id == "isinstance" and len(t.test.args) == 2 \
                            and isinstance(t.test.args[0], ast.Name) and t.test.args[0].id == lp.target.id and any(isinstance(c, ast.Call) and isinstance(c.func, ast.Attribute) and c.func.attr == "append" for s in t.body for c in ast.walk(s)):
                        builds.append((lp.iter.id, ast.dump(t.test.args[1])))
            if not builds:
                continue
            # later walks of the same inputs under the same test that subscript by a counter
            for lp in ast.walk(fn):
                if not isinstance(lp, ast.For):
                    continue
                enum = isinstance(lp.iter, ast.Call) and isinstance(lp.iter.func, ast.Name) and lp.iter.func.id == "enumerate" and lp.iter.args and isinstance(lp.iter.args[0], ast.Name) \
                    and isinstance(lp.target, ast.Tuple) and len(lp.target.elts) == 2 and all(isinstance(e, ast.Name) for e in lp.target.elts)
                plain = isinstance(lp.iter, ast.Name) and isinstance(lp.target, ast.Name)
                if not (enum or plain):
                    continue
                xs = lp.iter.args[0].id if enum else lp.iter.id
                xv = lp.target.elts[1].id if enum else lp.target.id
                for t in lp.body:
                    if not (isinstance(t, ast.If) and isinstance(t.test, ast.Call) and isinstance(t.test.func, ast.Name) and t.test.func.id == "isinstance" and len(t.test.args) == 2
                            and isinstance(t.test.args[0], ast.Name) and t.test.args[0].id == xv and (xs, ast.dump(t.test.args[1])) in builds):
                        continue
                    # ordinal-like subscripts in the guarded body: Y[i] / Y[str(i)] with i a bare name
                    for sub in [s for b in t.body for s in ast.walk(b) if isinstance(s, ast.Subscript)]:
                        ix = sub.slice
                        if isinstance(ix, ast.Call) and isinstance(ix.func, ast.Name) and ix.func.id == "str" and ix.args:
                            ix = ix.args[0]
                        if not isinstance(ix, ast.Name):
                            continue
                        n += 1
                        isenum = enum and ix.id == lp.target.elts[0].id
                        r.check(not isenum, "%s:%s#%s[%s]" % (rel, fn.name, ast.unparse(sub.value)[:20], ix.id), m.where(sub),
                                "%s: %s looks `%s` up by the position of the input among ALL inputs (enumerate) although the data were collected for inputs of that class only" % (rel, fn.name, ast.unparse(sub)[:40]),
                                detail="ordinal among the filtered inputs")
    if n < 1:
        raise AnalysisError("no ordinal look-up of filtered per-input data found (the union arm of broadcast_and_apply has one)")
    return r.done()


def rule_py_slice_consumed(rep, floor=1):
    r = rep.rule("ITEM.py-range-consumed", "where a first-dimension slice has been applied through `X.getitem_range(head.start, head.stop, head.step)`, the pieces it returns are indexed further with `slice(None)` in its "
                 "place: using `head` itself again in the same arm applies the range twice (pa[1:, 0] dropped a row of every partition)", floor=floor)
    n = 0
    for rel in _mods():
        m = pf.module(rel)
        for fn in _funcs(m.tree):
            for arm in [a for a in ast.walk(fn) if isinstance(a, ast.If)]:
                for body in (arm.body,):
                    calls = [c for s in body for c in ast.walk(s) if isinstance(c, ast.Call) and isinstance(c.func, ast.Attribute) and c.func.attr == "getitem_range" and len(c.args) >= 2
                             and all(isinstance(a, ast.Attribute) and isinstance(a.value, ast.Name) for a in c.args[:2]) and len({a.value.id for a in c.args if isinstance(a, ast.Attribute)}) == 1
                             and [a.attr for a in c.args[:2]] == ["start", "stop"]]
                    if not calls:
                        continue
                    h = calls[0].args[0].value.id
                    n += 1
                    again = [x for s in body for x in ast.walk(s) if isinstance(x, ast.Name) and x.id == h and isinstance(x.ctx, ast.Load)
                             and not (isinstance(getattr(x, "_parent", None), ast.Attribute) and x._parent.attr in ("start", "stop", "step"))]
                    r.check(not again, "%s:%s#%s" % (rel, fn.name, h), m.where(again[0]) if again else m.where(calls[0]),
                            "%s: %s applies the range `%s` through getitem_range and then uses `%s` again in the same arm" % (rel, fn.name, h, h), detail="range applied once")
    if n < 1:
        raise AnalysisError("no getitem_range(head.start, head.stop, ...) arm found")
    return r.done()


def rule_py_last_wins(rep, floor=5):
    r = rep.rule("LOOP.py-last-wins", "a name assigned on every iteration of a `for` loop from an expression over the loop variable and read after the loop carries a result for the whole collection only if the loop "
                 "combines it with its previous value, hands each value on (append, yield, call argument, subscript store), or leaves (`break`/`return`) once it is decisive; a loop that merely tests it "
                 "(`if out is not None and exception: raise`) and goes on returns the verdict of the last element alone (validity_error over partitions reported the last partition)", floor=floor)
    n = 0
    for rel in _mods():
        m = pf.module(rel)
        occ = {}
        for fn in _funcs(m.tree):
            for blk in _blocks(fn.body):
                for i, lp in enumerate(blk):
                    if not isinstance(lp, ast.For):
                        continue
                    tnames = {x.id for x in ast.walk(lp.target) if isinstance(x, ast.Name)}
                    for s in lp.body:
                        if not (isinstance(s, ast.Assign) and len(s.targets) == 1 and isinstance(s.targets[0], ast.Name) and isinstance(s.value, ast.Call)):
                            continue
                        v = s.targets[0].id
                        if v in tnames or not any(isinstance(x, ast.Name) and x.id in tnames for x in ast.walk(s.value)):
                            continue
                        # read after the loop before being reassigned?
                        read_after = False
                        for t in blk[i + 1:]:
                            if isinstance(t, ast.Assign) and any(isinstance(x, ast.Name) and x.id == v for tt in t.targets for x in ast.walk(tt)) and not any(isinstance(x, ast.Name) and x.id == v for x in ast.walk(t.value)):
                                break
                            if any(isinstance(x, ast.Name) and x.id == v and isinstance(x.ctx, ast.Load) for x in ast.walk(t)):
                                read_after = True
                                break
                        if not read_after:
                            continue
                        n += 1
                        occ[(fn.name, v)] = occ.get((fn.name, v), 0) + 1
                        key = "%s:%s#%s%s" % (rel, fn.name, v, "" if occ[(fn.name, v)] == 1 else "@%d" % occ[(fn.name, v)])
                        body_nodes = [x for st in lp.body for x in ast.walk(st)]
                        leaves = any(isinstance(x, (ast.Break, ast.Return)) for x in body_nodes)
                        combines = any(isinstance(x, ast.Assign) and any(isinstance(y, ast.Name) and y.id == v for tt in x.targets for y in ast.walk(tt)) and any(isinstance(y, ast.Name) and y.id == v for y in ast.walk(x.value)) for x in body_nodes) \
                            or any(isinstance(x, ast.AugAssign) and isinstance(x.target, ast.Name) and x.target.id == v for x in body_nodes)
                        # handed on: v appears outside the tests of if/assert/while statements and outside its own assignment
                        test_ids = set()
                        for x in body_nodes:
                            if isinstance(x, (ast.If, ast.While, ast.Assert, ast.IfExp)):
                                test_ids |= {id(y) for y in ast.walk(x.test)}
                        for x in body_nodes:
                            if isinstance(x, ast.Raise):          # an error message is not a result
                                test_ids |= {id(y) for y in ast.walk(x)}
                        handed = any(isinstance(x, ast.Name) and x.id == v and isinstance(x.ctx, ast.Load) and id(x) not in test_ids for x in body_nodes)
                        # also assigned before the loop to something other than None (a default the loop refines) is no excuse: still last-wins
                        r.check(leaves or combines or handed, key, m.where(s), "%s: %s keeps only the last iteration's `%s` (tested inside the loop, read after it, never combined, handed on or decisive)" % (rel, fn.name, v),
                                detail="leaves" if leaves else "combines" if combines else "handed on")
    if n < 5:
        raise AnalysisError("only %d per-iteration results read after their loop found" % n)
    return r.done()


def rule_py_sibling_arm_args(rep, floor=2):
    r = rep.rule("SIBLING.py-arm-arguments", "in a loop over the inputs whose `if isinstance(x, ..) / elif ..` arms each append the converted input to the same list, a method that two arms call on their way "
                 "(`.project(nextmask)`, `.getitem_range_nowrap(a, b)`, `.carry(idx, False)`) is called with the same arguments in both: the arms produce pieces that are zipped together afterwards, so one arm "
                 "projecting with the common mask and the other with its own (`x.project()`) misaligns them", floor=floor)
    n = 0
    for rel in _mods():
        m = pf.module(rel)
        occ = {}
        for fn in _funcs(m.tree):
            for lp in [x for x in ast.walk(fn) if isinstance(x, ast.For) and _owner_func(x) is fn]:
                for st in lp.body:
                    if not isinstance(st, ast.If):
                        continue
                    # the arms of the chain
                    arms, cur = [], st
                    while True:
                        arms.append(cur.body)
                        if len(cur.orelse) == 1 and isinstance(cur.orelse[0], ast.If):
                            cur = cur.orelse[0]
                        else:
                            if cur.orelse:
                                arms.append(cur.orelse)
                            break
                    if len(arms) < 2:
                        continue
                    per_arm = []
                    target = None
                    for body in arms:
                        calls = {}
                        for s2 in body:
                            if isinstance(s2, ast.Expr) and isinstance(s2.value, ast.Call) and isinstance(s2.value.func, ast.Attribute) and s2.value.func.attr == "append" and isinstance(s2.value.func.value, ast.Name) and len(s2.value.args) == 1:
                                lst = s2.value.func.value.id
                                if target is None:
                                    target = lst
                                if lst != target:
                                    continue
                                for c in ast.walk(s2.value.args[0]):
                                    if isinstance(c, ast.Call) and isinstance(c.func, ast.Attribute) and c.func.attr[:1].islower():     # methods, not constructors
                                        calls.setdefault(c.func.attr, []).append(c)
                        per_arm.append(calls)
                    names = {k for a in per_arm for k in a}
                    for nm in sorted(names):
                        have = [a[nm] for a in per_arm if nm in a]
                        if len(have) < 2:
                            continue
                        n += 1
                        occ[(fn.name, nm)] = occ.get((fn.name, nm), 0) + 1
                        sigs = {(tuple(ast.unparse(x) for x in c.args), tuple((k.arg, ast.unparse(k.value)) for k in c.keywords)) for cs_ in have for c in cs_}
                        first = have[0][0]
                        r.check(len(sigs) == 1, "%s:%s#%s%s" % (rel, fn.name, nm, "" if occ[(fn.name, nm)] == 1 else "@%d" % occ[(fn.name, nm)]), m.where(first),
                                "%s: %s calls .%s with different arguments in sibling arms that append to `%s`: %s" % (rel, fn.name, nm, target, sorted(s_[0] for s_ in sigs)), detail="same arguments in %d arms" % len(have))
    if n < 2:
        raise AnalysisError("only %d methods shared by sibling appending arms found" % n)
    return r.done()


def rule_py_offsets_of_pieces(rep, floor=2):
    r = rep.rule("PAIR.py-offsets-of-pieces", "a loop that collects pieces into one list (`outparts.append(piece)`) and running offsets into another (`outoffsets.append(outoffsets[-1] + len(X))`) measures the piece "
                 "it has just collected: X is that piece (`outparts[-1]`, or the name that was appended) - the length of the slicer or of the input piece is a different number whenever the operation "
                 "filters (a boolean mask keeps fewer items than it has entries)", floor=floor)
    n = 0
    for rel in _mods():
        m = pf.module(rel)
        occ = {}
        for fn in _funcs(m.tree):
            for lp in [x for x in ast.walk(fn) if isinstance(x, (ast.For, ast.While)) and _owner_func(x) is fn]:
                appends = [s.value for s in lp.body if isinstance(s, ast.Expr) and isinstance(s.value, ast.Call) and isinstance(s.value.func, ast.Attribute) and s.value.func.attr == "append"
                           and isinstance(s.value.func.value, ast.Name) and len(s.value.args) == 1]
                for a in appends:
                    O = a.func.value.id
                    v = a.args[0]
                    # O.append(O[-1] + len(X))
                    if not (isinstance(v, ast.BinOp) and isinstance(v.op, ast.Add)):
                        continue
                    sides = [v.left, v.right]
                    prev = [x for x in sides if ast.unparse(x) == "%s[-1]" % O]
                    lens = [x for x in sides if isinstance(x, ast.Call) and isinstance(x.func, ast.Name) and x.func.id == "len" and len(x.args) == 1]
                    if len(prev) != 1 or len(lens) != 1:
                        continue
                    others = [b for b in appends if b is not a and b.func.value.id != O]
                    if not others:
                        continue
                    X = ast.unparse(lens[0].args[0])
                    good = set()
                    for b in others:
                        good.add("%s[-1]" % b.func.value.id)
                        good.add(ast.unparse(b.args[0]))
                    n += 1
                    occ[fn.name] = occ.get(fn.name, 0) + 1
                    r.check(X in good, "%s:%s#%s%s" % (rel, fn.name, O, "" if occ[fn.name] == 1 else "@%d" % occ[fn.name]), m.where(a),
                            "%s: %s advances `%s` by len(%s), which is not the piece collected in the same iteration (%s)" % (rel, fn.name, O, X, sorted(good)[:2]), detail="measures the collected piece")
    if n < 1:
        raise AnalysisError("only %d loops collecting pieces and their running offsets found" % n)
    return r.done()


def rule_py_default_none_identity(rep, floor=100):
    r = rep.rule("NONE.py-default-by-identity", "a parameter whose default is None is told apart from a given value with `is None` / `is not None`, not by truthiness (`if not at:`): 0, an empty string and an empty array are "
                 "values a caller may pass, and truthiness sends them down the no-argument arm (ArrayBuilder.append(array, 0) appended the whole array) - "
                 "(function, parameter) pairs in tables/py_truthy_default_exceptions.json are accepted with a reason", floor=floor)
    table = load_table("py_truthy_default_exceptions.json")
    n = 0
    for rel in _mods():
        m = pf.module(rel)
        for fn in _funcs(m.tree):
            a = fn.args
            names = [x.arg for x in a.posonlyargs + a.args]
            dflt = dict(zip(names[len(names) - len(a.defaults):], a.defaults))
            for x, d in zip(a.kwonlyargs, a.kw_defaults):
                if d is not None:
                    dflt[x.arg] = d
            none = {k for k, d in dflt.items() if isinstance(d, ast.Constant) and d.value is None}
            if not none:
                continue
            # a parameter re-bound in the body is no longer "the default or the caller's value"
            rebound = {x.id for s in ast.walk(fn) if isinstance(s, (ast.Assign, ast.AugAssign, ast.For)) for t in (s.targets if isinstance(s, ast.Assign) else [s.target]) for x in ast.walk(t) if isinstance(x, ast.Name)}
            k = 0
            for t in ast.walk(fn):
                if _owner_func(t) is not fn:
                    continue
                if isinstance(t, ast.Compare) and isinstance(t.left, ast.Name) and t.left.id in none and any(isinstance(o, (ast.Is, ast.IsNot)) for o in t.ops):
                    n += 1
                    k += 1
                    r.ok("%s:%s(%s)#is%d" % (rel, fn.name, t.left.id, k), "identity test")
                    continue
                tests = []
                if isinstance(t, (ast.If, ast.While, ast.IfExp, ast.Assert)):
                    tests = [t.test]
                elif isinstance(t, ast.BoolOp):
                    tests = list(t.values)
                for e in tests:
                    if isinstance(e, ast.UnaryOp) and isinstance(e.op, ast.Not):
                        e = e.operand
                    if not (isinstance(e, ast.Name) and e.id in none and e.id not in rebound):
                        continue
                    n += 1
                    key = "%s:%s(%s)" % (rel, fn.name, e.id)
                    if key in table:
                        r.excepted(key, table[key])
                        continue
                    r.fail(key, m.where(e), "%s: %s tests its None-defaulted parameter `%s` by truthiness: a caller's 0 / empty value takes the no-argument arm" % (rel, fn.name, e.id))
    if n < 50:
        raise AnalysisError("only %d tests of None-defaulted parameters found" % n)
    return r.done()


def rule_py_path_tail(rep, floor=2):
    r = rep.rule("REC.py-path-tail", "a function that consumes a path-like parameter from the front (it reads `P[0]`) and calls a function of its own name with an expression over P passes the head `P[0]` (the one-step case), "
                 "the rest `P[1:]`, or P unchanged: any other piece (`P[-1]`, `P[:-1]`, `P[2:]`) skips or repeats path elements - with_field(base, what, (\"a\", \"b\", \"c\")) attached the value one level too high", floor=floor)
    n = 0
    for rel in _mods():
        m = pf.module(rel)
        for fn in _funcs(m.tree):
            full = [x.arg for x in fn.args.posonlyargs + fn.args.args]
            for P in full:
                if P in ("self", "cls"):
                    continue
                heads = [s for s in ast.walk(fn) if isinstance(s, ast.Subscript) and isinstance(s.value, ast.Name) and s.value.id == P and isinstance(s.slice, ast.Constant) and s.slice.value == 0]
                if not heads:
                    continue
                k = 0
                for c in ast.walk(fn):
                    if not (isinstance(c, ast.Call) and ((isinstance(c.func, ast.Name) and c.func.id == fn.name) or (isinstance(c.func, ast.Attribute) and c.func.attr == fn.name))):
                        continue
                    arg = next((kw.value for kw in c.keywords if kw.arg == P), None)
                    pi = full.index(P) - (1 if isinstance(c.func, ast.Attribute) and full and full[0] in ("self", "cls") else 0)
                    if arg is None and 0 <= pi < len(c.args):
                        arg = c.args[pi]
                    if arg is None or not any(isinstance(x, ast.Name) and x.id == P for x in ast.walk(arg)):
                        continue
                    n += 1
                    k += 1
                    txt = ast.unparse(arg)
                    r.check(txt in (P, "%s[0]" % P, "%s[1:]" % P), "%s:%s(%s)#call%d" % (rel, fn.name, P, k), m.where(c),
                            "%s: %s reads the head of its path `%s[0]` and hands `%s` to the next call: neither the head, the rest `%s[1:]`, nor the whole path" % (rel, fn.name, P, txt, P), detail=txt)
    if n < 2:
        raise AnalysisError("only %d recursive calls over a path parameter found" % n)
    return r.done()


_CONTIG_MAKERS = ("ascontiguousarray", "encode", "empty", "zeros", "ones", "full", "frombuffer", "arange", "concatenate", "copy", "array", "repeat", "tobytes")


def rule_py_view_contiguous(rep, floor=2):
    r = rep.rule("CONTIG.py-view-itemsize", "NumPy's `.view(\"u1\")` / `.view(\"<S..\")` (a dtype of another item size, written as a string literal) needs a contiguous last axis and reads the bytes as they lie in memory: its "
                 "receiver is an array this function made contiguous (ascontiguousarray, char.encode, empty, concatenate, ...), possibly flattened with reshape(-1) - not a caller's array flattened with "
                 "reshape(-1) alone, which is a strided view for a sliced array or a field of a structured array (from_numpy(a[::2]) of bytestrings raised ValueError); "
                 "sites in tables/py_view_contiguous_exceptions.json are accepted with a reason", floor=floor)
    table = load_table("py_view_contiguous_exceptions.json")
    n = 0
    for rel in _mods():
        m = pf.module(rel)
        for fn in _funcs(m.tree):
            occ = 0
            for c in ast.walk(fn):
                if not (isinstance(c, ast.Call) and isinstance(c.func, ast.Attribute) and c.func.attr == "view" and _owner_func(c) is fn and len(c.args) == 1):
                    continue
                a = c.args[0]
                lit = (isinstance(a, ast.Constant) and isinstance(a.value, str)) or (isinstance(a, ast.BinOp) and isinstance(a.left, ast.Constant) and isinstance(a.left.value, str))
                if not lit:
                    continue
                occ += 1
                n += 1

                def made(e, depth=0):
                    # strip reshape(-1)
                    while isinstance(e, ast.Call) and isinstance(e.func, ast.Attribute) and e.func.attr in ("reshape", "ravel", "flatten"):
                        if e.func.attr == "flatten":
                            return True       # flatten() copies
                        e = e.func.value
                    if isinstance(e, ast.Call):
                        nm = (pf.dotted(e.func) or "").split(".")[-1]
                        return nm in _CONTIG_MAKERS
                    if isinstance(e, ast.Name) and depth < 4:
                        defs = [s.value for s in ast.walk(fn) if isinstance(s, ast.Assign) and len(s.targets) == 1 and isinstance(s.targets[0], ast.Name) and s.targets[0].id == e.id and s.lineno <= c.lineno]
                        return bool(defs) and all(made(d, depth + 1) for d in defs)
                    return False
                key = "%s:%s#view%d" % (rel, fn.name, occ)
                if key in table:
                    r.excepted(key, table[key])
                    continue
                r.check(made(c.func.value), key, m.where(c),
                        "%s: %s reinterprets `%s` with .view(%s) although nothing in the function made it contiguous" % (rel, fn.name, ast.unparse(c.func.value)[:40], ast.unparse(a)), detail="receiver made contiguous here")
    if n < 2:
        raise AnalysisError("only %d item-size changing views found" % n)
    return r.done()


def rule_py_depth_selector_regular(rep, floor=1):
    r = rep.rule("REC.py-depth-selector-regular", "a node function handed to ak._util.recursively_apply that picks its nodes by `purelist_depth == k` is applied with numpy_to_regular=True: an n-dimensional "
                 "NumpyArray is one node of depth n with nothing below it, so without the conversion to RegularArrays the selector never matches inside it and the operation silently returns the input "
                 "(ak.to_categorical of a 2-d NumPy array was a no-op)", floor=floor)
    n = 0
    for rel in _mods():
        m = pf.module(rel)
        for fn in _funcs(m.tree):
            local = {f.name: f for f in ast.walk(fn) if isinstance(f, ast.FunctionDef) and f is not fn}
            for c in ast.walk(fn):
                if not (isinstance(c, ast.Call) and (pf.dotted(c.func) or "").split(".")[-1] == "recursively_apply" and _owner_func(c) is fn and len(c.args) >= 2):
                    continue     # broadcast_and_apply turns n-dimensional NumpyArrays into RegularArrays by itself
                g = c.args[1]
                if not (isinstance(g, ast.Name) and g.id in local):
                    continue
                selects = [x for x in ast.walk(local[g.id]) if isinstance(x, ast.Compare) and isinstance(x.left, ast.Attribute) and x.left.attr == "purelist_depth" and any(isinstance(o, ast.Eq) for o in x.ops)]
                if not selects:
                    continue
                n += 1
                kw = next((k for k in c.keywords if k.arg == "numpy_to_regular"), None)
                ok = kw is not None and isinstance(kw.value, ast.Constant) and kw.value.value is True
                r.check(ok, "%s:%s#%s" % (rel, fn.name, g.id), m.where(c), "%s: %s applies `%s`, which selects nodes by purelist_depth, without numpy_to_regular=True: an n-dimensional NumpyArray is never matched" % (rel, fn.name, g.id),
                        detail="numpy_to_regular=True")
    if n < 1:
        raise AnalysisError("no depth-selecting node function found (to_categorical has one)")
    return r.done()


def rule_py_duplicate_read(rep, floor=10):
    r = rep.rule("DEAD.py-duplicate-read", "two adjacent assignments that bind different names to the very same attribute or subscript read (`real = node[re]` / `imag = node[re]`) make the second name an alias of the first: "
                 "where the names say they are a pair (real/imag, starts/stops, x/y) the second read was meant to differ - from_json built complex numbers whose imaginary part was the real part", floor=floor)
    n = 0
    for rel in _mods():
        m = pf.module(rel)
        for fn in _funcs(m.tree):
            occ = 0
            for blk in _blocks(fn.body):
                for a, b in zip(blk, blk[1:]):
                    if not all(isinstance(s, ast.Assign) and len(s.targets) == 1 and isinstance(s.targets[0], ast.Name) and isinstance(s.value, (ast.Subscript, ast.Attribute)) for s in (a, b)):
                        continue
                    n += 1
                    occ += 1
                    same = a.targets[0].id != b.targets[0].id and ast.dump(a.value) == ast.dump(b.value)
                    r.check(not same, "%s:%s#pair%d" % (rel, fn.name, occ), m.where(b), "%s: %s binds `%s` and `%s` to the same read `%s`" % (rel, fn.name, a.targets[0].id, b.targets[0].id, ast.unparse(b.value)[:50]),
                            detail="different reads")
    if n < 10:
        raise AnalysisError("only %d adjacent read-assignments found" % n)
    return r.done()


def rule_py_boundary_search_side(rep, floor=3):
    r = rep.rule("SIDE.py-boundary-search", "a searchsorted whose haystack is an array of boundaries (its name contains `stops`, `offsets` or `positions`) states its `side` explicitly, and for `stops` (exclusive ends of "
                 "partitions) the side is \"right\": a position equal to a stop belongs to the next partition, and NumPy's default \"left\" selects the previous one (compiled `array[3]` on partitions of "
                 "length 3 read one past the end of the first)", floor=floor)
    n = 0
    for rel in _mods():
        m = pf.module(rel)
        occ = {}
        for c in ast.walk(m.tree):
            if not (isinstance(c, ast.Call) and (pf.dotted(c.func) or "").split(".")[-1] == "searchsorted" and c.args):
                continue
            hay = ast.unparse(c.args[0])
            if not any(w in hay for w in ("stops", "offsets", "positions")):
                continue
            n += 1
            fn = _owner_func(c)
            nm = getattr(fn, "name", "<module>")
            occ[nm] = occ.get(nm, 0) + 1
            side = next((k.value for k in c.keywords if k.arg == "side"), None)
            sval = side.value if isinstance(side, ast.Constant) else None
            ok = sval in ("left", "right") and not ("stops" in hay and sval != "right")
            r.check(ok, "%s:%s#searchsorted%d" % (rel, nm, occ[nm]), m.where(c), "%s: %s searches the boundaries `%s` with side=%s" % (rel, nm, hay[:40], repr(sval) if side is not None else "NumPy's default ('left')"),
                    detail="side=%s" % sval)
    if n < 3:
        raise AnalysisError("only %d searches over boundary arrays found" % n)
    return r.done()


_STRUCT_ATTRS = ("content", "offsets", "starts", "stops", "index", "tags", "mask", "contents")


def rule_py_derived_node_mix(rep, floor=3):
    r = rep.rule("MIX.py-derived-node", "once a node `new` has been derived from `old` by a conversion that re-numbers its pieces together (`new = old.toListOffsetArray64(True)`, `.toRegularArray()`, `.simplify()`, "
                 "`.project()`) and the code goes on to read pieces of `new`, it does not read the structural pieces of `old` (content, offsets, starts, stops, index, tags, mask) any more in that block: "
                 "`new.offsets` with `old.content` pairs zero-based offsets with content that still starts where the slice did (ak.packed(array[1:]) returned the first lists' items)", floor=floor)
    n = 0
    for rel in _mods():
        m = pf.module(rel)
        for fn in _funcs(m.tree):
            occ = 0
            for blk in _blocks(fn.body):
                for i, s in enumerate(blk):
                    if not (isinstance(s, ast.Assign) and len(s.targets) == 1 and isinstance(s.targets[0], ast.Name) and isinstance(s.value, ast.Call) and isinstance(s.value.func, ast.Attribute)
                            and isinstance(s.value.func.value, ast.Name) and s.value.func.value.id != s.targets[0].id and s.value.func.attr.startswith(("to", "simplify", "project"))):
                        continue
                    N, M = s.targets[0].id, s.value.func.value.id
                    after = [x for t in blk[i + 1:] for x in ast.walk(t)]
                    if not any(isinstance(x, ast.Attribute) and isinstance(x.value, ast.Name) and x.value.id == N and x.attr in _STRUCT_ATTRS for x in after):
                        continue
                    # stop at a re-binding of either name
                    n += 1
                    occ += 1
                    bad = [x for x in after if isinstance(x, ast.Attribute) and isinstance(x.value, ast.Name) and x.value.id == M and x.attr in _STRUCT_ATTRS and isinstance(x.ctx, ast.Load)]
                    r.check(not bad, "%s:%s#%s<-%s%s" % (rel, fn.name, N, M, "" if occ == 1 else "@%d" % occ), m.where(bad[0]) if bad else m.where(s),
                            "%s: %s derives `%s` from `%s` and then still reads `%s.%s`" % (rel, fn.name, N, M, M, bad[0].attr if bad else ""), detail="pieces read from the derived node")
    if n < 2:
        raise AnalysisError("only %d derived nodes whose pieces are read found" % n)
    return r.done()


def rule_py_shortcut_agrees(rep, floor=1):
    r = rep.rule("GUARD.py-shortcut-agrees", "a shortcut `if not any(P(x) for x in xs): return ...` in front of a loop over the same `xs` that treats exactly the items with P'(x) (`for .. x in xs: if P'(x): ...`) uses the same "
                 "predicate: where the shortcut's P is narrower than the loop's P' (indexedoptiontypes for all option types), inputs that the loop would have treated return untouched "
                 "(flatten(axis=0) kept the None of a ByteMaskedArray inside a union)", floor=floor)
    n = 0

    def norm(test, var):
        t = ast.unparse(test)
        return re.sub(r"\b%s\b" % re.escape(var), "_", t)
    for rel in _mods():
        m = pf.module(rel)
        for fn in _funcs(m.tree):
            occ = 0
            for blk in _blocks(fn.body):
                for i, s in enumerate(blk):
                    if not (isinstance(s, ast.If) and isinstance(s.test, ast.UnaryOp) and isinstance(s.test.op, ast.Not) and isinstance(s.test.operand, ast.Call) and isinstance(s.test.operand.func, ast.Name)
                            and s.test.operand.func.id == "any" and s.test.operand.args and isinstance(s.test.operand.args[0], ast.GeneratorExp) and any(isinstance(x, ast.Return) for x in s.body)):
                        continue
                    g = s.test.operand.args[0]
                    if len(g.generators) != 1 or not isinstance(g.generators[0].target, ast.Name) or g.generators[0].ifs:
                        continue
                    xs = ast.unparse(g.generators[0].iter)
                    P = norm(g.elt, g.generators[0].target.id)
                    for t in blk[i + 1:]:
                        if not isinstance(t, ast.For):
                            continue
                        it = t.iter
                        var = None
                        if ast.unparse(it) == xs and isinstance(t.target, ast.Name):
                            var = t.target.id
                        elif isinstance(it, ast.Call) and isinstance(it.func, ast.Name) and it.func.id == "enumerate" and it.args and ast.unparse(it.args[0]) == xs and isinstance(t.target, ast.Tuple) and len(t.target.elts) == 2 and isinstance(t.target.elts[1], ast.Name):
                            var = t.target.elts[1].id
                        if var is None or not (t.body and isinstance(t.body[0], ast.If) and len(t.body) == 1):
                            continue
                        n += 1
                        occ += 1
                        P2 = norm(t.body[0].test, var)
                        r.check(P == P2, "%s:%s#shortcut%d" % (rel, fn.name, occ), m.where(s), "%s: %s returns early unless any item satisfies `%s`, but the loop that follows treats the items with `%s`" % (rel, fn.name, P[:60], P2[:60]),
                                detail="same predicate")
                        break
    if n < 1:
        raise AnalysisError("no shortcut in front of a filtering loop found (the union arm of flatten(axis=0) has one)")
    return r.done()
