"""Python-side rules, fourth set (2026-10-05): results of loops that may not run."""
import ast
import re
from .. import pyfront as pf
from ..core import AnalysisError, load_table
from .pyrules3 import _mods, _owner_func, _funcs


def _blocks(stmts):
    yield stmts
    for t in stmts:
        for fld in ("body", "orelse", "finalbody"):
            b = getattr(t, fld, None)
            if isinstance(b, list) and b and isinstance(b[0], ast.stmt) and not isinstance(t, (ast.FunctionDef, ast.AsyncFunctionDef, ast.ClassDef)):
                for x in _blocks(b):
                    yield x
        if isinstance(t, ast.Try):
            for h in t.handlers:
                for x in _blocks(h.body):
                    yield x


def rule_py_none_after_loop(rep, floor=10):
    r = rep.rule("NONE.py-loop-result", "a name set to None before a `for` loop and assigned only inside it is, after the loop, either tested against None (or asserted) or used only where None is acceptable; "
                 "where it is handed on as a number or a sequence (`range(v)`, `x.extend(v)`, arithmetic, subscripting, iteration) the loop must be known to run - otherwise an empty collection "
                 "(a record array without fields, a union without contents) turns into a TypeError about NoneType. Sites in tables/py_none_after_loop_exceptions.json are accepted with a reason", floor=floor)
    table = load_table("py_none_after_loop_exceptions.json")
    for rel in _mods():
        m = pf.module(rel)
        for fn in _funcs(m.tree):
            occurrence = {}
            for blk in _blocks(fn.body):
                for i, s in enumerate(blk):
                    if not (isinstance(s, ast.Assign) and len(s.targets) == 1 and isinstance(s.targets[0], ast.Name) and isinstance(s.value, ast.Constant) and s.value.value is None):
                        continue
                    v = s.targets[0].id
                    # the next statements up to a for loop that assigns v
                    loop = None
                    for j in range(i + 1, len(blk)):
                        t = blk[j]
                        if isinstance(t, ast.For) and any(isinstance(a, ast.Assign) and any(isinstance(x, ast.Name) and x.id == v for tt in a.targets for x in ast.walk(tt)) for a in ast.walk(t)):
                            loop = j
                            break
                        if any(isinstance(x, ast.Name) and x.id == v for x in ast.walk(t)):
                            break
                    if loop is None:
                        continue
                    # inside the loop v must be assigned only (besides None tests)
                    after = blk[loop + 1:]
                    occurrence[v] = occurrence.get(v, 0) + 1
                    key = "%s:%s#%s%s" % (rel, fn.name, v, "" if occurrence[v] == 1 else "@%d" % occurrence[v])
                    guarded = False
                    risky = None
                    for t in after:
                        # a guard: `if v is None` / `if v is not None` / assert ... v ... / `v = ...`
                        if isinstance(t, (ast.If, ast.Assert)):
                            test = t.test
                            if any(isinstance(c, ast.Compare) and isinstance(c.left, ast.Name) and c.left.id == v and any(isinstance(o, (ast.Is, ast.IsNot)) for o in c.ops) for c in ast.walk(test)):
                                guarded = True
                                break
                        if isinstance(t, ast.Assign) and any(isinstance(x, ast.Name) and x.id == v for tt in t.targets for x in ast.walk(tt)):
                            guarded = True
                            break
                        for n in ast.walk(t):
                            if isinstance(n, ast.Call):
                                fnname = pf.dotted(n.func) or ""
                                if fnname.split(".")[-1] in ("range", "extend", "len", "enumerate", "zip", "list", "tuple", "sum", "max", "min") and any(isinstance(a, ast.Name) and a.id == v for a in n.args):
                                    risky = n
                            elif isinstance(n, ast.BinOp) and any(isinstance(a, ast.Name) and a.id == v for a in (n.left, n.right)):
                                risky = n
                            elif isinstance(n, ast.Subscript) and isinstance(n.value, ast.Name) and n.value.id == v and isinstance(n.ctx, ast.Load):
                                risky = n
                            elif isinstance(n, (ast.For, ast.comprehension)) and isinstance(n.iter, ast.Name) and n.iter.id == v:
                                risky = n.iter
                            if risky is not None:
                                break
                        if risky is not None:
                            break
                    if risky is None and not guarded:
                        continue
                    if guarded:
                        r.ok(key, "tested against None after the loop")
                        continue
                    if key in table:
                        r.excepted(key, table[key])
                        continue
                    r.fail(key, m.where(risky), "%s: %s uses `%s` as `%s` after a loop that may not have run (it is None then)" % (rel, fn.name, v, ast.unparse(risky)[:50]))
    return r.done()


def rule_py_filtered_ordinal(rep, floor=1):
    r = rep.rule("INDEX.py-filtered-ordinal", "where a function collects per-input data only for the inputs of some class (`for x in xs: if isinstance(x, T): L.append(..)`) and later walks the same inputs again to look that "
                 "data up by ordinal, the ordinal counts the inputs of that class only (a manual counter advanced under the same isinstance test), not all inputs (`for i, x in enumerate(xs)`): "
                 "with a non-T input in front, position and ordinal differ (`10 + union_array` looked up combo[\"1\"])", floor=floor)
    n = 0
    for rel in _mods():
        m = pf.module(rel)
        for fn in _funcs(m.tree):
            # filtered builds: for x in XS: if isinstance(x, T): L.append(...)
            builds = []
            for lp in ast.walk(fn):
                if not (isinstance(lp, ast.For) and isinstance(lp.iter, ast.Name) and isinstance(lp.target, ast.Name)):
                    continue
                for t in lp.body:
                    if isinstance(t, ast.If) and isinstance(t.test, ast.Call) and isinstance(t.test.func, ast.Name) and t.test.func.id == "isinstance" and len(t.test.args) == 2 \
                            and isinstance(t.test.args[0], ast.Name) and t.test.args[0].id == lp.target.id and any(isinstance(c, ast.Call) and isinstance(c.func, ast.Attribute) and c.func.attr == "append" for s in t.body for c in ast.walk(s)):
                        builds.append((lp.iter.id, ast.dump(t.test.args[1])))
            if not builds:
                continue
            # later walks of the same inputs under the same test that subscript by a counter
            for lp in ast.walk(fn):
                if not isinstance(lp, ast.For):
                    continue
                enum = isinstance(lp.iter, ast.Call) and isinstance(lp.iter.func, ast.Name) and lp.iter.func.id == "enumerate" and lp.iter.args and isinstance(lp.iter.args[0], ast.Name) \
                    and isinstance(lp.target, ast.Tuple) and len(lp.target.elts) == 2 and all(isinstance(e, ast.Name) for e in lp.target.elts)
                plain = isinstance(lp.iter, ast.Name) and isinstance(lp.target, ast.Name)
                if not (enum or plain):
                    continue
                xs = lp.iter.args[0].id if enum else lp.iter.id
                xv = lp.target.elts[1].id if enum else lp.target.id
                for t in lp.body:
                    if not (isinstance(t, ast.If) and isinstance(t.test, ast.Call) and isinstance(t.test.func, ast.Name) and t.test.func.id == "isinstance" and len(t.test.args) == 2
                            and isinstance(t.test.args[0], ast.Name) and t.test.args[0].id == xv and (xs, ast.dump(t.test.args[1])) in builds):
                        continue
                    # ordinal-like subscripts in the guarded body: Y[i] / Y[str(i)] with i a bare name
                    for sub in [s for b in t.body for s in ast.walk(b) if isinstance(s, ast.Subscript)]:
                        ix = sub.slice
                        if isinstance(ix, ast.Call) and isinstance(ix.func, ast.Name) and ix.func.id == "str" and ix.args:
                            ix = ix.args[0]
                        if not isinstance(ix, ast.Name):
                            continue
                        n += 1
                        isenum = enum and ix.id == lp.target.elts[0].id
                        r.check(not isenum, "%s:%s#%s[%s]" % (rel, fn.name, ast.unparse(sub.value)[:20], ix.id), m.where(sub),
                                "%s: %s looks `%s` up by the position of the input among ALL inputs (enumerate) although the data were collected for inputs of that class only" % (rel, fn.name, ast.unparse(sub)[:40]),
                                detail="ordinal among the filtered inputs")
    if n < 1:
        raise AnalysisError("no ordinal look-up of filtered per-input data found (the union arm of broadcast_and_apply has one)")
    return r.done()


def rule_py_slice_consumed(rep, floor=1):
    r = rep.rule("ITEM.py-range-consumed", "where a first-dimension slice has been applied through `X.getitem_range(head.start, head.stop, head.step)`, the pieces it returns are indexed further with `slice(None)` in its "
                 "place: using `head` itself again in the same arm applies the range twice (pa[1:, 0] dropped a row of every partition)", floor=floor)
    n = 0
    for rel in _mods():
        m = pf.module(rel)
        for fn in _funcs(m.tree):
            for arm in [a for a in ast.walk(fn) if isinstance(a, ast.If)]:
                for body in (arm.body,):
                    calls = [c for s in body for c in ast.walk(s) if isinstance(c, ast.Call) and isinstance(c.func, ast.Attribute) and c.func.attr == "getitem_range" and len(c.args) >= 2
                             and all(isinstance(a, ast.Attribute) and isinstance(a.value, ast.Name) for a in c.args[:2]) and len({a.value.id for a in c.args if isinstance(a, ast.Attribute)}) == 1
                             and [a.attr for a in c.args[:2]] == ["start", "stop"]]
                    if not calls:
                        continue
                    h = calls[0].args[0].value.id
                    n += 1
                    again = [x for s in body for x in ast.walk(s) if isinstance(x, ast.Name) and x.id == h and isinstance(x.ctx, ast.Load)
                             and not (isinstance(getattr(x, "_parent", None), ast.Attribute) and x._parent.attr in ("start", "stop", "step"))]
                    r.check(not again, "%s:%s#%s" % (rel, fn.name, h), m.where(again[0]) if again else m.where(calls[0]),
                            "%s: %s applies the range `%s` through getitem_range and then uses `%s` again in the same arm" % (rel, fn.name, h, h), detail="range applied once")
    if n < 1:
        raise AnalysisError("no getitem_range(head.start, head.stop, ...) arm found")
    return r.done()
