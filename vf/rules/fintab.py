"""Rule family N (FINTAB): decision tables over finite domains, evaluated exhaustively by interpreting the condition ASTs
(no repository code is executed)."""
import re
from ..facts import find_all
from ..core import AnalysisError
from .kspec import cexpr, unparse


def _func(fb, qual):
    fs = [f for f in fb.lib_funcs() if f["qual"] == qual]
    if not fs:
        raise AnalysisError("function %s not found" % qual)
    return fs[0]


def _enum_name(e):
    e = cexpr(e) if e and e[0] != "enum" else e
    if e and e[0] == "enum":
        return e[1].split("::")[-1]
    if e and e[0] == "var":
        return e[1]
    return None


def _raw_enum(e):
    while e and e[0] in ("cast", "ctor") :
        e = e[3] if e[0] == "cast" else (e[2][0] if e[2] else None)
    if e and e[0] == "enum":
        return e[1].split("::")[-1]
    return None


def switch_table(f):
    """switch(x) { case E: return V; } -> {E: V expr}"""
    out = {}
    for sw in find_all(f["body"], lambda n: n[0] == "switch"):
        for labels, body in sw[2]:
            ret = [s for s in body if s[0] == "return"]
            for l in labels:
                if l in ("default", "<pre>"):
                    continue
                nm = _raw_enum(l)
                if nm and ret:
                    out[nm] = ret[0][1]
    return out


def _const_str(e):
    e = cexpr(e)
    if e[0] == "const" and isinstance(e[1], str):
        return e[1]
    return None


class Eval:
    """evaluate an if/else-if/return function over concrete values of its parameters (strings / ints / enums)"""

    def __init__(self, env):
        self.env = env

    def ex(self, e):
        e0 = e
        h = e[0]
        if h == "const":
            return e[1]
        if h == "var":
            if e[1] in self.env:
                return self.env[e[1]]
            raise KeyError(e[1])
        if h == "enum":
            return ("enum", e[1].split("::")[-1])
        if h in ("cast",):
            return self.ex(e[3])
        if h == "ctor":
            if len(e[2]) == 1:
                return self.ex(e[2][0])
            raise KeyError("ctor")
        if h == "bin":
            op = e[1]
            if op == "&&":
                return bool(self.ex(e[2])) and bool(self.ex(e[3]))
            if op == "||":
                return bool(self.ex(e[2])) or bool(self.ex(e[3]))
            a, b = self.ex(e[2]), self.ex(e[3])
            return {"==": a == b, "!=": a != b, "<": a < b, "<=": a <= b, ">": a > b, ">=": a >= b}.get(op, None) if op in ("==", "!=", "<", "<=", ">", ">=") else self._arith(op, a, b)
        if h == "un" and e[1] == "!":
            return not self.ex(e[2])
        if h == "cond":
            return self.ex(e[2]) if self.ex(e[1]) else self.ex(e[3])
        if h == "mcall" and e[1] == "empty":
            return self.ex(e[3]) == ""
        if h == "mcall" and e[1] in ("length", "size"):
            return len(self.ex(e[3]))
        if h == "mcall" and e[1] == "rfind" and len(e[4]) == 2 and self.ex(e[4][1]) == 0:
            return 0 if self.ex(e[3]).startswith(self.ex(e[4][0])) else -1   # std::string::rfind(s, 0) == 0  <=>  starts with s
        if h == "mcall" and e[1] == "find" and len(e[4]) >= 1:
            return self.ex(e[3]).find(self.ex(e[4][0]))
        if h == "mcall" and e[1] == "substr":
            base = self.ex(e[3])
            a = self.ex(e[4][0])
            n = self.ex(e[4][1]) if len(e[4]) > 1 else len(base)
            return base[a:a + n]
        raise KeyError(unparse(e0)[:40])

    def _arith(self, op, a, b):
        if op == "+":
            return a + b
        if op == "-":
            return a - b
        if op == "*":
            return a * b
        raise KeyError(op)

    def run(self, stmts):
        for s in stmts:
            h = s[0]
            if h == "return":
                return ("ret", self.ex(s[1]) if s[1] is not None else None)
            if h == "if":
                c = self.ex(s[1])
                r = self.run(s[2] if c else s[3])
                if r is not None:
                    return r
            elif h == "decl":
                if s[3] is not None:
                    try:
                        self.env[s[1]] = self.ex(s[3])
                    except KeyError:
                        self.env.pop(s[1], None)
            elif h == "assign" and s[1][0] == "var":
                try:
                    self.env[s[1][1]] = self.ex(s[2])
                except KeyError:
                    self.env.pop(s[1][1], None)
            elif h == "switch":
                v = self.ex(s[1])
                hit = None
                for labels, body in s[2]:
                    for l in labels:
                        if l == "default":
                            if hit is None:
                                hit = body
                        elif l != "<pre>" and self.ex(l) == v:
                            hit = body
                            break
                    if hit is not None and hit is body and any(l != "default" for l in labels) :
                        break
                if hit is not None:
                    r = self.run(hit)
                    if r is not None:
                        return r
            elif h == "throw":
                return ("throw", None)
        return None


BITS = {"bool": 8}


def rule_dtype_tables(rep, fb, floor=60):
    r = rep.rule("FINTAB.dtype-tables", "util::dtype_to_name / name_to_dtype are mutual inverses on every enumerator; dtype_to_itemsize equals the width in the name; "
                 "format_to_dtype(dtype_to_format(d), itemsize(d)) == d for every d (the condition ASTs are interpreted over the whole finite domain); "
                 "is_integer/is_signed/is_unsigned/is_real/is_complex classify enumerators consistently with their names", floor=floor)
    d2n = switch_table(_func(fb, "util::dtype_to_name"))
    if len(d2n) < 15:
        raise AnalysisError("dtype_to_name has only %d cases" % len(d2n))
    d2n = {k: _const_str(v) for k, v in d2n.items()}
    n2d_f = _func(fb, "util::name_to_dtype")
    d2i_f = _func(fb, "util::dtype_to_itemsize")
    d2f_f = _func(fb, "util::dtype_to_format")
    f2d_f = _func(fb, "util::format_to_dtype")
    where = "%s:%d" % (n2d_f["file"], n2d_f["line"])
    for enum, name in sorted(d2n.items()):
        try:
            res = Eval({"name": name}).run(n2d_f["body"])
        except KeyError as e:
            raise AnalysisError("cannot interpret name_to_dtype: %s" % e)
        got = res[1][1] if res and res[0] == "ret" and isinstance(res[1], tuple) else None
        r.check(got == enum, "name-roundtrip:" + enum, where, "name_to_dtype(dtype_to_name(%s) = %r) = %s" % (enum, name, got), detail="%s <-> %r" % (enum, name))
        # itemsize
        res = Eval({"dt": ("enum", enum)}).run(d2i_f["body"])
        size = res[1] if res and res[0] == "ret" else None
        m = re.search(r"(\d+)$", name or "")
        want = int(m.group(1)) // 8 if m else (1 if name == "bool" else None)
        r.check(size == want, "itemsize:" + enum, "%s:%d" % (d2i_f["file"], d2i_f["line"]), "dtype_to_itemsize(%s) = %s but the name %r implies %s" % (enum, size, name, want), detail="%s bytes" % size)
        # format round trip
        res = Eval({"dt": ("enum", enum), "format": ""}).run(d2f_f["body"])
        fmt = res[1] if res and res[0] == "ret" else None
        if isinstance(fmt, str) and fmt and size:
            try:
                back = Eval({"format": fmt, "itemsize": size}).run(_main_chain(f2d_f))
            except KeyError as e:
                raise AnalysisError("cannot interpret format_to_dtype: %s" % e)
            got = back[1][1] if back and back[0] == "ret" and isinstance(back[1], tuple) else None
            r.check(got == enum, "format-roundtrip:" + enum, "%s:%d" % (f2d_f["file"], f2d_f["line"]), "format_to_dtype(dtype_to_format(%s) = %r, %d) = %s" % (enum, fmt, size, got), detail="%s <-> %r" % (enum, fmt))
        # classification predicates
        for pred, test in (("is_integer", lambda n: bool(re.match(r"u?int\d+$", n))), ("is_signed", lambda n: bool(re.match(r"int\d+$", n))),
                           ("is_unsigned", lambda n: bool(re.match(r"uint\d+$", n))), ("is_real", lambda n: bool(re.match(r"float\d+$", n))),
                           ("is_complex", lambda n: bool(re.match(r"complex\d+$", n)))):
            pf_ = _func(fb, "util::" + pred)
            res = Eval({"dt": ("enum", enum)}).run(pf_["body"])
            val = bool(res[1]) if res and res[0] == "ret" else None
            r.check(val == test(name or ""), "%s:%s" % (pred, enum), "%s:%d" % (pf_["file"], pf_["line"]), "%s(%s) = %s but the dtype is named %r" % (pred, enum, val, name), detail="%s=%s" % (pred, val))
    return r.done()


def _main_chain(f):
    """format_to_dtype: statements from the first `if` whose condition compares fmt (the endianness prelude assigns fmt = format minus a native byte-order mark)"""
    body = list(f["body"])
    for i, s in enumerate(body):
        if s[0] == "if" and "'fmt'" in repr(s[1]):
            return [("decl", "fmt", "string", ("var", "format"), 0)] + body[i:]
    raise AnalysisError("format_to_dtype: main if-chain on fmt not found")


NP_NAME = {"boolean": "bool", "int8": "int8", "int16": "int16", "int32": "int32", "int64": "int64", "uint8": "uint8", "uint16": "uint16", "uint32": "uint32",
           "uint64": "uint64", "float16": "float16", "float32": "float32", "float64": "float64", "float128": "float128", "complex64": "complex64",
           "complex128": "complex128", "complex256": "complex256"}


def numpy_promote(a, b):
    """NumPy's promote_types on the 16 numeric dtypes, from its documented lattice (kind, bits); cross-checked against numpy when importable"""
    def info(n):
        if n == "bool":
            return ("b", 1)
        import re as _re
        m = _re.match(r"(u?int|float|complex)(\d+)$", n)
        return ({"int": "i", "uint": "u", "float": "f", "complex": "c"}[m.group(1)], int(m.group(2)))
    (ka, ba), (kb, bb) = info(a), info(b)
    if a == b:
        return a
    if ka == "b":
        return b
    if kb == "b":
        return a
    order = "iufc"

    def float_for_int(bits):
        return 16 if bits <= 8 else (32 if bits <= 16 else 64)
    if ka in "iu" and kb in "iu":
        if ka == kb:
            return ("int" if ka == "i" else "uint") + str(max(ba, bb))
        ib, ub = (ba, bb) if ka == "i" else (bb, ba)
        if ub < ib:
            return "int%d" % ib
        if ub >= 64:
            return "float64"
        return "int%d" % (ub * 2)
    # at least one inexact
    def as_float_bits(k, bits):
        if k in "iu":
            return float_for_int(bits)
        if k == "f":
            return bits
        return bits // 2   # complex: component width
    fb_ = max(as_float_bits(ka, ba), as_float_bits(kb, bb))
    if "c" in (ka, kb):
        return "complex%d" % (fb_ * 2)
    return "float%d" % fb_


def rule_promotion(rep, fb, floor=200):
    r = rep.rule("FINTAB.dtype-promotion", "the dtype-promotion decision chain of NumpyArray::mergemany, interpreted on all pairs of the 16 numeric dtypes, yields numpy.promote_types "
                 "(NumPy's lattice; cross-checked against the installed numpy when importable)", floor=floor)
    f = _func(fb, "NumpyArray::mergemany")
    chains = [s for s in find_all(f["body"], lambda n: n[0] == "if" and isinstance(n[-1], int)) if "'nextdtype'" in repr(s[1]) and "'thatdtype'" in repr(s[1])]
    if not chains:
        raise AnalysisError("promotion chain not found in NumpyArray::mergemany")
    # outermost = the one containing the most nested ifs
    top = max(chains, key=lambda s: len(repr(s)))
    preds = {p: _func(fb, "util::" + p) for p in ("is_complex", "is_signed", "is_unsigned", "is_integer", "is_real")}

    class E2(Eval):
        def ex(self, e):
            if e[0] == "call" and e[1][0] == "fn" and (e[1][1] or "").split("::")[-1] in preds:
                v = self.ex(e[2][0])
                res = Eval({"dt": v}).run(preds[e[1][1].split("::")[-1]]["body"])
                return bool(res[1]) if res else False
            return Eval.ex(self, e)

        def run(self, stmts):
            for s in stmts:
                if s[0] == "if":
                    c = self.ex(s[1])
                    r_ = self.run(s[2] if c else s[3])
                    if r_ is not None:
                        return r_
                    return ("done", None)
                if s[0] == "assign" and s[1] == ("var", "nextdtype"):
                    self.env["nextdtype"] = self.ex(s[2])
                    return ("done", None)
            return None
    try:
        import numpy
    except Exception:
        numpy = None
    where = "%s:%d" % (f["file"], top[-1])
    names = list(NP_NAME)
    disagree_np = 0
    for a in names:
        for b in names:
            env = {"nextdtype": ("enum", a), "thatdtype": ("enum", b)}
            try:
                E2(env).run([top])
            except KeyError as e:
                raise AnalysisError("cannot interpret the promotion chain: %s" % e)
            got = env["nextdtype"][1]
            want = numpy_promote(NP_NAME[a], NP_NAME[b])
            if numpy is not None and hasattr(numpy, NP_NAME[a]) and hasattr(numpy, NP_NAME[b]):
                npw = numpy.promote_types(getattr(numpy, NP_NAME[a]), getattr(numpy, NP_NAME[b])).name
                if npw != want:
                    disagree_np += 1
                    want = npw
            r.check(NP_NAME.get(got) == want, "promote:%s+%s" % (a, b), where, "mergemany promotes (%s, %s) to %s but numpy.promote_types gives %s" % (a, b, got, want), detail="%s+%s -> %s" % (a, b, got))
    r.count("pairs", len(names) ** 2)
    r.count("embedded_lattice_vs_numpy_disagreements", disagree_np)
    return r.done()


class CEval:
    """interpreter for small scalar C helpers (if / assignment through *p / arithmetic / comparisons) on concrete integers"""

    def __init__(self, env):
        self.env = env

    def lv(self, e):
        if e[0] == "var":
            return e[1]
        if e[0] == "idx" and e[1][0] == "var" and cexpr(e[2]) == ("const", 0):
            return e[1][1]
        raise KeyError("lvalue " + unparse(e)[:30])

    def ex(self, e):
        h = e[0]
        if h == "const":
            return int(e[1]) if isinstance(e[1], bool) else e[1]
        if h == "var":
            return self.env[e[1]]
        if h == "idx":
            return self.env[self.lv(e)]
        if h in ("cast", "narrow", "widen"):
            return self.ex(e[3])
        if h == "un":
            v = self.ex(e[2])
            return (not v) if e[1] == "!" else (-v if e[1] == "-" else ~v)
        if h == "bin":
            op = e[1]
            if op == "&&":
                return bool(self.ex(e[2])) and bool(self.ex(e[3]))
            if op == "||":
                return bool(self.ex(e[2])) or bool(self.ex(e[3]))
            a, b = self.ex(e[2]), self.ex(e[3])
            return {"+": lambda: a + b, "-": lambda: a - b, "*": lambda: a * b, "<": lambda: a < b, "<=": lambda: a <= b, ">": lambda: a > b,
                    ">=": lambda: a >= b, "==": lambda: a == b, "!=": lambda: a != b}[op]()
        if h == "cond":
            return self.ex(e[2]) if self.ex(e[1]) else self.ex(e[3])
        raise KeyError(unparse(e)[:40])

    def run(self, stmts):
        for s in stmts:
            h = s[0]
            if h == "if":
                self.run(s[2] if self.ex(s[1]) else s[3])
            elif h == "assign":
                self.env[self.lv(s[1])] = self.ex(s[2])
            elif h == "aug":
                k = self.lv(s[2])
                v = self.ex(s[3])
                self.env[k] = self.env[k] + v if s[1] == "+" else (self.env[k] - v if s[1] == "-" else self.env[k] * v)
            elif h == "decl":
                if s[3] is not None:
                    self.env[s[1]] = self.ex(s[3])
            elif h == "return":
                return
            elif h == "expr":
                pass
            else:
                raise KeyError("statement " + h)


def rule_rangeslice(rep, fb, floor=1000):
    r = rep.rule("FINTAB.rangeslice", "awkward_regularize_rangeslice, interpreted on every (length 0..5) x (start absent or -8..8) x (stop absent or -8..8) x (step sign), selects exactly the positions Python's "
                 "slice(start, stop, +-1).indices(length) selects (the function is piecewise linear with breakpoints at -1, 0, length-1, length, so these lengths cover every ordering of its comparisons)", floor=floor)
    f = fb.kernel_pattern("awkward_regularize_rangeslice")
    if f is None:
        raise AnalysisError("awkward_regularize_rangeslice not found in src/cpu-kernels")
    where = "%s:%d" % (f["file"], f["line"])
    vals = [None] + list(range(-8, 9))
    bad = 0
    n = 0
    for length in range(0, 6):
        for posstep in (True, False):
            step = 1 if posstep else -1
            for a in vals:
                for b in vals:
                    env = {"start": 0 if a is None else a, "stop": 0 if b is None else b, "posstep": int(posstep), "hasstart": int(a is not None), "hasstop": int(b is not None), "length": length}
                    try:
                        CEval(env).run(f["body"])
                    except KeyError as e:
                        raise AnalysisError("cannot interpret awkward_regularize_rangeslice: %s" % e)
                    got = list(range(env["start"], env["stop"], step))
                    want = list(range(*slice(a, b, step).indices(length)))
                    n += 1
                    ok = got == want and all(0 <= i < length for i in got)
                    if not ok:
                        bad += 1
                        if bad <= 3:
                            r.fail("slice(%s,%s,%d)@len%d" % (a, b, step, length), where, "regularize_rangeslice(start=%s, stop=%s, step=%+d, length=%d) selects %s but Python selects %s" % (a, b, step, length, got, want))
                    else:
                        r.ok("slice(%s,%s,%d)@len%d" % (a, b, step, length), None)
    if bad > 3:
        r.fail("more", where, "%d further range/length combinations disagree with Python's slice semantics" % (bad - 3))
    r.count("combinations", n)
    return r.done()
