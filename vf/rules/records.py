"""Rules for C10: field projection rebuilds the same node around the projected content."""
import re
from ..facts import find_all
from ..core import AnalysisError
from .kspec import cexpr, unparse

WRAPPERS = ("BitMaskedArray", "ByteMaskedArray", "IndexedArrayOf", "RegularArray", "UnionArrayOf", "UnmaskedArray", "ListArrayOf", "ListOffsetArrayOf")
NOT_STRUCT = ("identities_", "parameters_", "content_", "contents_", "caches_", "represents_regular_")  # represents_regular_: optimisation hint, not part of the value


def struct_fields(cls):
    out = []
    for n, t in cls["fields"]:
        if n in NOT_STRUCT or not n.endswith("_"):
            continue
        if re.search(r"Index|bool|int64_t|int", t):
            out.append(n)
    return out


def rule_project_wrap(rep, fb, floor=30):
    r = rep.rule("RECORD.project-wrap", "getitem_field / getitem_fields of every wrapper node (list, regular, indexed, option, union) rebuilds the same node class with all of its own "
                 "index/mask/size members unchanged around content->getitem_field(key): field projection commutes with positional structure by construction", floor=floor)
    classes = fb.classes()
    for f in fb.lib_funcs():
        if f["name"] not in ("getitem_field", "getitem_fields") or f["cls"] not in WRAPPERS:
            continue
        cls = classes.get(f["cls"])
        if cls is None:
            cand = [c for k, c in classes.items() if c["name"] == f["cls"]]
            cls = cand[0] if cand else None
        if cls is None:
            raise AnalysisError("class table lacks %s" % f["cls"])
        sf = struct_fields(cls)
        keyp = f["params"][0][0]
        key = "%s::%s/%d" % (f["cls"], f["name"], len(f["params"]))
        where = "%s:%d" % (f["file"], f["line"])
        if sf:
            nodes = find_all(f["body"], lambda n: n[0] in ("make", "ctor") and len(n) >= 3 and any(a == ("member", ("this",), x) for a in n[2] for x in sf))
        else:
            nodes = find_all(f["body"], lambda n: n[0] in ("make", "ctor") and len(n) >= 3 and f["cls"] in str(n[1]))
        proj = find_all(f["body"], lambda n: n[0] == "mcall" and n[1] == f["name"] and n[4] and cexpr(n[4][0]) == ("var", keyp))
        if not r.check(bool(proj), key + ":forward", where, "%s::%s does not pass its key parameter '%s' to the content's %s" % (f["cls"], f["name"], keyp, f["name"])):
            continue
        ok = False
        missing = sf
        for n in nodes:
            present = [x for x in sf if any(a == ("member", ("this",), x) for a in n[2])]
            miss = [x for x in sf if x not in present]
            if len(miss) < len(missing):
                missing = miss
            tname = str(n[1])
            if not miss and (tname == "?" or (f["cls"][:-2] if f["cls"].endswith("Of") else f["cls"]) in tname):
                ok = True
        r.check(ok, key + ":rebuild", where, "%s::%s does not rebuild a %s with members %s unchanged (missing %s)" % (f["cls"], f["name"], f["cls"], sf, missing),
                detail="rebuilds %s(%s, content->%s(%s))" % (f["cls"], ", ".join(sf), f["name"], keyp))
    return r.done()


def rule_record_project_length(rep, fb):
    r = rep.rule("RECORD.project-length", "RecordArray::getitem_fields (projection onto a list of fields) rebuilds the RecordArray with its own length_ passed explicitly: "
                 "the number of records does not depend on which (or how many) fields are kept, nor on contents being longer than the record array", floor=2)
    n = 0
    for f in fb.lib_funcs():
        if f["cls"] != "RecordArray" or f["name"] != "getitem_fields":
            continue
        for node in find_all(f["body"], lambda k: k[0] in ("make", "ctor") and len(k) >= 3 and str(k[1]).replace("const ", "").strip() == "RecordArray" and len(k[2]) >= 3):
            n += 1
            ok = any(a == ("member", ("this",), "length_") for a in node[2])
            r.check(ok, "RecordArray::getitem_fields/%d#%d" % (len(f["params"]), n), "%s:%d" % (f["file"], node[-1] if isinstance(node[-1], int) else f["line"]),
                    "RecordArray::getitem_fields rebuilds the record array without its own length_: the result's length becomes the shortest selected content (0 for an empty key list)", detail="length_ passed")
    return r.done()


def rule_record_lookup(rep, fb):
    r = rep.rule("RECORD.key-order", "RecordArray/RecordForm key(i) returns recordlookup[i] (or to_string(i) for tuples) and fieldindex(key) searches recordlookup in declaration order", floor=2)
    for f in fb.lib_funcs():
        if f["name"] == "key" and f["cls"] in ("util",) or f["qual"] in ("util::key", "util::fieldindex"):
            where = "%s:%d" % (f["file"], f["line"])
            pn = [p[0] for p in f["params"]]
            if f["name"] == "key":
                # returns recordlookup->at(fieldindex) / std::to_string(fieldindex)
                idxp = [p for p in pn if "index" in p]
                rets = find_all(f["body"], lambda n: n[0] == "return" and isinstance(n[-1], int) and n[1] is not None)
                ok_lookup = any(find_all((x,), lambda n: (n[0] == "mcall" and n[1] == "at" or n[0] == "idx") and idxp and ("var", idxp[0]) in find_all((n,), lambda k: k[0] == "var")) for x in rets)
                ok_tuple = any(find_all((x,), lambda n: n[0] == "call" and n[1][0] == "fn" and "to_string" in (n[1][1] or "")) for x in rets)
                r.check(ok_lookup and ok_tuple, "util::key", where, "util::key does not return recordlookup[fieldindex] / to_string(fieldindex)", detail="recordlookup->at(fieldindex) | to_string(fieldindex)")
            else:
                loops = find_all(f["body"], lambda n: n[0] == "for")
                ok = False
                for lp in loops:
                    c = cexpr(lp[1])
                    incs = lp[3]
                    asc = c[0] == "bin" and c[1] == "<" and any(i[0] == "aug" and i[1] == "+" for i in incs)
                    if asc and (find_all((lp[2],), lambda n: n[0] == "return" and isinstance(n[-1], int)) or find_all((lp[2],), lambda n: n[0] == "break")):
                        ok = True
                r.check(ok, "util::fieldindex", where, "util::fieldindex does not scan recordlookup in ascending order returning the first match", detail="ascending scan, first match")
    return r.done()


def rule_regular_length(rep, fb, floor=30):
    r = rep.rule("REBUILD.regular-length", "every construction of a RegularArray in libawkward passes the explicit length argument (zeros_length): it is the only carrier of the array's length when size == 0, "
                 "so dropping it turns N empty lists into 0 lists", floor=floor)
    from ..core import load_table
    table = load_table("rebuild_exceptions.json")
    cnt = {}
    for f in fb.lib_funcs():
        for node in find_all(f["body"], lambda n: n[0] in ("make", "ctor") and len(n) >= 3 and str(n[1]).replace("const ", "").strip() == "RegularArray"):
            if len(node[2]) < 3:
                continue   # copy construction etc.
            cnt[f["qual"]] = cnt.get(f["qual"], 0) + 1
            key = "%s#%d" % (f["qual"], cnt[f["qual"]])
            if len(node[2]) < 5 and f["qual"] in table:
                r.excepted(f["qual"], table[f["qual"]])
                r.ok(key)
                continue
            r.check(len(node[2]) >= 5, key, "%s:%d" % (f["file"], node[-1] if isinstance(node[-1], int) else f["line"]),
                    "%s constructs a RegularArray without the explicit length argument: with size == 0 the result has length 0 regardless of the input" % f["qual"], detail="RegularArray(identities, parameters, content, size, length)")
    return r.done()
