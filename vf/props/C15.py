"""C15 — JSON output parses back to the array's value; JSON input builds what it says (structural clauses)."""
from .common import STD_ASSUME
from ..rules import jsonrules, builder, forward, safety


def run(rep, fb, tier):
    rep.assumptions += STD_ASSUME + ["rapidjson itself (absent from the sandbox; a declaration-only stub is used for type checking) implements Writer/Reader correctly"]
    rep.declined += ["number formatting and string escaping (rapidjson's)", "value round-trip from_json(to_json(a)) == a", "src/python/io.cpp and the Python to_json/from_json wrappers beyond option forwarding"]
    jsonrules.rule_json_alphabet(rep, fb)
    jsonrules.rule_json_clones(rep, fb)
    jsonrules.rule_json_balanced(rep, fb)
    jsonrules.rule_json_parse_errors(rep, fb)
    jsonrules.rule_json_writer_result(rep, fb)
    jsonrules.rule_json_flag(rep, fb)
    jsonrules.rule_json_substitution(rep, fb)
    jsonrules.rule_json_parameters(rep, fb)
    builder.rule_builder_table(rep, fb)
    builder.rule_arraybuilder_update(rep, fb)
    forward.rule_same_name(rep, fb, select=lambda f: f["name"] in ("tojson_part", "tojson", "tojson_string", "tojson_boolean", "tojson_integer", "tojson_real", "tojson_complex") or f["file"].endswith("io/json.cpp"), floor=30, name="FORWARD.same-name:json")
    from ..rules import lints as _l
    _l.rule_string_equality(rep, fb)
    from ..rules import pyrules as _pr
    _pr.rule_py_unreachable(rep)
    _pr.rule_py_callback_layout(rep)
    from ..rules import lints2 as _l2
    _l2.rule_dtype_case_methods(rep, fb)
    from ..rules import pyrules as _pr4
    _pr4.rule_py_defassign(rep)
    _pr4.rule_py_isinstance_shadow(rep)
    _pr4.rule_py_call_shape(rep)
    from ..rules import lints as _lc
    _lc.rule_contiguous_guard(rep, fb)
    _pr4.rule_py_bytes_str_arms(rep)
    from ..rules import binding as _bd
    _bd.rule_def_arg_order(rep, fb)
    __import__("vf.rules.binding", fromlist=["x"]).rule_stride_division(rep, fb)
    __import__("vf.rules.pyrules3", fromlist=["x"]).rule_py_duplicate_operand(rep)
    __import__("vf.rules.binding2", fromlist=["x"]).rule_binding_call_roles(rep, fb)
    __import__("vf.rules.lints3", fromlist=["x"]).rule_libc_null(rep, fb)
    __import__("vf.rules.pyrules5", fromlist=["x"]).rule_py_duplicate_read(rep)
    rep.units = fb.units
