"""C13 — every compiled CPU kernel computes what its Python specification computes (translation validation)."""
import os
import re
import ast
from ..core import AnalysisError, REPO
from ..rules import kspec

from ..rules.kernels import canon_type, helpers_of, spec_nf, implementation_of, forwarding_target, rule_kspec, rule_wrappers


def run(rep, fb, tier):
    spec = fb.spec()
    kf = fb.kernel_functions()
    from ..rules import lints3 as _l3
    _l3.rule_narrow_arith(rep, fb)
    _l3.rule_cond_unsigned(rep, fb)
    _l3.rule_narrow_accumulator(rep, fb)
    __import__("vf.rules.lints3", fromlist=["x"]).rule_bytemask_normalised(rep, fb)
    rep.units = fb.units
    rep.assumptions += [
        "clang 14's parser/type checker and its JSON AST dump are correct",
        "the normal form erases only differences that cannot change results (casts, i++ vs i+=1, for vs while, operand order of + * == != & | ^, a>b vs b<a, dead dummy initialisers, local/parameter names)",
        "C integer width effects (overflow, wrap-around) are not modelled: the Python definition computes on unbounded integers",
    ]
    rep.declined += [
        "width-specific overflow behaviour of each specialisation (a value property)",
        "the %d kernels whose definition is the placeholder 'Insert Python definition here' are covered by sibling/wrapper/signature rules only" % sum(1 for k in spec if k["placeholder"]),
        "read/write extents relative to length arguments are decided at the call sites (C12), not here",
    ]

    rA, programs, undefined = rule_kspec(rep, fb, tier, None, floor=150)
    specnames = rule_wrappers(rep, fb, None, floor=600)
    from ..spec import spec_ctype
    rC = rep.rule("KSIG.const", "a pointer argument declared Const[...] is dir: in and an argument with dir: out is not const (the compiler then enforces that declared-const inputs are not written by the kernel)", floor=600)
    for k in spec:
        for sp in k["specializations"]:
            for a in sp["args"]:
                if "List[" not in a["type"]:
                    continue
                isconst = a["type"].startswith("Const[")
                rC.check((not isconst) or a.get("dir") == "in", sp["name"] + ":" + a["name"], "kernel-specification.yml:" + sp["name"],
                         "argument %s has dir=%s but type %s" % (a["name"], a.get("dir"), a["type"]))
    rC.done()
    from ..rules.callsites import rule_dispatch
    rule_dispatch(rep, fb)
    from ..rules import kbound, guards
    kbound.rule_kbound(rep, fb)
    guards.rule_const_subscript(rep, fb)
    guards.rule_division(rep, fb)
    from ..rules.kernels import rule_kernel_siblings
    rule_kernel_siblings(rep, fb)

    # ---- exhaustiveness: every extern kernel symbol defined in src/cpu-kernels/awkward_*.cpp is specified
    rE = rep.rule("KSIG.exhaustive", "every non-template awkward_* function defined under src/cpu-kernels is a specialisation listed in the specification", floor=600)
    for p, tu in sorted(fb.kernel_tus().items()):
        if not os.path.basename(p).startswith("awkward_"):
            continue
        tmpl = {f["name"] for f in tu["funcs"] if f["inst"]}
        for f in tu["funcs"]:
            if f["inst"] or f["name"] in tmpl or not f["name"].startswith("awkward_"):
                continue
            if f["storage"] == "static":
                continue
            called = False
            rE.check(f["name"] in specnames or _is_helper(f, tu), f["name"], "%s:%d" % (f["file"], f["line"]),
                     "function %s is compiled into the kernel library but has no entry in kernel-specification.yml" % f["name"])
    rE.done()

    # generated files on disk (informational: the build regenerates them from the specification)
    notes = []
    gen = os.path.join(REPO, "include", "awkward", "kernels.h")
    from .. import cxx
    if os.path.exists(gen):
        ours = open(os.path.join(cxx.gen_include_dir(), "awkward", "kernels.h")).read()
        theirs = "\n".join(l for l in open(gen).read().split("\n") if not l.startswith("//"))
        norm = lambda s: re.sub(r"\s+", " ", s).strip()
        notes.append("on-disk generated include/awkward/kernels.h %s the header regenerated from the specification" % ("equals" if norm(ours) == norm(theirs) else "DIFFERS FROM (stale; the build regenerates it)"))
    rep.extra_cov.update({
        "programs": programs,
        "disagreements_checked": len(rep.violations) + len(rep.known_hits),
        "kernels_without_definition": undefined,
        "generated_files": notes,
    })


def _is_helper(f, tu):
    # a non-template helper that is only called from other functions of the same file
    from ..facts import find_all
    for g in tu["funcs"]:
        if g is f:
            continue
        if find_all(g["body"], lambda n: n[0] == "fn" and n[1] == f["name"]):
            return True
    return False
