"""C13 — every compiled CPU kernel computes what its Python specification computes (translation validation)."""
import os
import re
import ast
from ..core import AnalysisError, REPO
from ..rules import kspec

CANON = {"long": "int64_t", "int": "int32_t", "unsigned int": "uint32_t", "signed char": "int8_t", "unsigned char": "uint8_t",
         "short": "int16_t", "unsigned short": "uint16_t", "unsigned long": "uint64_t", "long long": "int64_t",
         "unsigned long long": "uint64_t", "_Bool": "bool"}


def canon_type(t):
    t = t.replace("struct ", "").strip()
    const = "const" in t.split()
    t2 = " ".join(w for w in t.replace("*", " * ").split() if w != "const")
    base = t2.replace("*", "").strip()
    stars = t2.count("*")
    base = CANON.get(base, base)
    return ("const " if const else "") + base + (" " + "*" * stars if stars else "")


def helpers_of(fb, f):
    tu = [t for t in fb.kernel_tus().values() if t["path"] == f["file"]][0]
    return {g["name"]: (tuple(p[0] for p in g["params"]), g["body"]) for g in tu["funcs"] if not g["inst"] and g["name"] != f["name"]}


def spec_nf(k):
    ir = k["ir"]
    pp, pb = ir["functions"][ir["main"]]
    ph = {n: v for n, v in ir["functions"].items() if n != ir["main"]}
    return pp, kspec.normal_form(pp, pb, ph)


def implementation_of(fb, k):
    """the C++ function that implements spec kernel k: the template named like the kernel, else (no template) the
    single specialisation itself"""
    f = fb.kernel_pattern(k["name"])
    if f is not None:
        return f
    # kernels whose template has another name: follow the first specialisation's forwarding call
    for sp in k["specializations"]:
        w = fb.kernel_pattern(sp["name"])
        if w is None:
            continue
        tgt = forwarding_target(w)
        if tgt is not None:
            g = fb.kernel_pattern(tgt[0])
            if g is not None:
                return g
        return w
    return None


def forwarding_target(w):
    """if w's body is `return G<...>(args)` -> (G, targs, args) else None"""
    b = w["body"]
    if len(b) == 1 and b[0][0] == "return" and b[0][1] and b[0][1][0] == "call" and b[0][1][1][0] == "fn":
        fn = b[0][1][1]
        return fn[1], (fn[2] if len(fn) > 2 else ()), b[0][1][2]
    return None


def run(rep, fb, tier):
    spec = fb.spec()
    kf = fb.kernel_functions()
    rep.units = fb.units
    rep.assumptions += [
        "clang 14's parser/type checker and its JSON AST dump are correct",
        "the normal form erases only differences that cannot change results (casts, i++ vs i+=1, for vs while, operand order of + * == != & | ^, a>b vs b<a, dead dummy initialisers, local/parameter names)",
        "C integer width effects (overflow, wrap-around) are not modelled: the Python definition computes on unbounded integers",
    ]
    rep.declined += [
        "width-specific overflow behaviour of each specialisation (a value property)",
        "the %d kernels whose definition is the placeholder 'Insert Python definition here' are covered by sibling/wrapper/signature rules only" % sum(1 for k in spec if k["placeholder"]),
        "read/write extents relative to length arguments are decided at the call sites (C12), not here",
    ]

    # ---- A: normal-form equality, kernel vs definition
    rA = rep.rule("KSPEC.equal", "C++ kernel body and Python definition lower to the same normal form", floor=150)
    undefined = []
    programs = 0
    for k in spec:
        if k["placeholder"]:
            undefined.append(k["name"])
            continue
        ir = k["ir"]
        key = k["name"]
        if ir is None or "error" in ir:
            rA.fail(key, "kernel-specification.yml:" + key, "the Python definition cannot be parsed: %s" % (ir or {}).get("error"))
            continue
        if ir["unknown"]:
            rA.fail(key, "kernel-specification.yml:" + key, "definition uses constructs outside the kernel subset: %s" % ir["unknown"])
            continue
        f = implementation_of(fb, k)
        if f is None:
            rA.fail(key, "src/cpu-kernels", "no C++ function implements specified kernel %s" % key)
            continue
        programs += 1
        cp = tuple(p[0] for p in f["params"])
        a = kspec.normal_form(cp, f["body"], helpers_of(fb, f))
        pp, b = spec_nf(k)
        where = "%s:%d" % (f["file"], f["line"])
        if len(cp) != len(pp):
            rA.fail(key, where, "parameter count differs: C++ %d %s vs definition %d %s" % (len(cp), cp, len(pp), pp))
            continue
        rA.check(a == b, key, where, "kernel differs from its definition at %s" % kspec.first_diff(a, b),
                 detail="normal forms identical (%d statements at top level)" % len(a),
                 extra={"cxx": kspec.unparse(a)[:2000], "spec": kspec.unparse(b)[:2000]})
        if tier == "thorough":
            for g in kf.get(f["name"], []):
                if not g["inst"] or g["file"] != f["file"]:
                    continue
                programs += 1
                ai = kspec.normal_form(tuple(p[0] for p in g["params"]), g["body"], helpers_of(fb, f))
                rA.check(ai == b, key + "<" + ",".join(g["ftargs"] or ()) + ">", where,
                         "instantiation %s differs from the definition at %s" % (g["ftargs"], kspec.first_diff(ai, b)))
    rA.count("kernels_with_definition", programs)
    rA.count("kernels_without_definition", len(undefined))
    rA.done()

    # ---- B.1: every specialisation exists and forwards its own parameters positionally to the kernel's template
    rB = rep.rule("KSIB.wrapper", "each specialisation forwards its own parameters, in order, to the kernel's one template (all widths share one algorithm)", floor=600)
    rS = rep.rule("KSIG.definition", "parameter names and C types of each specialisation's definition equal the args in kernel-specification.yml (so the extern \"C\" symbol the library calls is this function)", floor=600)
    rC = rep.rule("KSIG.const", "a pointer argument declared Const[...] is dir: in and an argument with dir: out is not const (the compiler then enforces that declared-const inputs are not written by the kernel)", floor=600)
    specnames = set()
    for k in spec:
        impl = implementation_of(fb, k)
        targets = set()
        for sp in k["specializations"]:
            specnames.add(sp["name"])
            key = sp["name"]
            w = fb.kernel_pattern(sp["name"])
            if w is None:
                rB.fail(key, "src/cpu-kernels", "specialisation %s has no C++ definition" % key)
                continue
            where = "%s:%d" % (w["file"], w["line"])
            # signature
            want = [(a["name"], canon_type(__import__("vf.spec", fromlist=["x"]).spec_ctype(a["type"]))) for a in sp["args"]]
            got = [(n, canon_type(t)) for n, t in w["params"]]
            rS.check(want == got, key, where, "definition parameters %s differ from specification args %s" % (got, want),
                     detail="%d parameters agree in name and type" % len(got))
            for a in sp["args"]:
                isptr = "List[" in a["type"]
                if not isptr:
                    continue
                isconst = a["type"].startswith("Const[")
                d = a.get("dir")
                rC.check((not isconst) or d == "in", key + ":" + a["name"], where,
                         "argument %s has dir=%s but type %s" % (a["name"], d, a["type"]))
            # forwarding
            if impl is not None and impl["name"] == w["name"]:
                rB.ok(key, "is itself the implementation (no template)")
                continue
            ft = forwarding_target(w)
            if ft is None:
                # a specialisation with its own body: compare it directly with the definition when there is one
                if not k["placeholder"] and k["ir"] and "error" not in k["ir"]:
                    a = kspec.normal_form(tuple(p[0] for p in w["params"]), w["body"], helpers_of(fb, w))
                    pp, b = spec_nf(k)
                    rB.check(a == b, key, where, "specialisation has its own body, which differs from the definition at %s" % kspec.first_diff(a, b))
                else:
                    rB.excepted(key, "own body, kernel has no definition: not comparable")
                continue
            tgt, targs, args = ft
            targets.add(tgt)
            pnames = tuple(("var", p[0]) for p in w["params"])
            okfwd = tuple(args) == pnames
            rB.check(okfwd, key, where, "wrapper does not forward its parameters positionally: passes %s for parameters %s" % (
                [kspec.unparse(kspec.cexpr(a)) for a in args], [p[0] for p in w["params"]]),
                detail="forwards %d parameters in order to %s<%s>" % (len(args), tgt, ",".join(targs)))
        if len(targets) > 1:
            rB.fail(k["name"] + ":one-template", "src/cpu-kernels", "specialisations of %s forward to different templates %s" % (k["name"], sorted(targets)))
        elif targets and impl is not None and impl["name"] not in targets:
            rB.fail(k["name"] + ":impl", "src/cpu-kernels", "specialisations forward to %s but the kernel is implemented by %s" % (sorted(targets), impl["name"]))
    rB.done()
    rS.done()
    rC.done()

    # ---- exhaustiveness: every extern kernel symbol defined in src/cpu-kernels/awkward_*.cpp is specified
    rE = rep.rule("KSIG.exhaustive", "every non-template awkward_* function defined under src/cpu-kernels is a specialisation listed in the specification", floor=600)
    for p, tu in sorted(fb.kernel_tus().items()):
        if not os.path.basename(p).startswith("awkward_"):
            continue
        tmpl = {f["name"] for f in tu["funcs"] if f["inst"]}
        for f in tu["funcs"]:
            if f["inst"] or f["name"] in tmpl or not f["name"].startswith("awkward_"):
                continue
            if f["storage"] == "static":
                continue
            called = False
            rE.check(f["name"] in specnames or _is_helper(f, tu), f["name"], "%s:%d" % (f["file"], f["line"]),
                     "function %s is compiled into the kernel library but has no entry in kernel-specification.yml" % f["name"])
    rE.done()

    # generated files on disk (informational: the build regenerates them from the specification)
    notes = []
    gen = os.path.join(REPO, "include", "awkward", "kernels.h")
    from .. import cxx
    if os.path.exists(gen):
        ours = open(os.path.join(cxx.gen_include_dir(), "awkward", "kernels.h")).read()
        theirs = "\n".join(l for l in open(gen).read().split("\n") if not l.startswith("//"))
        norm = lambda s: re.sub(r"\s+", " ", s).strip()
        notes.append("on-disk generated include/awkward/kernels.h %s the header regenerated from the specification" % ("equals" if norm(ours) == norm(theirs) else "DIFFERS FROM (stale; the build regenerates it)"))
    rep.extra_cov.update({
        "programs": programs,
        "disagreements_checked": len(rep.violations) + len(rep.known_hits),
        "kernels_without_definition": undefined,
        "generated_files": notes,
    })


def _is_helper(f, tu):
    # a non-template helper that is only called from other functions of the same file
    from ..facts import find_all
    for g in tu["funcs"]:
        if g is f:
            continue
        if find_all(g["body"], lambda n: n[0] == "fn" and n[1] == f["name"]):
            return True
    return False
