"""C20 — Numba-compiled code sees the same values as interpreted Python (table / guard clauses, Python ast + extern C)."""
from .common import STD_ASSUME
from ..rules import numba as nb
from ..rules import pyrules, safety, builder


def run(rep, fb, tier):
    rep.assumptions += STD_ASSUME + ["numba itself (present in /venv but never imported or run by the check) lowers the emitted LLVM IR as documented"]
    rep.declined += ["that the generated LLVM computes the interpreter's values (needs execution)", "reference-count balance of box/unbox paths beyond what is listed (no sound pairing analysis of llvmlite builder code was attempted)",
                     "iteration, 'in' tests and asarray conversions"]
    nb.rule_numba_slots(rep)
    nb.rule_numba_getitem(rep)
    nb.rule_capi_table(rep, fb)
    safety.rule_extern_c_nothrow(rep, fb)
    builder.rule_arraybuilder_update(rep, fb)
    pyrules.rule_py_dispatch(rep, modules=["_connect/_numba/arrayview.py", "_connect/_numba/layout.py", "_connect/_numba/builder.py", "_connect/_numba/__init__.py"], floor=10)
    pyrules.rule_py_categories(rep)
    from ..rules import pybind as _pb, pyrules as _pr2
    _pb.rule_py_bindings(rep)
    _pr2.rule_py_call_signature(rep)
    from ..rules import pyrules as _pr4
    _pr4.rule_py_defassign(rep)
    from ..rules import pybind as _pb2
    _pb2.rule_py_layout_attrs(rep)
    from ..rules import pyrules as _pr5
    _pr5.rule_py_call_shape(rep)
    _pr5.rule_py_numba_view_start(rep)
    _pr5.rule_py_numba_lowering(rep)
    _pr5.rule_py_self_attrs(rep)
    __import__("vf.rules.pyrules3", fromlist=["x"]).rule_py_numba_partition_cursor(rep)
    __import__("vf.rules.pyrules3", fromlist=["x"]).rule_py_numba_partition_start(rep)
    __import__("vf.rules.pyrules4", fromlist=["x"]).rule_py_numba_view_start_compose(rep)
    __import__("vf.rules.pyrules5", fromlist=["x"]).rule_py_boundary_search_side(rep)
    rep.units = fb.units + ["src/awkward/_connect/_numba/*.py, _libawkward.py (ast)"]
