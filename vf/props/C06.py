"""C06 — see DESIGN.md section 3."""
from .families import run_family
from ..rules import structure as st
from ..rules import callsites as cs
from ..rules import origin


def extras():
    return EXTRAS


def run(rep, fb, tier):
    run_family("C06", rep, fb, tier, EXTRAS)


EXTRAS = [
    lambda rep, fb, tier: st.rule_negaxis(rep, fb, floor=28),
    lambda rep, fb, tier: origin.rule_rebase(rep, fb),
    lambda rep, fb, tier: origin.rule_origin(rep, fb),
    lambda rep, fb, tier: __import__("vf.rules.methodrules", fromlist=["x"]).rule_index_content(rep, fb),
    lambda rep, fb, tier: __import__("vf.rules.methodrules", fromlist=["x"]).rule_option_shifts(rep, fb),
    lambda rep, fb, tier: __import__("vf.rules.lints", fromlist=["x"]).rule_dtype_case(rep, fb),
    lambda rep, fb, tier: __import__("vf.rules.lints", fromlist=["x"]).rule_contiguous_guard(rep, fb),
    lambda rep, fb, tier: __import__("vf.rules.lints", fromlist=["x"]).rule_dtype_arm_clones(rep, fb),
    lambda rep, fb, tier: __import__("vf.rules.forward", fromlist=["x"]).rule_same_name(rep, fb, select=lambda f: f["name"] in ("sort_next", "argsort_next", "sort", "argsort", "sort_asstrings"), floor=30, name="FORWARD.same-name:sort"),
    lambda rep, fb, tier: __import__("vf.rules.lints", fromlist=["x"]).rule_strict_comparator(rep, fb),
    lambda rep, fb, tier: __import__("vf.rules.lints", fromlist=["x"]).rule_string_equality(rep, fb),
    lambda rep, fb, tier: __import__("vf.rules.lints", fromlist=["x"]).rule_ctor_roles(rep, fb),
    lambda rep, fb, tier: __import__("vf.rules.lints", fromlist=["x"]).rule_call_roles(rep, fb),
    lambda rep, fb, tier: __import__("vf.rules.lints2", fromlist=["x"]).rule_sort_argsort_siblings(rep, fb),
    lambda rep, fb, tier: __import__("vf.rules.lints2", fromlist=["x"]).rule_dtype_case_methods(rep, fb),
    lambda rep, fb, tier: __import__("vf.rules.pyrules3", fromlist=["x"]).rule_py_raw_axis(rep),
    lambda rep, fb, tier: __import__("vf.rules.pyrules4", fromlist=["x"]).rule_py_numpy_positional(rep),
    lambda rep, fb, tier: __import__("vf.rules.lints3", fromlist=["x"]).rule_shifts_handed_down(rep, fb),
]
