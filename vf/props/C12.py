"""C12 — operations never crash, hang, touch foreign memory, or modify their inputs (structural clauses)."""
from .common import STD_ASSUME
from ..rules import callsites as cs
from ..rules import safety, guards, origin, forward


def run(rep, fb, tier):
    rep.assumptions += STD_ASSUME
    rep.declined += [
        "freedom from out-of-bounds on data-dependent subscripts (needs value ranges of array contents)",
        "integer overflow of sizing formulas; stack depth of recursion on deeply nested types",
        "termination of loops whose bound is data",
    ]
    api = cs.kernel_api(fb)
    sites = cs.kernel_sites(fb, api)
    cs.rule_errflow(rep, fb, sites=sites)
    cs.rule_fresh(rep, fb, sites=sites)
    cs.rule_role(rep, fb, sites=sites)
    cs.rule_dispatch(rep, fb)
    safety.rule_kernel_failure_returned(rep, fb)
    safety.rule_extern_c_nothrow(rep, fb)
    safety.rule_no_const_cast(rep, fb)
    safety.rule_raw_memory(rep, fb)
    safety.rule_width(rep, fb)
    guards.rule_invariants(rep, fb)
    guards.rule_getitem_at(rep, fb)
    guards.rule_division(rep, fb)
    guards.rule_const_subscript(rep, fb)
    from ..rules import kbound
    kbound.rule_kbound(rep, fb)
    from ..rules import lints
    lints.rule_flat_length(rep, fb)
    lints.rule_dtype_case(rep, fb)
    lints.rule_fill_accumulate(rep, fb)
    lints.rule_raw_store(rep, fb)
    lints.rule_ptr_byteoffset(rep, fb)
    lints.rule_index_ptr_offset(rep, fb)
    lints.rule_contiguous_guard(rep, fb)
    lints.rule_dtype_arm_clones(rep, fb)
    from ..rules import pyrules
    pyrules.rule_py_borrowed(rep, ["_util.py", "operations/structure.py", "operations/convert.py", "highlevel.py", "_connect/_numpy.py", "partition.py", "behaviors/string.py",
                                   "behaviors/categorical.py", "operations/reducers.py", "operations/describe.py"], floor=20)
    if tier == "thorough":
        isites = cs.kernel_sites(fb, api, inst=True)
        for fn in (cs.rule_errflow, cs.rule_fresh, cs.rule_role):
            rep.no_floor_table = True
            try:
                fn(rep, fb, sites=isites, floor=1)
            finally:
                rep.no_floor_table = False
            rep.rules[-1].name += "@instantiations"
    from ..rules import lints as _lx
    _lx.rule_null_branch_deref(rep, fb)
    _lx.rule_strict_comparator(rep, fb)
    from ..rules import lints as _ly
    _ly.rule_growth_progress(rep, fb)
    _ly.rule_shift_literal(rep, fb)
    from ..rules import lints as _lz
    _lz.rule_sibling_sizing(rep, fb)
    _lz.rule_raw_base_pointer(rep, fb)
    from ..rules import lints2 as _l2
    _l2.rule_failure_message_condition(rep, fb)
    _l2.rule_byteswap_width(rep, fb)
    _l2.rule_dtype_case_methods(rep, fb)
    from ..rules import lints3 as _l3, binding as _bd
    _l3.rule_narrow_arith(rep, fb)
    _l3.rule_cond_unsigned(rep, fb)
    _bd.rule_exception_unthrown(rep, fb)
    _l3.rule_narrow_accumulator(rep, fb)
    _l3.rule_union_tag_count(rep, fb)
    _l3.rule_range_step(rep, fb)
    _l3.rule_offsets_first(rep, fb)
    _l3.rule_child_accessor_bounds(rep, fb)
    _l3.rule_kernel_one_sided(rep, fb)
    _l3.rule_extent_zero(rep, fb)
    _l3.rule_count_product(rep, fb)
    _l3.rule_libc_null(rep, fb)
    __import__("vf.rules.jsonrules", fromlist=["x"]).rule_json_parameters(rep, fb)
    __import__("vf.rules.lints3", fromlist=["x"]).rule_bytemask_normalised(rep, fb)
    __import__("vf.rules.lints3", fromlist=["x"]).rule_strides_inner_first(rep, fb)
    __import__("vf.rules.lints3", fromlist=["x"]).rule_union_length_is_tags(rep, fb)
    __import__("vf.rules.lints3", fromlist=["x"]).rule_adjusted_twin(rep, fb)
    __import__("vf.rules.lints3", fromlist=["x"]).rule_alloc_len_stride(rep, fb)
    rep.units = fb.units
