"""C09 — see DESIGN.md section 3."""
from .families import run_family
from ..rules import structure as st
from ..rules import callsites as cs
from ..rules import guards, origin


def extras():
    return EXTRAS


def run(rep, fb, tier):
    run_family("C09", rep, fb, tier, EXTRAS)


EXTRAS = [
    lambda rep, fb, tier: __import__("vf.rules.pyrules", fromlist=["x"]).rule_py_simplify_recheck(rep),
    lambda rep, fb, tier: __import__("vf.rules.pybind", fromlist=["x"]).rule_py_record_methods(rep),
    lambda rep, fb, tier: __import__("vf.rules.pyrules", fromlist=["x"]).rule_py_numpy_rebuild(rep),
    lambda rep, fb, tier: st.rule_axis(rep, fb, methods=("rpad", "rpad_and_clip"), floor=70),
    lambda rep, fb, tier: guards.rule_const_subscript(rep, fb),
    lambda rep, fb, tier: origin.rule_origin(rep, fb),
    lambda rep, fb, tier: __import__("vf.rules.canon", fromlist=["x"]).rule_canon(rep, fb),
    lambda rep, fb, tier: __import__("vf.rules.records", fromlist=["x"]).rule_regular_length(rep, fb),
    lambda rep, fb, tier: __import__("vf.rules.methodrules", fromlist=["x"]).rule_option_shifts(rep, fb),
    lambda rep, fb, tier: __import__("vf.rules.lints", fromlist=["x"]).rule_clip_flag(rep, fb),
    lambda rep, fb, tier: __import__("vf.rules.lints", fromlist=["x"]).rule_record_rebuild_length(rep, fb),
    lambda rep, fb, tier: __import__("vf.rules.lints", fromlist=["x"]).rule_own_metadata(rep, fb),
    lambda rep, fb, tier: __import__("vf.rules.lints", fromlist=["x"]).rule_rebuilt_simplified(rep, fb),
    lambda rep, fb, tier: __import__("vf.rules.lints", fromlist=["x"]).rule_zero_field_depths(rep, fb),
    lambda rep, fb, tier: __import__("vf.rules.lints", fromlist=["x"]).rule_ctor_roles(rep, fb),
    lambda rep, fb, tier: __import__("vf.rules.lints", fromlist=["x"]).rule_call_roles(rep, fb),
    lambda rep, fb, tier: __import__("vf.rules.lints2", fromlist=["x"]).rule_missing_predicate(rep, fb),
    lambda rep, fb, tier: __import__("vf.rules.lints3", fromlist=["x"]).rule_option_shortcut(rep, fb),
    lambda rep, fb, tier: __import__("vf.rules.lints3", fromlist=["x"]).rule_option_fillna_stops(rep, fb),
    lambda rep, fb, tier: __import__("vf.rules.pyrules3", fromlist=["x"]).rule_py_raw_axis(rep),
    lambda rep, fb, tier: __import__("vf.rules.pyrules3", fromlist=["x"]).rule_py_transform_returns(rep),
    lambda rep, fb, tier: __import__("vf.rules.methodrules", fromlist=["x"]).rule_index_content(rep, fb),
    lambda rep, fb, tier: __import__("vf.rules.lints3", fromlist=["x"]).rule_bytemask_normalised(rep, fb),
    lambda rep, fb, tier: __import__("vf.rules.pyrules4", fromlist=["x"]).rule_py_depth_relative_wrap(rep),
    lambda rep, fb, tier: __import__("vf.rules.lints3", fromlist=["x"]).rule_regular_zeros_length(rep, fb),
    lambda rep, fb, tier: __import__("vf.rules.pyrules5", fromlist=["x"]).rule_py_sibling_arm_args(rep),
    lambda rep, fb, tier: __import__("vf.rules.pyrules5", fromlist=["x"]).rule_py_shortcut_agrees(rep),
]
