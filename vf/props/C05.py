"""C05 — see DESIGN.md section 3."""
from .families import run_family
from ..rules import structure as st
from ..rules import callsites as cs
from ..rules import origin, records


def extras():
    return EXTRAS


def run(rep, fb, tier):
    run_family("C05", rep, fb, tier, EXTRAS)


EXTRAS = [
    lambda rep, fb, tier: __import__("vf.rules.pyrules", fromlist=["x"]).rule_py_list_content(rep),
    lambda rep, fb, tier: __import__("vf.rules.pyrules", fromlist=["x"]).rule_py_union_content_index(rep),
    lambda rep, fb, tier: __import__("vf.rules.pybind", fromlist=["x"]).rule_py_record_methods(rep),
    lambda rep, fb, tier: __import__("vf.rules.pyrules", fromlist=["x"]).rule_py_none_guard(rep),
    lambda rep, fb, tier: st.rule_axis(rep, fb, methods=("num", "offsets_and_flattened", "localindex"), floor=100),
    lambda rep, fb, tier: origin.rule_origin(rep, fb),
    lambda rep, fb, tier: records.rule_regular_length(rep, fb),
    lambda rep, fb, tier: __import__("vf.rules.methodrules", fromlist=["x"]).rule_index_content(rep, fb),
    lambda rep, fb, tier: __import__("vf.rules.lints", fromlist=["x"]).rule_shape_subscript(rep, fb),
    lambda rep, fb, tier: __import__("vf.rules.lints", fromlist=["x"]).rule_rebuilt_simplified(rep, fb),
    lambda rep, fb, tier: __import__("vf.rules.lints", fromlist=["x"]).rule_zero_field_depths(rep, fb),
    lambda rep, fb, tier: __import__("vf.rules.lints", fromlist=["x"]).rule_ctor_roles(rep, fb),
    lambda rep, fb, tier: __import__("vf.rules.lints", fromlist=["x"]).rule_call_roles(rep, fb),
    lambda rep, fb, tier: __import__("vf.rules.lints2", fromlist=["x"]).rule_rebased_copy(rep, fb),
    lambda rep, fb, tier: __import__("vf.rules.lints3", fromlist=["x"]).rule_offsets_first(rep, fb),
    lambda rep, fb, tier: __import__("vf.rules.pyrules3", fromlist=["x"]).rule_py_unused_local(rep),
    lambda rep, fb, tier: __import__("vf.rules.pyrules3", fromlist=["x"]).rule_py_raw_axis(rep),
    lambda rep, fb, tier: __import__("vf.rules.pyrules3", fromlist=["x"]).rule_py_transform_returns(rep),
    lambda rep, fb, tier: __import__("vf.rules.pyrules3", fromlist=["x"]).rule_py_searchsorted_siblings(rep),
    lambda rep, fb, tier: __import__("vf.rules.pyrules4", fromlist=["x"]).rule_py_pack_reenters(rep),
    lambda rep, fb, tier: __import__("vf.rules.pyrules4", fromlist=["x"]).rule_py_depth_relative_wrap(rep),
    lambda rep, fb, tier: __import__("vf.rules.lints3", fromlist=["x"]).rule_range_same_base(rep, fb),
    lambda rep, fb, tier: __import__("vf.rules.pyrules5", fromlist=["x"]).rule_py_derived_node_mix(rep),
    lambda rep, fb, tier: __import__("vf.rules.pyrules5", fromlist=["x"]).rule_py_shortcut_agrees(rep),
]
