"""C02 — see DESIGN.md section 3."""
from .families import run_family
from ..rules import structure as st
from ..rules import callsites as cs
from ..rules import origin, forward, pyrules, records


def extras():
    return EXTRAS


def run(rep, fb, tier):
    run_family("C02", rep, fb, tier, EXTRAS)


EXTRAS = [
    lambda rep, fb, tier: __import__("vf.rules.pyrules", fromlist=["x"]).rule_py_list_content(rep),
    lambda rep, fb, tier: __import__("vf.rules.pyrules", fromlist=["x"]).rule_py_arm_store(rep),
    lambda rep, fb, tier: __import__("vf.rules.pyrules", fromlist=["x"]).rule_py_first_only_check(rep),
    lambda rep, fb, tier: __import__("vf.rules.pyrules", fromlist=["x"]).rule_py_regular_length(rep),
    lambda rep, fb, tier: __import__("vf.rules.pyrules", fromlist=["x"]).rule_py_numpy_rebuild(rep),
    lambda rep, fb, tier: st.rule_family(rep, fb),
    lambda rep, fb, tier: st.rule_clone(rep, fb),
    lambda rep, fb, tier: st.rule_orderdep(rep, fb),
    lambda rep, fb, tier: __import__("vf.rules.canon", fromlist=["x"]).rule_canon(rep, fb),
    lambda rep, fb, tier: cs.rule_dispatch(rep, fb),
    lambda rep, fb, tier: origin.rule_origin(rep, fb),
    lambda rep, fb, tier: __import__("vf.rules.kernels", fromlist=["x"]).rule_kernel_siblings(rep, fb),
    lambda rep, fb, tier: origin.rule_rebase(rep, fb),
    lambda rep, fb, tier: origin.rule_merge_regular(rep, fb),
    lambda rep, fb, tier: records.rule_regular_length(rep, fb),
    lambda rep, fb, tier: forward.rule_same_name(rep, fb),
    lambda rep, fb, tier: pyrules.rule_py_dispatch(rep),
    lambda rep, fb, tier: pyrules.rule_py_categories(rep),
    lambda rep, fb, tier: pyrules.rule_py_call_shape(rep),
    lambda rep, fb, tier: pyrules.rule_py_record_field_trim(rep),
    lambda rep, fb, tier: pyrules.rule_py_highlevel_returns(rep),
    lambda rep, fb, tier: __import__("vf.rules.methodrules", fromlist=["x"]).rule_index_content(rep, fb),
    lambda rep, fb, tier: __import__("vf.rules.methodrules", fromlist=["x"]).rule_index_domain(rep, fb),
    lambda rep, fb, tier: __import__("vf.rules.methodrules", fromlist=["x"]).rule_broadcast_validated(rep, fb),
    lambda rep, fb, tier: __import__("vf.rules.methodrules", fromlist=["x"]).rule_option_shifts(rep, fb),
    lambda rep, fb, tier: __import__("vf.rules.methodrules", fromlist=["x"]).rule_record_by_name(rep, fb),
    lambda rep, fb, tier: __import__("vf.rules.lints", fromlist=["x"]).rule_chain_broken(rep, fb),
    lambda rep, fb, tier: __import__("vf.rules.lints", fromlist=["x"]).rule_unused_result(rep, fb),
    lambda rep, fb, tier: __import__("vf.rules.lints", fromlist=["x"]).rule_distinct_arms(rep, fb),
    lambda rep, fb, tier: __import__("vf.rules.lints", fromlist=["x"]).rule_ptr_byteoffset(rep, fb),
    lambda rep, fb, tier: __import__("vf.rules.lints", fromlist=["x"]).rule_contiguous_guard(rep, fb),
    lambda rep, fb, tier: __import__("vf.rules.lints", fromlist=["x"]).rule_shape_subscript(rep, fb),
    lambda rep, fb, tier: __import__("vf.rules.lints", fromlist=["x"]).rule_regular_nesting(rep, fb),
    lambda rep, fb, tier: __import__("vf.rules.lints", fromlist=["x"]).rule_record_rebuild_length(rep, fb),
    lambda rep, fb, tier: __import__("vf.rules.lints", fromlist=["x"]).rule_index_ptr_offset(rep, fb),
    lambda rep, fb, tier: __import__("vf.rules.lints", fromlist=["x"]).rule_own_metadata(rep, fb),
    lambda rep, fb, tier: __import__("vf.rules.lints", fromlist=["x"]).rule_rebuilt_simplified(rep, fb),
    lambda rep, fb, tier: __import__("vf.rules.lints", fromlist=["x"]).rule_raw_base_pointer(rep, fb),
    lambda rep, fb, tier: __import__("vf.rules.lints", fromlist=["x"]).rule_virtual_unwrap_first(rep, fb),
    lambda rep, fb, tier: __import__("vf.rules.lints", fromlist=["x"]).rule_advanced_projected(rep, fb),
    lambda rep, fb, tier: __import__("vf.rules.lints", fromlist=["x"]).rule_ctor_roles(rep, fb),
    lambda rep, fb, tier: __import__("vf.rules.lints", fromlist=["x"]).rule_call_roles(rep, fb),
    lambda rep, fb, tier: __import__("vf.rules.lints2", fromlist=["x"]).rule_rebased_copy(rep, fb),
    lambda rep, fb, tier: __import__("vf.rules.lints2", fromlist=["x"]).rule_regularized_bounds(rep, fb),
    lambda rep, fb, tier: __import__("vf.rules.lints2", fromlist=["x"]).rule_minmax_direction(rep, fb),
    lambda rep, fb, tier: __import__("vf.rules.lints2", fromlist=["x"]).rule_missing_predicate(rep, fb),
    lambda rep, fb, tier: __import__("vf.rules.lints3", fromlist=["x"]).rule_list_carry_origin(rep, fb),
    lambda rep, fb, tier: __import__("vf.rules.pyrules3", fromlist=["x"]).rule_py_unused_local(rep),
    lambda rep, fb, tier: __import__("vf.rules.pyrules3", fromlist=["x"]).rule_py_duplicate_operand(rep),
    lambda rep, fb, tier: __import__("vf.rules.pyrules4", fromlist=["x"]).rule_py_pack_reenters(rep),
    lambda rep, fb, tier: __import__("vf.rules.pyrules5", fromlist=["x"]).rule_py_filtered_ordinal(rep),
    lambda rep, fb, tier: __import__("vf.rules.lints3", fromlist=["x"]).rule_range_same_base(rep, fb),
    lambda rep, fb, tier: __import__("vf.rules.lints3", fromlist=["x"]).rule_regularized_copy_used(rep, fb),
    lambda rep, fb, tier: __import__("vf.rules.pyrules5", fromlist=["x"]).rule_py_depth_selector_regular(rep),
    lambda rep, fb, tier: __import__("vf.rules.pyrules5", fromlist=["x"]).rule_py_derived_node_mix(rep),
]
