"""C08 — see DESIGN.md section 3."""
from .families import run_family
from ..rules import structure as st
from ..rules import callsites as cs


def extras():
    return EXTRAS


def run(rep, fb, tier):
    run_family("C08", rep, fb, tier, EXTRAS)


from ..rules import fintab, origin


EXTRAS = [
    lambda rep, fb, tier: __import__("vf.rules.pyrules", fromlist=["x"]).rule_py_union_content_index(rep),
    lambda rep, fb, tier: __import__("vf.rules.pyrules", fromlist=["x"]).rule_py_simplify_recheck(rep),
    lambda rep, fb, tier: fintab.rule_promotion(rep, fb),
    lambda rep, fb, tier: fintab.rule_dtype_tables(rep, fb),
    lambda rep, fb, tier: st.rule_family(rep, fb),
    lambda rep, fb, tier: st.rule_clone(rep, fb),
    lambda rep, fb, tier: origin.rule_merge_regular(rep, fb),
    lambda rep, fb, tier: st.rule_orderdep(rep, fb),
    lambda rep, fb, tier: __import__("vf.rules.canon", fromlist=["x"]).rule_canon(rep, fb),
    lambda rep, fb, tier: __import__("vf.rules.methodrules", fromlist=["x"]).rule_index_domain(rep, fb),
    lambda rep, fb, tier: __import__("vf.rules.methodrules", fromlist=["x"]).rule_record_by_name(rep, fb),
    lambda rep, fb, tier: __import__("vf.rules.methodrules", fromlist=["x"]).rule_index_content(rep, fb),
    lambda rep, fb, tier: __import__("vf.rules.lints", fromlist=["x"]).rule_chain_broken(rep, fb),
    lambda rep, fb, tier: __import__("vf.rules.lints", fromlist=["x"]).rule_unused_result(rep, fb),
    lambda rep, fb, tier: __import__("vf.rules.lints", fromlist=["x"]).rule_sentinel_guard(rep, fb),
    lambda rep, fb, tier: __import__("vf.rules.lints", fromlist=["x"]).rule_flat_length(rep, fb),
    lambda rep, fb, tier: __import__("vf.rules.lints", fromlist=["x"]).rule_dtype_case(rep, fb),
    lambda rep, fb, tier: __import__("vf.rules.lints", fromlist=["x"]).rule_distinct_arms(rep, fb),
    lambda rep, fb, tier: __import__("vf.rules.lints", fromlist=["x"]).rule_fill_accumulate(rep, fb),
    lambda rep, fb, tier: __import__("vf.rules.lints", fromlist=["x"]).rule_contiguous_guard(rep, fb),
    lambda rep, fb, tier: __import__("vf.rules.lints", fromlist=["x"]).rule_dtype_arm_clones(rep, fb),
    lambda rep, fb, tier: __import__("vf.rules.lints", fromlist=["x"]).rule_virtual_unwrap_first(rep, fb),
    lambda rep, fb, tier: __import__("vf.rules.lints", fromlist=["x"]).rule_own_metadata(rep, fb),
    lambda rep, fb, tier: __import__("vf.rules.lints", fromlist=["x"]).rule_ctor_roles(rep, fb),
    lambda rep, fb, tier: __import__("vf.rules.lints", fromlist=["x"]).rule_call_roles(rep, fb),
    lambda rep, fb, tier: __import__("vf.rules.lints2", fromlist=["x"]).rule_dtype_case_methods(rep, fb),
    lambda rep, fb, tier: __import__("vf.rules.lints3", fromlist=["x"]).rule_union_tag_count(rep, fb),
    lambda rep, fb, tier: __import__("vf.rules.lints3", fromlist=["x"]).rule_merge_parameters(rep, fb),
    lambda rep, fb, tier: __import__("vf.rules.pyrules", fromlist=["x"]).rule_py_merge_batch(rep),
    lambda rep, fb, tier: __import__("vf.rules.pyrules3", fromlist=["x"]).rule_py_unused_local(rep),
    lambda rep, fb, tier: __import__("vf.rules.pyrules4", fromlist=["x"]).rule_py_recursion_all_options(rep),
    lambda rep, fb, tier: __import__("vf.rules.lints3", fromlist=["x"]).rule_mergeable_unwraps(rep, fb),
]
