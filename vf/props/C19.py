"""C19 — AwkwardForth: guard discipline, opcode tables, operator agreement, output growth, input bounds."""
from .common import STD_ASSUME
from ..rules import forth


def run(rep, fb, tier):
    from ..rules import lints as _lx
    rep.assumptions += STD_ASSUME + ["macros (CODE_*, READ_*) are read from the #define lines of ForthMachine.cpp with a comment/string-aware scanner; clang has already expanded them in the AST"]
    rep.declined += ["arithmetic semantics beyond operator identity (floor-division identities, wrap-around at the machine width)",
                     "determinism across arbitrary run/step/pause segmentations as a behavioural statement (only the structural epilogue clause is decided)",
                     "decompile/recompile behavioural equivalence; stack-permutation words (dup/swap/rot/...) beyond their guards",
                     "src/python/forth.cpp and the compile-time parser's error reporting"]
    forth.rule_forth_guards(rep, fb)
    forth.rule_forth_tables(rep, fb)
    forth.rule_forth_semantics(rep, fb)
    forth.rule_forth_output(rep, fb)
    from ..rules import methodrules
    methodrules.rule_forth_output_alias(rep, fb)
    forth.rule_forth_input(rep, fb)
    forth.rule_forth_width(rep, fb)
    forth.rule_forth_operand_guards(rep, fb)
    _lx.rule_shift_literal(rep, fb)
    _lx.rule_growth_progress(rep, fb)
    from ..rules import lints
    lints.rule_bit_accumulator_reset(rep, fb)
    from ..rules import lints as _lx
    _lx.rule_whole_token(rep, fb)
    from ..rules import lints as _lv
    _lv.rule_call_roles(rep, fb)
    from ..rules import lints2 as _l2
    _l2.rule_byteswap_width(rep, fb)
    from ..rules import lints3 as _l3
    _l3.rule_forth_source_literals(rep, fb)
    _l3.rule_forth_parse_depth(rep, fb)
    __import__("vf.rules.binding2", fromlist=["x"]).rule_forth_input_bytes(rep, fb)
    __import__("vf.rules.lints3", fromlist=["x"]).rule_forth_depth_abs(rep, fb)
    rep.units = fb.units
