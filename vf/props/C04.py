"""C04 — see DESIGN.md section 3."""
from .families import run_family
from ..rules import structure as st
from ..rules import callsites as cs


def extras():
    return EXTRAS


def run(rep, fb, tier):
    run_family("C04", rep, fb, tier, EXTRAS)


from ..rules import pyrules


EXTRAS = [
    lambda rep, fb, tier: __import__("vf.rules.pyrules", fromlist=["x"]).rule_py_arm_store(rep),
    lambda rep, fb, tier: __import__("vf.rules.pyrules", fromlist=["x"]).rule_py_first_only_check(rep),
    lambda rep, fb, tier: __import__("vf.rules.pyrules", fromlist=["x"]).rule_py_record_field_trim(rep),
    lambda rep, fb, tier: __import__("vf.rules.pyrules", fromlist=["x"]).rule_py_behaviorof_args(rep),
    lambda rep, fb, tier: __import__("vf.rules.pyrules", fromlist=["x"]).rule_py_regular_length(rep),
    lambda rep, fb, tier: pyrules.rule_py_borrowed(rep, ["_util.py", "_connect/_numpy.py", "highlevel.py", "behaviors/string.py", "operations/structure.py"], floor=10),
    lambda rep, fb, tier: pyrules.rule_py_dispatch(rep, modules=["_util.py", "_connect/_numpy.py"], floor=5),
    lambda rep, fb, tier: pyrules.rule_py_categories(rep),
    lambda rep, fb, tier: __import__("vf.rules.methodrules", fromlist=["x"]).rule_broadcast_validated(rep, fb),
    lambda rep, fb, tier: __import__("vf.rules.origin", fromlist=["x"]).rule_merge_regular(rep, fb),
    lambda rep, fb, tier: pyrules.rule_py_unreachable(rep),
    lambda rep, fb, tier: pyrules.rule_py_callback_layout(rep),
    lambda rep, fb, tier: __import__("vf.rules.pybind", fromlist=["x"]).rule_py_bindings(rep),
    lambda rep, fb, tier: pyrules.rule_py_call_signature(rep),
    lambda rep, fb, tier: pyrules.rule_py_highlevel_returns(rep),
    lambda rep, fb, tier: __import__("vf.rules.pyrules", fromlist=["x"]).rule_py_defassign(rep),
    lambda rep, fb, tier: __import__("vf.rules.pybind", fromlist=["x"]).rule_py_layout_attrs(rep),
    lambda rep, fb, tier: pyrules.rule_py_call_shape(rep),
    lambda rep, fb, tier: pyrules.rule_py_isinstance_shadow(rep),
    lambda rep, fb, tier: __import__("vf.rules.pyrules3", fromlist=["x"]).rule_py_unused_local(rep),
    lambda rep, fb, tier: __import__("vf.rules.pyrules4", fromlist=["x"]).rule_py_numpy_positional(rep),
    lambda rep, fb, tier: __import__("vf.rules.pyrules4", fromlist=["x"]).rule_py_recursion_all_options(rep),
    lambda rep, fb, tier: __import__("vf.rules.pyrules4", fromlist=["x"]).rule_py_dunder_other(rep),
    lambda rep, fb, tier: __import__("vf.rules.pyrules5", fromlist=["x"]).rule_py_none_after_loop(rep),
    lambda rep, fb, tier: __import__("vf.rules.pyrules5", fromlist=["x"]).rule_py_filtered_ordinal(rep),
    lambda rep, fb, tier: __import__("vf.rules.pyrules5", fromlist=["x"]).rule_py_sibling_arm_args(rep),
]
