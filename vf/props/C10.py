"""C10 — record fields: projection, zip/unzip, with_field."""
from .common import STD_ASSUME
from ..rules import records, forward


def run(rep, fb, tier):
    rep.assumptions += STD_ASSUME
    rep.declined += ["commutation laws (projection vs slicing, unzip(zip)) as value equalities",
                     "that broadcasting in with_field yields 'value broadcast into the record structure' (a C04-style semantic statement)"]
    records.rule_project_wrap(rep, fb)
    records.rule_record_lookup(rep, fb)
    from ..rules import canon
    canon.rule_canon(rep, fb)
    records.rule_record_project_length(rep, fb)
    from ..rules import methodrules
    methodrules.rule_record_by_name(rep, fb)
    records.rule_regular_length(rep, fb)
    from ..rules import lints
    lints.rule_sentinel_guard(rep, fb)
    lints.rule_parallel_build(rep, fb)
    lints.rule_record_rebuild_length(rep, fb)
    forward.rule_same_name(rep, fb, select=lambda f: f["name"] in ("getitem_field", "getitem_fields", "getitem_next", "getitem_next_jagged", "getitem_range", "getitem_range_nowrap", "carry", "setitem_field", "field", "fields", "key", "fieldindex", "haskey", "astuple"), floor=100)
    from ..rules import pyrules_records
    pyrules_records.run(rep)
    from ..rules import pyrules as _pr
    _pr.rule_py_unreachable(rep)
    _pr.rule_py_callback_layout(rep)
    from ..rules import pybind as _pb, pyrules as _pr2
    _pb.rule_py_bindings(rep)
    _pr2.rule_py_call_signature(rep)
    from ..rules import lints as _lx
    _lx.rule_whole_token(rep, fb)
    from ..rules import lints as _lz
    _lz.rule_zero_field_depths(rep, fb)
    from ..rules import lints as _lw
    _lw.rule_ctor_roles(rep, fb)
    from ..rules import lints as _lv
    _lv.rule_call_roles(rep, fb)
    from ..rules import lints2 as _l2
    _l2.rule_record_rebuild_lookup(rep, fb)
    _l2.rule_minmax_direction(rep, fb)
    from ..rules import pyrules as _pr3
    _pr3.rule_py_highlevel_returns(rep)
    from ..rules import pyrules as _pr4
    _pr4.rule_py_defassign(rep)
    from ..rules import pybind as _pb2
    _pb2.rule_py_layout_attrs(rep)
    from ..rules import pyrules as _pr5
    _pr5.rule_py_call_shape(rep)
    from ..rules import pyrules as _pr6, pybind as _pb6
    _pr6.rule_py_behaviorof_args(rep)
    _pr6.rule_py_numfields_sentinel(rep)
    _pb6.rule_py_record_methods(rep)
    _pr6.rule_py_record_field_trim(rep)
    __import__("vf.rules.pyrules3", fromlist=["x"]).rule_py_unused_local(rep)
    __import__("vf.rules.pyrules3", fromlist=["x"]).rule_py_duplicate_operand(rep)
    __import__("vf.rules.pyrules", fromlist=["x"]).rule_py_dead_attr(rep)
    __import__("vf.rules.pyrules4", fromlist=["x"]).rule_py_dunder_other(rep)
    __import__("vf.rules.pyrules5", fromlist=["x"]).rule_py_none_after_loop(rep)
    __import__("vf.rules.pyrules5", fromlist=["x"]).rule_py_default_none_identity(rep)
    __import__("vf.rules.pyrules5", fromlist=["x"]).rule_py_path_tail(rep)
    rep.units = fb.units
