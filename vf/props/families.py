"""Table-driven composition of the properties that are computed by a family of kernels + libawkward methods."""
from .common import kernel_family, STD_ASSUME
from ..rules import structure as st
from ..rules import callsites as cs

FAMS = {
    "C01": dict(kre=r"getitem|carry|regularize|slicearray|jagged|missing_repeat|Slice|Index_to|index_carry",
                fre=r"getitem|carry|asslice|regularize|toslice|SliceJagged|SliceMissing|varaxis",
                floors=dict(kspec=45, wrappers=90, sites=70, role=100, fresh=70),
                declined=["equality with NumPy / nested-list indexing semantics for the composition of slice steps across nesting levels (data-dependent)",
                          "src/python/content.cpp toslice_part (pybind11 cannot be type-checked here)"]),
    "C02": dict(kre=r".", fre=r".",   # every kernel and every call site: any of them can make a result depend on the physical layout
                floors=dict(kspec=22, wrappers=45, sites=60, role=80, fresh=60),
                declined=["that two different algorithms for two encodings (e.g. ListArray::rpad vs RegularArray::rpad) produce equal values (relational property of two programs)"]),
    "C03": dict(kre=r"reduce|Reducer", fre=r"reduce",
                floors=dict(kspec=30, wrappers=130, sites=130, role=200, fresh=130),
                declined=["correctness of the parents/starts/shifts/gaps pipeline as an algorithm (group membership is data)", "equality with NumPy values"]),
    "C04": dict(kre=r"broadcast_tooffsets", fre=r"broadcast_tooffsets",
                floors=dict(kspec=3, wrappers=5, sites=4, role=4, fresh=3),
                declined=["that the recursion in broadcast_and_apply computes the element-wise function of the broadcast operands", "NumPy right-broadcast equivalence"]),
    "C05": dict(kre=r"_num|flatten|localindex", fre=r"^num$|offsets_and_flattened|localindex|flatten",
                floors=dict(kspec=12, wrappers=25, sites=20, role=25, fresh=20),
                declined=["the algebraic laws themselves (unflatten(flatten(x), num(x)) == x) as value equalities"]),
    "C06": dict(kre=r"sort|unique|preparenext|sorting_ranges|ranges_next|ranges_carry|subrange|nextshifts", fre=r"sort|unique|subrange",
                floors=dict(kspec=6, wrappers=70, sites=45, role=50, fresh=45),
                declined=["that std::sort / std::stable_sort output is an ordered permutation (library contract)", "stability and correctness of the hand-written quick_sort"]),
    "C07": dict(kre=r"combinations", fre=r"combinations",
                floors=dict(kspec=2, wrappers=6, sites=5, role=4, fresh=5),
                declined=["that the recursive enumeration yields itertools order and that its count equals the closed-form count"]),
    "C08": dict(kre=r"fill|simplify|mergemany|merge|filltags|fillindex", fre=r"merge|simplify|fillna|numbers_to_type|cast_to_type",
                floors=dict(kspec=14, wrappers=170, sites=120, role=150, fresh=120),
                declined=["element preservation as a value property of the composed copies"]),
    "C09": dict(kre=r"rpad|fillna|numnull|overlay_mask|_mask|BitMaskedArray_to|ByteMaskedArray_toIndexedOptionArray|min_range",
                fre=r"rpad|fillna|bytemask|project|toIndexedOptionArray|toByteMaskedArray|^mask|nextcarry_outindex",
                floors=dict(kspec=20, wrappers=38, sites=35, role=50, fresh=35),
                declined=["'changes nothing else' as a value statement"]),
    "C11": dict(kre=r"validity", fre=r"validity",
                floors=dict(kspec=3, wrappers=9, sites=4, role=8, fresh=0),
                declined=["'no valid array rejected / no invalid accepted' beyond the listed rules", "closure for Python-level constructions that never call simplify"]),
}


def run_family(prop, rep, fb, tier, extras=()):
    cfg = FAMS[prop]
    rep.assumptions += STD_ASSUME
    rep.declined += cfg["declined"]
    sites = kernel_family(rep, fb, tier, cfg["kre"], cfg["fre"], cfg["floors"])
    for fn in extras:
        fn(rep, fb, tier)
    rep.units = fb.units
    return sites
