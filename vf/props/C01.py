"""C01 — see DESIGN.md section 3."""
from .families import run_family
from ..rules import structure as st
from ..rules import callsites as cs


def extras():
    return EXTRAS


def run(rep, fb, tier):
    run_family("C01", rep, fb, tier, EXTRAS)


from ..rules import guards, forward, fintab


EXTRAS = [
    lambda rep, fb, tier: __import__("vf.rules.binding", fromlist=["x"]).rule_pointer_units(rep, fb),
    lambda rep, fb, tier: __import__("vf.rules.binding", fromlist=["x"]).rule_buffer_info_pair(rep, fb),
    lambda rep, fb, tier: __import__("vf.rules.binding", fromlist=["x"]).rule_exception_unthrown(rep, fb),
    lambda rep, fb, tier: guards.rule_getitem_at(rep, fb),
    lambda rep, fb, tier: guards.rule_invariants(rep, fb),
    lambda rep, fb, tier: fintab.rule_rangeslice(rep, fb),
    lambda rep, fb, tier: __import__("vf.rules.canon", fromlist=["x"]).rule_canon(rep, fb),
    lambda rep, fb, tier: forward.rule_same_name(rep, fb, select=lambda f: "getitem" in f["name"] or f["name"] in ("carry", "asslice"), floor=300, name="FORWARD.same-name:getitem"),
    lambda rep, fb, tier: __import__("vf.rules.methodrules", fromlist=["x"]).rule_index_content(rep, fb),
    lambda rep, fb, tier: __import__("vf.rules.lints", fromlist=["x"]).rule_ptr_byteoffset(rep, fb),
    lambda rep, fb, tier: __import__("vf.rules.lints", fromlist=["x"]).rule_shape_subscript(rep, fb),
    lambda rep, fb, tier: __import__("vf.rules.lints", fromlist=["x"]).rule_index_ptr_offset(rep, fb),
    lambda rep, fb, tier: __import__("vf.rules.lints", fromlist=["x"]).rule_advanced_projected(rep, fb),
    lambda rep, fb, tier: __import__("vf.rules.lints", fromlist=["x"]).rule_ctor_roles(rep, fb),
    lambda rep, fb, tier: __import__("vf.rules.lints", fromlist=["x"]).rule_call_roles(rep, fb),
    lambda rep, fb, tier: __import__("vf.rules.lints2", fromlist=["x"]).rule_regularized_bounds(rep, fb),
    lambda rep, fb, tier: __import__("vf.rules.lints2", fromlist=["x"]).rule_rebased_copy(rep, fb),
    lambda rep, fb, tier: __import__("vf.rules.lints3", fromlist=["x"]).rule_range_step(rep, fb),
    lambda rep, fb, tier: __import__("vf.rules.binding", fromlist=["x"]).rule_stride_division(rep, fb),
    lambda rep, fb, tier: __import__("vf.rules.lints3", fromlist=["x"]).rule_offsets_first(rep, fb),
    lambda rep, fb, tier: __import__("vf.rules.lints3", fromlist=["x"]).rule_list_carry_origin(rep, fb),
    lambda rep, fb, tier: __import__("vf.rules.lints3", fromlist=["x"]).rule_kernel_one_sided(rep, fb),
    lambda rep, fb, tier: __import__("vf.rules.pyrules3", fromlist=["x"]).rule_py_unused_local(rep),
    lambda rep, fb, tier: __import__("vf.rules.binding2", fromlist=["x"]).rule_binding_call_roles(rep, fb),
    lambda rep, fb, tier: __import__("vf.rules.lints3", fromlist=["x"]).rule_regular_zeros_length(rep, fb),
    lambda rep, fb, tier: __import__("vf.rules.pyrules5", fromlist=["x"]).rule_py_slice_consumed(rep),
    lambda rep, fb, tier: __import__("vf.rules.lints3", fromlist=["x"]).rule_strides_inner_first(rep, fb),
    lambda rep, fb, tier: __import__("vf.rules.lints3", fromlist=["x"]).rule_range_same_base(rep, fb),
    lambda rep, fb, tier: __import__("vf.rules.lints3", fromlist=["x"]).rule_identities_offset_units(rep, fb),
    lambda rep, fb, tier: __import__("vf.rules.pyrules5", fromlist=["x"]).rule_py_offsets_of_pieces(rep),
    lambda rep, fb, tier: __import__("vf.rules.lints3", fromlist=["x"]).rule_regularized_copy_used(rep, fb),
    lambda rep, fb, tier: __import__("vf.rules.lints3", fromlist=["x"]).rule_alloc_len_stride(rep, fb),
]
