"""C11 — see DESIGN.md section 3."""
from .families import run_family
from ..rules import structure as st
from ..rules import callsites as cs


def extras():
    return EXTRAS


def run(rep, fb, tier):
    run_family("C11", rep, fb, tier, EXTRAS)


EXTRAS = [
    lambda rep, fb, tier: __import__("vf.rules.pybind", fromlist=["x"]).rule_py_record_methods(rep),
    lambda rep, fb, tier: __import__("vf.rules.pyrules", fromlist=["x"]).rule_py_numpy_rebuild(rep),
    lambda rep, fb, tier: __import__("vf.rules.pyrules", fromlist=["x"]).rule_py_simplify_recheck(rep),
    lambda rep, fb, tier: st.rule_family(rep, fb),
    lambda rep, fb, tier: st.rule_clone(rep, fb),
    lambda rep, fb, tier: st.rule_orderdep(rep, fb),
    lambda rep, fb, tier: __import__("vf.rules.canon", fromlist=["x"]).rule_canon(rep, fb),
    lambda rep, fb, tier: __import__("vf.rules.guards", fromlist=["x"]).rule_division(rep, fb),
    lambda rep, fb, tier: __import__("vf.rules.methodrules", fromlist=["x"]).rule_index_domain(rep, fb),
    lambda rep, fb, tier: __import__("vf.rules.methodrules", fromlist=["x"]).rule_index_content(rep, fb),
    lambda rep, fb, tier: __import__("vf.rules.lints", fromlist=["x"]).rule_null_branch_deref(rep, fb),
    lambda rep, fb, tier: __import__("vf.rules.lints", fromlist=["x"]).rule_rebuilt_simplified(rep, fb),
    lambda rep, fb, tier: __import__("vf.rules.lints", fromlist=["x"]).rule_own_metadata(rep, fb),
    lambda rep, fb, tier: __import__("vf.rules.lints", fromlist=["x"]).rule_ctor_roles(rep, fb),
    lambda rep, fb, tier: __import__("vf.rules.lints", fromlist=["x"]).rule_call_roles(rep, fb),
    lambda rep, fb, tier: __import__("vf.rules.lints2", fromlist=["x"]).rule_failure_message_condition(rep, fb),
    lambda rep, fb, tier: __import__("vf.rules.lints2", fromlist=["x"]).rule_missing_predicate(rep, fb),
    lambda rep, fb, tier: __import__("vf.rules.lints3", fromlist=["x"]).rule_valid_explicit_length(rep, fb),
    lambda rep, fb, tier: __import__("vf.rules.lints3", fromlist=["x"]).rule_merge_parameters(rep, fb),
    lambda rep, fb, tier: __import__("vf.rules.lints3", fromlist=["x"]).rule_option_shortcut(rep, fb),
    lambda rep, fb, tier: __import__("vf.rules.pyrules3", fromlist=["x"]).rule_py_recursion_keywords(rep),
    lambda rep, fb, tier: __import__("vf.rules.lints3", fromlist=["x"]).rule_union_length_is_tags(rep, fb),
    lambda rep, fb, tier: __import__("vf.rules.pyrules5", fromlist=["x"]).rule_py_last_wins(rep),
]
