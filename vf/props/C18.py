"""C18 — lazy (virtual) and partitioned arrays are indistinguishable from the eager array (structural clauses)."""
from .common import STD_ASSUME
from ..rules import forward, pyrules, safety


def run(rep, fb, tier):
    rep.assumptions += STD_ASSUME
    rep.declined += ["behaviour under every cache-eviction history / interleaving (schedules)", "equality of values with the eager, concatenated array",
                     "src/python/virtual.cpp (PyArrayGenerator, PyArrayCache: pybind11 code cannot be type-checked here)"]
    forward.rule_virtual_delegation(rep, fb)
    forward.rule_generator_protocol(rep, fb)
    forward.rule_same_name(rep, fb, select=lambda f: f["cls"] in ("VirtualArray", "PartitionedArray", "IrregularlyPartitionedArray", "SliceGenerator", "ArrayGenerator", "ArrayCache"), floor=40, name="FORWARD.same-name:virtual")
    safety.rule_width(rep, fb, select=lambda f: f["cls"] in ("VirtualArray", "PartitionedArray", "IrregularlyPartitionedArray", "SliceGenerator", "ArrayGenerator", "ArrayCache"), floor=1, name="WIDTH.implicit-narrowing:virtual")
    from ..rules import lints
    lints.rule_virtual_depths(rep, fb)
    pyrules.rule_py_delegation(rep, "partition.py", "PartitionedArray", floor=25)
    pyrules.rule_py_dispatch(rep, modules=["partition.py", "_util.py", "operations/structure.py"], floor=20)
    from ..rules import pybind as _pb, pyrules as _pr2
    _pb.rule_py_bindings(rep)
    _pr2.rule_py_call_signature(rep)
    from ..rules import lints as _lz
    _lz.rule_virtual_unwrap_first(rep, fb)
    from ..rules import lints as _lw
    _lw.rule_ctor_roles(rep, fb)
    from ..rules import lints as _lv
    _lv.rule_call_roles(rep, fb)
    from ..rules import lints2 as _l2
    _l2.rule_regularized_bounds(rep, fb)
    _l2.rule_form_array_simplify(rep, fb)
    from ..rules import pyrules as _pr4
    _pr4.rule_py_defassign(rep)
    from ..rules import pybind as _pb2
    _pb2.rule_py_layout_attrs(rep)
    from ..rules import pyrules as _pr5
    _pr5.rule_py_call_shape(rep)
    _pr5.rule_py_dead_attr(rep)
    _pr5.rule_py_offset_units(rep)
    _pr5.rule_py_self_attrs(rep)
    _pr5.rule_py_isinstance_shadow(rep)
    _pr5.rule_py_none_guard(rep)
    _pr5.rule_py_highlevel_returns(rep)
    __import__("vf.rules.pyrules3", fromlist=["x"]).rule_py_unused_local(rep)
    __import__("vf.rules.pyrules3", fromlist=["x"]).rule_py_loop_derived(rep)
    __import__("vf.rules.pyrules5", fromlist=["x"]).rule_py_none_after_loop(rep)
    __import__("vf.rules.lints3", fromlist=["x"]).rule_mergeable_unwraps(rep, fb)
    __import__("vf.rules.pyrules5", fromlist=["x"]).rule_py_slice_consumed(rep)
    __import__("vf.rules.pyrules5", fromlist=["x"]).rule_py_last_wins(rep)
    __import__("vf.rules.pyrules5", fromlist=["x"]).rule_py_offsets_of_pieces(rep)
    __import__("vf.rules.pyrules5", fromlist=["x"]).rule_py_boundary_search_side(rep)
    rep.units = fb.units + ["src/awkward/partition.py, _util.py, operations/structure.py (ast)"]
