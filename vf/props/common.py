"""Shared composition helpers for property checks."""
import re
from ..rules import callsites as cs
from ..rules.kernels import rule_kspec, rule_wrappers
from ..core import AnalysisError

STD_ASSUME = [
    "clang 14's parser/type checker and its JSON AST dump are correct; Python's ast module is correct",
    "each rule is a necessary structural condition of the property, not the behavioural statement itself (see declined_clauses)",
]


def kernel_family(rep, fb, tier, kre, fre, floors=None):
    """A/B on the kernels whose specification name matches kre; D/ROLE/FRESH on every kernel call site that lies in a
    libawkward function whose name matches fre or that calls a kernel matching kre."""
    floors = floors or {}
    kpat = re.compile(kre)
    fpat = re.compile(fre)
    sel = lambda n: bool(kpat.search(n))
    r, programs, undefined = rule_kspec(rep, fb, tier, sel, floor=floors.get("kspec", 1))
    rule_wrappers(rep, fb, sel, floor=floors.get("wrappers", 1))
    api = cs.kernel_api(fb)
    allsites = cs.kernel_sites(fb, api)
    sites = [s for s in allsites if fpat.search(s.func["name"] or "") or kpat.search(s.name)]
    if tier == "thorough":
        isites = cs.kernel_sites(fb, api, inst=True)
        sites_i = [s for s in isites if fpat.search(s.func["name"] or "") or kpat.search(s.name)]
    cs.rule_errflow(rep, fb, sites=sites, floor=floors.get("sites", 1))
    cs.rule_role(rep, fb, sites=sites, floor=floors.get("role", 1))
    cs.rule_fresh(rep, fb, sites=sites, floor=floors.get("fresh", 1))
    from ..rules import kbound
    kbound.rule_kbound(rep, fb, select_site=lambda s: bool(fpat.search(s.func["name"] or "") or kpat.search(s.name)), floor=0)
    if tier == "thorough" and sites_i:
        # re-run the call-site rules on every template instantiation (resolved callees, implicit conversions)
        pattern_obl = {r0.name: r0.obligations for r0 in rep.rules}
        for fn, nm, rn in ((cs.rule_errflow, "sites", "ERRFLOW.handled"), (cs.rule_role, "role", "ROLE.kernel-args"), (cs.rule_fresh, "fresh", "FRESH.kernel-out")):
            rep.no_floor_table = True
            try:
                # vacuity is guarded at pattern level; an instantiation rerun may only be empty where the pattern-level rule is empty too
                fn(rep, fb, sites=sites_i, floor=1 if pattern_obl.get(rn, 1) > 0 else 0)
            finally:
                rep.no_floor_table = False
            rep.rules[-1].name += "@instantiations"
    rep.extra_cov.setdefault("kernels_without_definition", undefined)
    rep.extra_cov.setdefault("programs", programs)
    return sites
