"""C03 — see DESIGN.md section 3."""
from .families import run_family
from ..rules import structure as st
from ..rules import callsites as cs
from ..rules import guards, pyrules, forward, origin


def extras():
    return EXTRAS


def run(rep, fb, tier):
    run_family("C03", rep, fb, tier, EXTRAS)


EXTRAS = [
    lambda rep, fb, tier: __import__("vf.rules.pyrules", fromlist=["x"]).rule_py_list_content(rep),
    lambda rep, fb, tier: __import__("vf.rules.pyrules", fromlist=["x"]).rule_py_offset_units(rep),
    lambda rep, fb, tier: st.rule_negaxis(rep, fb, floor=14),
    lambda rep, fb, tier: guards.rule_division(rep, fb),
    lambda rep, fb, tier: origin.rule_rebase(rep, fb),
    lambda rep, fb, tier: pyrules.rule_py_reducers(rep),
    lambda rep, fb, tier: pyrules.rule_py_keepdims_recombine(rep),
    lambda rep, fb, tier: pyrules.rule_py_none_guard(rep),
    lambda rep, fb, tier: pyrules.rule_py_record_field_trim(rep),
    lambda rep, fb, tier: pyrules.rule_py_call_shape(rep),
    lambda rep, fb, tier: forward.rule_same_name(rep, fb, select=lambda f: "reduce" in f["name"], floor=50, name="FORWARD.same-name:reduce"),
    lambda rep, fb, tier: __import__("vf.rules.methodrules", fromlist=["x"]).rule_index_content(rep, fb),
    lambda rep, fb, tier: __import__("vf.rules.methodrules", fromlist=["x"]).rule_option_shifts(rep, fb),
    lambda rep, fb, tier: __import__("vf.rules.lints", fromlist=["x"]).rule_dtype_case(rep, fb),
    lambda rep, fb, tier: __import__("vf.rules.lints", fromlist=["x"]).rule_contiguous_guard(rep, fb),
    lambda rep, fb, tier: __import__("vf.rules.lints", fromlist=["x"]).rule_dtype_arm_clones(rep, fb),
    lambda rep, fb, tier: __import__("vf.rules.lints", fromlist=["x"]).rule_reducer_identity(rep, fb),
    lambda rep, fb, tier: __import__("vf.rules.lints", fromlist=["x"]).rule_ctor_roles(rep, fb),
    lambda rep, fb, tier: __import__("vf.rules.lints", fromlist=["x"]).rule_call_roles(rep, fb),
    lambda rep, fb, tier: __import__("vf.rules.lints2", fromlist=["x"]).rule_dtype_case_methods(rep, fb),
    lambda rep, fb, tier: __import__("vf.rules.lints2", fromlist=["x"]).rule_minmax_direction(rep, fb),
    lambda rep, fb, tier: __import__("vf.rules.pyrules3", fromlist=["x"]).rule_py_raw_axis(rep),
    lambda rep, fb, tier: __import__("vf.rules.pyrules4", fromlist=["x"]).rule_py_numpy_positional(rep),
    lambda rep, fb, tier: __import__("vf.rules.lints3", fromlist=["x"]).rule_shifts_handed_down(rep, fb),
]
