"""C17 — types and forms describe the data truthfully and survive serialisation (structural clauses)."""
from .common import STD_ASSUME
from ..rules import formjson, fintab, forward, structure


def run(rep, fb, tier):
    rep.assumptions += STD_ASSUME
    rep.declined += ["full language inclusion printer subset-of parser (infinite language); only the terminal alphabet of primitive names is decided",
                     "equality semantics of parameter JSON; src/python/forms.cpp and types.cpp (pybind11)",
                     "that every extracted element's type is consistent with the promised item type (a value property)"]
    formjson.rule_form_json(rep, fb)
    formjson.rule_form_array_siblings(rep, fb)
    formjson.rule_type_via_form(rep, fb)
    formjson.rule_type_grammar(rep, fb)
    fintab.rule_dtype_tables(rep, fb)
    structure.rule_axis(rep, fb, methods=("num",), floor=10, name="AXIS.depth:num")
    forward.rule_same_name(rep, fb, select=lambda f: (f["cls"] or "").endswith("Form") or (f["cls"] or "").endswith("Type"), floor=100, name="FORWARD.same-name:forms-types")
    from ..rules import lints
    lints.rule_regular_nesting(rep, fb)
    from ..rules import lints as _l
    _l.rule_string_equality(rep, fb)
    from ..rules import pybind as _pb, pyrules as _pr2
    _pb.rule_py_bindings(rep)
    _pr2.rule_py_call_signature(rep)
    _pr2.rule_py_isinstance_shadow(rep)
    from ..rules import lints as _lx
    _lx.rule_whole_token(rep, fb)
    from ..rules import lints as _lz
    _lz.rule_copyjson_pairs(rep, fb)
    _lz.rule_zero_field_depths(rep, fb)
    from ..rules import lints2 as _l2
    _l2.rule_form_array_simplify(rep, fb)
    _l2.rule_dtype_case_methods(rep, fb)
    from ..rules import binding as _bd
    _bd.rule_pickle_state(rep, fb)
    _bd.rule_exception_unthrown(rep, fb)
    from ..rules import pyrules as _pr7
    _pr7.rule_py_array_outermost(rep)
    _bd.rule_def_arg_order(rep, fb)
    from ..rules import jsonrules as _jr, lints3 as _l3
    _jr.rule_json_int_width(rep, fb)
    _l3.rule_child_accessor_bounds(rep, fb)
    _l3.rule_option_shortcut(rep, fb)
    __import__("vf.rules.pyrules3", fromlist=["x"]).rule_py_recursion_keywords(rep)
    __import__("vf.rules.binding2", fromlist=["x"]).rule_binding_call_roles(rep, fb)
    rep.units = fb.units
