"""C07 — see DESIGN.md section 3."""
from .families import run_family
from ..rules import structure as st
from ..rules import callsites as cs
from ..rules import kernels


def extras():
    return EXTRAS


def run(rep, fb, tier):
    run_family("C07", rep, fb, tier, EXTRAS)


EXTRAS = [
    lambda rep, fb, tier: st.rule_axis(rep, fb, methods=("combinations",), floor=30),
    lambda rep, fb, tier: kernels.rule_kernel_siblings(rep, fb),
    lambda rep, fb, tier: __import__("vf.rules.lints", fromlist=["x"]).rule_sibling_sizing(rep, fb),
    lambda rep, fb, tier: __import__("vf.rules.lints", fromlist=["x"]).rule_rebuilt_simplified(rep, fb),
    lambda rep, fb, tier: __import__("vf.rules.lints", fromlist=["x"]).rule_ctor_roles(rep, fb),
    lambda rep, fb, tier: __import__("vf.rules.lints", fromlist=["x"]).rule_call_roles(rep, fb),
    lambda rep, fb, tier: __import__("vf.rules.lints2", fromlist=["x"]).rule_record_rebuild_lookup(rep, fb),
    lambda rep, fb, tier: __import__("vf.rules.pyrules", fromlist=["x"]).rule_py_defassign(rep),
    lambda rep, fb, tier: __import__("vf.rules.lints3", fromlist=["x"]).rule_count_product(rep, fb),
    lambda rep, fb, tier: __import__("vf.rules.pyrules3", fromlist=["x"]).rule_py_raw_axis(rep),
    lambda rep, fb, tier: __import__("vf.rules.methodrules", fromlist=["x"]).rule_index_content(rep, fb),
    lambda rep, fb, tier: __import__("vf.rules.pyrules4", fromlist=["x"]).rule_py_recursion_all_options(rep),
    lambda rep, fb, tier: __import__("vf.rules.lints3", fromlist=["x"]).rule_adjusted_twin(rep, fb),
]
