"""C16 — buffers, pickle, NumPy and Arrow conversions are lossless (table agreement clauses)."""
from .common import STD_ASSUME
from ..rules import pytables, pyrules, fintab


def run(rep, fb, tier):
    rep.assumptions += STD_ASSUME
    rep.declined += ["byte-exact equality of reconstituted arrays (a value round-trip)", "pyarrow's own to_pylist behaviour",
                     "src/python/content.cpp / forms.cpp buffer export (pybind11 cannot be type-checked here)"]
    pytables.rule_buffers_tables(rep)
    pytables.rule_pickle_roundtrip(rep)
    fintab.rule_dtype_tables(rep, fb)
    pyrules.rule_py_dispatch(rep, modules=["operations/convert.py", "_util.py", "partition.py", "highlevel.py"], floor=30)
    pyrules.rule_py_borrowed(rep, ["operations/convert.py", "_util.py", "highlevel.py", "partition.py"], floor=5)
    pyrules.rule_py_categories(rep)
    from ..rules import pyrules as _pr
    _pr.rule_py_unreachable(rep)
    _pr.rule_py_callback_layout(rep)
    from ..rules import pybind as _pb, pyrules as _pr2
    _pb.rule_py_bindings(rep)
    _pr2.rule_py_call_signature(rep)
    from ..rules import pyrules as _pr3
    _pr3.rule_py_highlevel_returns(rep)
    from ..rules import pyrules as _pr4
    _pr4.rule_py_defassign(rep)
    from ..rules import pybind as _pb2
    _pb2.rule_py_layout_attrs(rep)
    from ..rules import pyrules as _pr5
    _pr5.rule_py_call_shape(rep)
    _pr5.rule_py_dead_attr(rep)
    _pr5.rule_py_index_extent(rep)
    _pr5.rule_py_byte_lengths(rep)
    _pr5.rule_py_record_field_trim(rep)
    _pr5.rule_py_enumerate_index(rep)
    _pr5.rule_py_form_parameters(rep)
    _pr5.rule_py_scatter_size(rep)
    _pr5.rule_py_arrow_option_wrap(rep)
    _pr5.rule_py_filtered_concatenate(rep)
    _pr5.rule_py_isinstance_shadow(rep)
    _pr5.rule_py_none_guard(rep)
    from ..rules import binding as _bd
    _bd.rule_exception_unthrown(rep, fb)
    _bd.rule_pointer_export(rep, fb)
    _bd.rule_pickle_state(rep, fb)
    _bd.rule_binding_narrowing(rep, fb)
    _pr5.rule_py_bytes_str_arms(rep)
    _bd.rule_binding_isinstance_order(rep, fb)
    _bd.rule_pointer_units(rep, fb)
    _bd.rule_buffer_info_pair(rep, fb)
    _bd.rule_def_arg_order(rep, fb)
    __import__("vf.rules.binding", fromlist=["x"]).rule_stride_division(rep, fb)
    __import__("vf.rules.pyrules3", fromlist=["x"]).rule_py_unused_local(rep)
    __import__("vf.rules.pyrules3", fromlist=["x"]).rule_py_duplicate_operand(rep)
    __import__("vf.rules.pyrules3", fromlist=["x"]).rule_py_recursion_keywords(rep)
    __import__("vf.rules.pyrules3", fromlist=["x"]).rule_py_loop_derived(rep)
    __import__("vf.rules.binding2", fromlist=["x"]).rule_binding_call_roles(rep, fb)
    __import__("vf.rules.pyrules4", fromlist=["x"]).rule_py_pack_reenters(rep)
    __import__("vf.rules.pyrules4", fromlist=["x"]).rule_py_dunder_other(rep)
    __import__("vf.rules.pyrules5", fromlist=["x"]).rule_py_none_after_loop(rep)
    __import__("vf.rules.binding2", fromlist=["x"]).rule_cstr_loses_length(rep, fb)
    __import__("vf.rules.lints3", fromlist=["x"]).rule_identities_offset_units(rep, fb)
    __import__("vf.rules.pyrules5", fromlist=["x"]).rule_py_view_contiguous(rep)
    __import__("vf.rules.pyrules5", fromlist=["x"]).rule_py_depth_selector_regular(rep)
    __import__("vf.rules.pyrules5", fromlist=["x"]).rule_py_duplicate_read(rep)
    rep.units = fb.units + ["src/awkward/operations/convert.py, highlevel.py, _util.py, partition.py (ast)"]
