"""C14 — builders reproduce the appended values; snapshots are immutable (structural clauses)."""
from .common import STD_ASSUME
from ..rules import builder, forward, safety


def run(rep, fb, tier):
    rep.assumptions += STD_ASSUME
    rep.declined += ["that the resulting value equals the appended Python values for every sequence (history-dependent tree rewriting)",
                     "builder_fromiter in src/python/content.cpp (pybind11) and the Form-driven LayoutBuilder's generated Forth programs",
                     "equal builder states give equal snapshots (a relational statement over histories)"]
    builder.rule_builder_table(rep, fb)
    builder.rule_arraybuilder_update(rep, fb)
    builder.rule_growable(rep, fb)
    builder.rule_builder_discipline(rep, fb)
    from ..rules import methodrules
    methodrules.rule_indexed_builder(rep, fb)
    forward.rule_same_name(rep, fb, select=lambda f: (f["cls"] or "").endswith("Builder") or f["cls"] == "GrowableBuffer", floor=100, name="FORWARD.same-name:builders")
    safety.rule_extern_c_nothrow(rep, fb)
    from ..rules import lints
    lints.rule_raw_store(rep, fb)
    from ..rules import lints as _ly
    _ly.rule_growth_progress(rep, fb)
    from ..rules import lints as _lv
    _lv.rule_call_roles(rep, fb)
    from ..rules import lints2 as _l2
    _l2.rule_union_builder_index(rep, fb)
    from ..rules import lints3 as _l3
    _l3.rule_union_alternatives(rep, fb)
    _l3.rule_forth_source_literals(rep, fb)
    from ..rules import binding as _bd
    _bd.rule_binding_narrowing(rep, fb)
    _bd.rule_exception_unthrown(rep, fb)
    _bd.rule_binding_isinstance_order(rep, fb)
    _l3.rule_index_form_arms(rep, fb)
    __import__("vf.rules.pyrules", fromlist=["x"]).rule_py_dead_attr(rep)
    __import__("vf.rules.binding2", fromlist=["x"]).rule_binding_call_roles(rep, fb)
    __import__("vf.rules.binding2", fromlist=["x"]).rule_cstr_loses_length(rep, fb)
    __import__("vf.rules.pyrules5", fromlist=["x"]).rule_py_default_none_identity(rep)
    __import__("vf.rules.lints3", fromlist=["x"]).rule_search_whole_table(rep, fb)
    rep.units = fb.units
