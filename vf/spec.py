"""kernel-specification.yml loader and Python-definition -> IR lowering (ast only; nothing is executed)."""
import ast
import os
import pickle
import hashlib

REPO = os.environ.get("VERIF_REPO", "/repo")
VERIF = os.path.dirname(os.path.dirname(os.path.abspath(__file__)))
CACHE = os.environ.get("VERIF_CACHE", os.path.join(VERIF, ".cache"))

CASTS = {'float', 'int', 'bool', 'uint8', 'int8', 'int16', 'uint16', 'int32', 'uint32', 'int64', 'uint64',
         'float32', 'float64'}
BIN = {ast.Add: '+', ast.Sub: '-', ast.Mult: '*', ast.Div: '/', ast.FloorDiv: '/', ast.Mod: '%', ast.BitAnd: '&',
       ast.BitOr: '|', ast.BitXor: '^', ast.LShift: '<<', ast.RShift: '>>', ast.Pow: '**'}
CMP = {ast.Lt: '<', ast.LtE: '<=', ast.Gt: '>', ast.GtE: '>=', ast.Eq: '==', ast.NotEq: '!=', ast.Is: '==', ast.IsNot: '!='}


class PyLower:
    """Python subset used by kernel definitions -> the same tuple IR as vf.cxx (line = definition-relative)"""

    def __init__(self):
        self.unknown = set()

    def stmts(self, body):
        res = []
        for s in body:
            res.extend(self.stmt(s))
        return tuple(res)

    def stmt(self, s):
        ln = getattr(s, "lineno", 0)
        if isinstance(s, ast.Assign):
            if len(s.targets) != 1:
                self.unknown.add("multi-target-assign")
                return [("unk", "multiassign", ln)]
            t = s.targets[0]
            if isinstance(t, ast.Tuple):
                if isinstance(s.value, ast.Tuple) and len(s.value.elts) == len(t.elts):
                    return [("assign", self.expr(a), self.expr(b), ln) for a, b in zip(t.elts, s.value.elts)]
                self.unknown.add("tuple-assign")
                return [("unk", "tupleassign", ln)]
            return [("assign", self.expr(t), self.expr(s.value), ln)]
        if isinstance(s, ast.AugAssign):
            return [("aug", BIN[type(s.op)], self.expr(s.target), self.expr(s.value), ln)]
        if isinstance(s, ast.If):
            return [("if", self.expr(s.test), self.stmts(s.body), self.stmts(s.orelse), ln)]
        if isinstance(s, ast.While):
            return [("while", self.expr(s.test), self.stmts(s.body), ln)]
        if isinstance(s, ast.For):
            it = s.iter
            v = self.expr(s.target)
            if isinstance(it, ast.Call) and getattr(it.func, "id", None) == "range":
                a = [self.expr(x) for x in it.args]
                if len(a) == 1:
                    start, stop, step = ("const", 0), a[0], ("const", 1)
                elif len(a) == 2:
                    start, stop, step = a[0], a[1], ("const", 1)
                else:
                    start, stop, step = a
                op = "<"
                if step[0] == "un" and step[1] == "-":
                    op = ">"
                if step[0] == "const" and isinstance(step[1], (int, float)) and step[1] < 0:
                    op = ">"
                return [("assign", v, start, ln),
                        ("for", ("bin", op, v, stop), self.stmts(s.body), (("aug", "+", v, step, ln),), ln)]
            self.unknown.add("for-over-non-range")
            return [("foreach", ast.unparse(s.target), "", self.expr(it), self.stmts(s.body), ln)]
        if isinstance(s, ast.Return):
            return [("return", None if s.value is None else self.expr(s.value), ln)]
        if isinstance(s, ast.Raise):
            e = s.exc
            msg = None
            if isinstance(e, ast.Call) and e.args and isinstance(e.args[0], ast.Constant):
                msg = e.args[0].value
            return [("raise", msg, ln)]
        if isinstance(s, ast.Expr):
            if isinstance(s.value, ast.Constant):
                return []
            return [("expr", self.expr(s.value), ln)]
        if isinstance(s, ast.Break):
            return [("break", ln)]
        if isinstance(s, ast.Continue):
            return [("continue", ln)]
        if isinstance(s, ast.Pass):
            return []
        self.unknown.add(type(s).__name__)
        return [("unk", type(s).__name__, ln)]

    def expr(self, e):
        if isinstance(e, ast.Constant):
            return ("const", e.value)
        if isinstance(e, ast.Name):
            return ("var", e.id)
        if isinstance(e, ast.Subscript):
            return ("idx", self.expr(e.value), self.expr(e.slice))
        if isinstance(e, ast.BinOp):
            return ("bin", BIN[type(e.op)], self.expr(e.left), self.expr(e.right))
        if isinstance(e, ast.UnaryOp):
            if isinstance(e.op, ast.USub):
                return ("un", "-", self.expr(e.operand))
            if isinstance(e.op, ast.Not):
                return ("un", "!", self.expr(e.operand))
            if isinstance(e.op, ast.Invert):
                return ("un", "~", self.expr(e.operand))
            return self.expr(e.operand)
        if isinstance(e, ast.BoolOp):
            op = "&&" if isinstance(e.op, ast.And) else "||"
            vals = [self.expr(v) for v in e.values]
            r = vals[0]
            for v in vals[1:]:
                r = ("bin", op, r, v)
            return r
        if isinstance(e, ast.Compare):
            l = self.expr(e.left)
            parts = []
            for op, c in zip(e.ops, e.comparators):
                r = self.expr(c)
                parts.append(("bin", CMP[type(op)], l, r))
                l = r
            r = parts[0]
            for p in parts[1:]:
                r = ("bin", "&&", r, p)
            return r
        if isinstance(e, ast.Call):
            f = e.func
            if isinstance(f, ast.Name) and f.id in CASTS and len(e.args) == 1:
                return ("cast", "py", f.id, self.expr(e.args[0]))
            return ("call", self.expr(f) if not isinstance(f, ast.Name) else ("fn", f.id), tuple(self.expr(a) for a in e.args), getattr(e, "lineno", 0))
        if isinstance(e, ast.Attribute):
            return ("member", self.expr(e.value), e.attr)
        if isinstance(e, ast.IfExp):
            return ("cond", self.expr(e.test), self.expr(e.body), self.expr(e.orelse))
        if isinstance(e, (ast.List, ast.Tuple)):
            return ("list", tuple(self.expr(x) for x in e.elts))
        if isinstance(e, ast.Slice):
            return ("slice", self.expr(e.lower) if e.lower else None, self.expr(e.upper) if e.upper else None, self.expr(e.step) if e.step else None)
        self.unknown.add(type(e).__name__)
        return ("unk", type(e).__name__)


def definition_ir(defn):
    """-> dict(functions={name: (params, body)}, main=name, unknown=[...]) or None if placeholder / unparsable"""
    try:
        t = ast.parse(defn)
    except SyntaxError as ex:
        return {"error": "definition does not parse: %s" % ex}
    fns = [n for n in t.body if isinstance(n, ast.FunctionDef)]
    if not fns:
        return None
    out = {}
    unk = set()
    for f in fns:
        p = PyLower()
        out[f.name] = (tuple(a.arg for a in f.args.args), p.stmts(f.body))
        unk |= p.unknown
    return {"functions": out, "main": fns[0].name, "unknown": sorted(unk)}


def simple_yaml_kernels(path):
    """fallback reader for the regular subset of YAML used by kernel-specification.yml (when PyYAML is absent)"""
    import json
    import re
    kernels = []
    cur = None
    spec = None
    lines = open(path).read().split("\n")
    i = 0
    while i < len(lines):
        l = lines[i]
        if l.startswith("tests:"):
            break
        m = re.match(r"  - name: (\S+)", l)
        if m:
            cur = {"name": m.group(1), "specializations": [], "definition": ""}
            kernels.append(cur)
            i += 1
            continue
        m = re.match(r"      - name: (\S+)", l)
        if m and cur is not None:
            spec = {"name": m.group(1), "args": []}
            cur["specializations"].append(spec)
            i += 1
            continue
        m = re.match(r"          - \{(.*)\}\s*$", l)
        if m and spec is not None:
            d = {}
            for part in re.findall(r'(\w+): ("[^"]*"|[^,]+)', m.group(1)):
                d[part[0]] = part[1].strip().strip('"')
            spec["args"].append(d)
            i += 1
            continue
        if l.startswith("    definition: |") and cur is not None:
            i += 1
            buf = []
            while i < len(lines) and (lines[i].startswith("      ") or not lines[i].strip()):
                buf.append(lines[i][6:])
                i += 1
            cur["definition"] = "\n".join(buf)
            continue
        i += 1
    return kernels


def load_spec():
    path = os.path.join(REPO, "kernel-specification.yml")
    raw = open(path, "rb").read()
    key = hashlib.sha256(raw + open(os.path.abspath(__file__), "rb").read()).hexdigest()[:32]
    cp = os.path.join(CACHE, "spec-" + key + ".pkl")
    if os.path.exists(cp):
        try:
            with open(cp, "rb") as fh:
                return pickle.load(fh)
        except Exception:
            pass
    try:
        import yaml
        try:
            d = yaml.load(raw, Loader=yaml.CSafeLoader)
        except AttributeError:
            d = yaml.safe_load(raw)
        ks = d["kernels"]
    except ImportError:
        ks = simple_yaml_kernels(path)
    out = []
    for k in ks:
        defn = k.get("definition") or ""
        placeholder = "Insert Python definition here" in defn or not defn.strip()
        out.append({
            "name": k["name"],
            "specializations": [{"name": s["name"], "args": [dict(a) for a in s.get("args", [])]} for s in k["specializations"]],
            "definition": defn,
            "placeholder": placeholder,
            "ir": None if placeholder else definition_ir(defn),
        })
    os.makedirs(CACHE, exist_ok=True)
    tmp = cp + ".%d.tmp" % os.getpid()
    with open(tmp, "wb") as fh:
        pickle.dump(out, fh)
    os.replace(tmp, cp)
    return out


CTYPE = {"int64_t": "int64_t", "bool": "bool", "double": "double", "float": "float"}


def spec_ctype(t):
    """'Const[List[int64_t]]' -> ('const int64_t *')  in the spelling of kernels.h"""
    const = False
    if t.startswith("Const[") and t.endswith("]"):
        const = True
        t = t[6:-1]
    stars = 0
    while t.startswith("List[") and t.endswith("]"):
        stars += 1
        t = t[5:-1]
    s = ("const " if const else "") + t + (" " + "*" * stars if stars else "")
    return s
